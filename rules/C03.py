"""C03 – per-frame TP/FP/FN/TN accounting conserves objects."""
from __future__ import annotations

import ast
from typing import Dict, List, Optional, Tuple

from sa.paths import Path, U, strip_v
from sa.report import Ctx
from rules import generic as G
from rules.common import label_ok, S, appends, enum_paths, fact_where, find_calls, label_source, loops_of

EXPLANATION = (
    "Decides: (1) the status-flow decision table – get_status is enumerated over {no GT, result correct, FP-labelled GT} "
    "(5 rows) and joined, by inlining, with the loop bodies of get_positive_objects / get_negative_objects: on every path each "
    "estimate is appended to exactly one of TP/FP, each paired ground truth is placed exactly as the spec table B1 says, an "
    "unmatched ground truth goes to TN iff FP-labelled else FN and only when it is not among the already accounted ones; "
    "(2) is_result_correct's truth table (TP needs a better-than-threshold score AND a compatible label; the threshold is looked up "
    "with the ground truth's label – R-THRLABEL); (3) the critical-region wiring of evaluate_frame (R-KW, R-KW-splat, R-TF, same filter "
    "parameters and transforms for results and ground truth); (4) filter_object_results applies the predicate to estimate and ground "
    "truth with the same bounds and drops the result when either fails; (5) PassFailResult.evaluate hands the same labels / mode / "
    "thresholds to the positive and the negative side; the decision table of the filter predicate _is_target_object itself (rule shared with C10: every configured criterion is tested on the ego-frame value whenever transforms are given - `is not None`, not truthiness: an empty TransformDict is falsy). Does not decide: the counting identities as arithmetic over runtime lists (they "
    "follow from 1 by summation), the truth of the opaque predicates on concrete objects."
)

OF = "evaluation.matching.objects_filter."
OR = "evaluation.result.object_result.DynamicObjectWithPerceptionResult."

# spec table B1: row -> (est list, est value kind, lists receiving the ground truth)
B1 = {
    "no-gt": ("fp_object_results", "self", set()),
    "correct&fp-gt": ("fp_object_results", "rewrapped-without-gt", {"tn_objects", "non_candidates"}),  # (FP, TN)
    "correct&gt": ("tp_object_results", "self", {"non_candidates"}),  # (TP, TP)
    "wrong&fp-gt": ("fp_object_results", "self", {"non_candidates"}),  # (FP, FP)
    "wrong&gt": ("fp_object_results", "self", {"fn_objects", "non_candidates"}),  # (FP, FN)
}
STATUS = {
    "no-gt": ("FP", "None"),
    "correct&fp-gt": ("FP", "TN"),
    "correct&gt": ("TP", "TP"),
    "wrong&fp-gt": ("FP", "FP"),
    "wrong&gt": ("FP", "FN"),
}


def row_of(p: Path, res: str) -> Optional[str]:
    g = fact_where(p, lambda k: k == f"none:{res}.ground_truth_object")
    if g is None:
        g2 = fact_where(p, lambda k: k == f"truthy:{res}.ground_truth_object")
        g = None if g2 is None else (not g2)
    if g is None:
        return None
    if g:
        return "no-gt"
    c = fact_where(p, lambda k: k.startswith("call:") and f"{res}.is_result_correct(" in k)
    f = fact_where(p, lambda k: k == f"call:{res}.ground_truth_object.semantic_label.is_fp()")
    if c is None or f is None:
        return None
    return ("correct" if c else "wrong") + "&" + ("fp-gt" if f else "gt")


def rule_status(ctx: Ctx) -> None:
    fi = ctx.func(OR + "get_status")
    paths = enum_paths(ctx, fi)
    got: Dict[str, Tuple[str, str]] = {}
    for p in paths:
        r = row_of(p, "self")
        ctx.require(r is not None, f"get_status: path [{p.cond_text()}] is not over the atoms (no GT, is_result_correct, GT is FP-labelled)")
        rv = p.retval
        ctx.require(p.exit == ("return",) and isinstance(rv, ast.Tuple) and len(rv.elts) == 2, f"get_status: row {r} does not return a status pair")
        pair = tuple(S(x).replace("MatchingStatus.", "") for x in rv.elts)
        if r in got and got[r] != pair:
            ctx.violate("C03-status", "get_status", r, f"row {r} returns both {got[r]} and {pair}", fi=fi)
        got[r] = pair
    ctx.table_rows += len(got)
    for r, want in STATUS.items():
        ctx.require(r in got, f"get_status: row {r} not reachable")
        ctx.check(got[r] == want, "C03-status", "get_status", r, f"status of row {r} is {got[r]}, the accounting table needs {want}",
                  fi=fi, expected=str(want), found=str(got[r]), sample={"row": r, "status": got[r]})


def rule_correct(ctx: Ctx) -> None:
    """Truth table of is_result_correct."""
    fi = ctx.func(OR + "is_result_correct")
    paths = enum_paths(ctx, fi, bool_returns=True)
    n = 0
    thr = fi.params()[1].arg if len(fi.params()) > 1 else "matching_threshold"
    for p in paths:
        if p.exit != ("return",):
            ctx.violate("C03-correct", "is_result_correct", f"exit:{p.cond_text()[:50]}", f"is_result_correct does not return on [{p.cond_text()}]", fi=fi)
            continue
        val = bool(p.retval.value) if isinstance(p.retval, ast.Constant) else None
        f = {strip_v(k): v for k, v in p.facts.items()}
        atoms = {
            "gt_none": f.get("none:self.ground_truth_object"),
            "thr_none": f.get(f"none:{thr}"),
            "m_none": next((v for k, v in f.items() if k.startswith("none:self.get_matching(")), None),
            "better": next((v for k, v in f.items() if k.startswith("call:") and ".is_better_than(" in k), None),
            "is_fp": f.get("call:self.ground_truth_object.semantic_label.is_fp()"),
            "label": f.get("truthy:self.is_label_correct"),
        }
        known = {k for k in f if k.split(":", 1)[0] in ("none", "call", "truthy")}
        ctx.require(val is not None, f"is_result_correct: return value on [{p.cond_text()}] is not decided")

        def spec(a):
            if a["gt_none"]:
                return False
            if a["thr_none"] or a["m_none"]:
                return a["label"]
            if a["is_fp"]:
                return not a["better"]
            return a["better"] and a["label"]

        # every completion of the atoms the path did not look at must give the value the path returns
        free = [k for k, v in atoms.items() if v is None]
        bad = None
        for bits in range(1 << len(free)):
            a = dict(atoms)
            for i, k in enumerate(free):
                a[k] = bool(bits >> i & 1)
            if bool(spec(a)) != val:
                bad = a
                break
        n += 1
        ctx.check(bad is None, "C03-correct", "is_result_correct", p.cond_text()[:160].replace("self.", ""),
                  f"is_result_correct returns {val} on [{p.cond_text()}] but the definition gives {not val} when {bad} (TP needs a better-than-threshold score AND a compatible label; FP-labelled GT: correct iff NOT within threshold)",
                  fi=fi, expected=str(not val), found=str(val), sample={"path": p.cond_text()[:200], "value": val})
        # the matching consulted is the one of the requested mode
        for e in find_calls(p, "is_better_than"):
            ctx.check(S(e.recv) == "self.get_matching(matching_mode)" and len(e.args) == 1 and S(e.args[0]) == thr, "C03-correct", "is_result_correct", "threshold-arg",
                      f"threshold test is `{e.text}` – expected self.get_matching(matching_mode).is_better_than({thr})", fi=fi)
    ctx.require(n >= 6, f"is_result_correct: only {n} decided paths (minimum 6)")


def _thrlabel(ctx: Ctx, fi, p: Path, res: str, where: str) -> None:
    calls = [e for e in find_calls(p, "get_label_threshold")]
    for e in calls:
        a = e.kwargs.get("semantic_label") or (e.args[0] if e.args else None)
        if a is None:
            continue
        ok, src = label_ok(ctx, p, a, res)
        ctx.require(ok is not None, f"{where}: the label used for the threshold look-up (`{S(a)[:80]}`) is not recognised")
        ctx.check(ok, "R-THRLABEL", where, "matching-threshold",
                  f"{where}: the per-label matching threshold is looked up with `{U(a)}` ({src}); it must be the ground truth's label (falling back to the estimate's only without ground truth)",
                  fi=fi, node=e.node, expected=f"{res}.ground_truth_object.semantic_label", found=S(a))


def rule_positive(ctx: Ctx) -> None:
    fi = ctx.func(OF + "get_positive_objects")
    paths = enum_paths(ctx, fi, inline=["get_status"])
    lps = loops_of(paths)
    ctx.require(len(lps) == 1, f"get_positive_objects: expected one loop, found {len(lps)}")
    lp = lps[0]
    res = U(lp.node.target)
    ctx.require(S(lp.text) == "object_results", f"get_positive_objects iterates over `{lp.text}`, not over object_results")
    seen = set()
    for bp in lp.body:
        r = row_of(bp, res)
        ctx.require(r is not None, f"get_positive_objects: body path [{bp.cond_text()[:120]}] is not over the status atoms")
        seen.add(r)
        ap = [e for e in appends(bp) if e.recv in ("tp_object_results", "fp_object_results")]
        want_list, want_kind, _ = B1[r]
        inst = r
        if len(ap) != 1:
            ctx.violate("C03-positive", "get_positive_objects", inst,
                        f"row {r} {STATUS[r]}: the estimate is appended to {[e.recv for e in ap] or 'no list'} – it must be in exactly one of TP / FP", fi=fi,
                        expected=want_list, found=str([e.recv for e in ap]))
            continue
        e = ap[0]
        v = e.args[0] if e.args else None
        if S(v) == res:
            kind = "self"
        elif isinstance(v, ast.Call) and S(v.func) == "DynamicObjectWithPerceptionResult" and v.args and S(v.args[0]) == f"{res}.estimated_object" and (
            (len(v.args) > 1 and isinstance(v.args[1], ast.Constant) and v.args[1].value is None)
            or any(k.arg == "ground_truth_object" and isinstance(k.value, ast.Constant) and k.value.value is None for k in v.keywords)
        ):
            kind = "rewrapped-without-gt"
        else:
            kind = f"other:{S(v)}"
        ok = e.recv == want_list and kind == want_kind
        ctx.check(ok, "C03-positive", "get_positive_objects", inst,
                  f"row {r} {STATUS[r]}: estimate goes to {e.recv} as {kind}; the accounting table needs {want_list} / {want_kind}",
                  fi=fi, node=e.node, expected=f"{want_list}:{want_kind}", found=f"{e.recv}:{kind}", sample={"row": r, "list": e.recv, "value": kind})
        _thrlabel(ctx, fi, bp, res, "get_positive_objects")
    ctx.require(seen == set(B1), f"get_positive_objects: rows {sorted(set(B1) - seen)} not reachable in the loop body")
    # the function returns the two lists it filled
    for p in paths:
        rv = p.retval
        ok = isinstance(rv, ast.Tuple) and [S(x) for x in rv.elts] == ["tp_object_results", "fp_object_results"]
        ctx.check(ok, "C03-positive", "get_positive_objects", "return", f"returns `{U(rv)}` instead of (tp_object_results, fp_object_results)", fi=fi)


def rule_negative(ctx: Ctx) -> None:
    fi = ctx.func(OF + "get_negative_objects")
    paths = enum_paths(ctx, fi, inline=["get_status"])
    lps = loops_of(paths)
    ctx.require(len(lps) == 2, f"get_negative_objects: expected two loops, found {len(lps)}")
    first = [l for l in lps if S(l.text) == "object_results"]
    second = [l for l in lps if S(l.text) == "ground_truth_objects"]
    ctx.require(len(first) == 1 and len(second) == 1, "get_negative_objects: loops over object_results / ground_truth_objects not recognised")
    ctx.require(first[0].node.lineno < second[0].node.lineno, "get_negative_objects: the unmatched-GT loop must run after the result loop")
    lp = first[0]
    res = U(lp.node.target)
    seen = set()
    lists = ("tn_objects", "fn_objects", "non_candidates")
    for bp in lp.body:
        r = row_of(bp, res)
        ctx.require(r is not None, f"get_negative_objects: body path [{bp.cond_text()[:120]}] is not over the status atoms")
        seen.add(r)
        ap = [e for e in appends(bp) if e.recv in lists]
        got = {e.recv for e in ap}
        dup = len(ap) != len(got)
        want = B1[r][2]
        okv = all(e.args and S(e.args[0]) == f"{res}.ground_truth_object" for e in ap)
        ctx.check(got == want and not dup and okv, "C03-negative", "get_negative_objects", r,
                  f"row {r} {STATUS[r]}: the ground truth is appended to {sorted(e.recv for e in ap)}; the accounting table needs {sorted(want)} (each once, the result's own ground truth)",
                  fi=fi, expected=str(sorted(want)), found=str(sorted(e.recv for e in ap)), sample={"row": r, "lists": sorted(got)})
        _thrlabel(ctx, fi, bp, res, "get_negative_objects")
    ctx.require(seen == set(B1), f"get_negative_objects: rows {sorted(set(B1) - seen)} not reachable")
    # unmatched ground truths
    lp2 = second[0]
    gt = U(lp2.node.target)
    n = 0
    for bp in lp2.body:
        member = fact_where(bp, lambda k: k == f"in:{gt}innon_candidates".replace("in", " in ", 1) or k.replace(" ", "") == f"in:{gt}innon_candidates")
        isfp = fact_where(bp, lambda k: k == f"call:{gt}.semantic_label.is_fp()")
        ap = [e for e in appends(bp) if e.recv in lists]
        if member is None:
            ctx.violate("C03-unmatched", "get_negative_objects", "guard",
                        f"an unmatched-GT path [{bp.cond_text()[:80]}] is not guarded by membership in non_candidates: already accounted ground truths would be counted again", fi=fi)
            continue
        n += 1
        if member:
            ctx.check(not ap, "C03-unmatched", "get_negative_objects", "accounted", "a ground truth that is already accounted for is appended again", fi=fi)
        else:
            if isfp is None:
                ctx.violate("C03-unmatched", "get_negative_objects", "fp-label-ignored",
                            f"an unmatched ground truth is placed in {[e.recv for e in ap]} without looking at its false-positive label (FP-labelled -> TN, ordinary -> FN)", fi=fi)
                continue
            want = "tn_objects" if isfp else "fn_objects"
            ok = len(ap) == 1 and ap[0].recv == want and S(ap[0].args[0]) == gt
            ctx.check(ok, "C03-unmatched", "get_negative_objects", "fp-labelled" if isfp else "ordinary",
                      f"unmatched {'FP-labelled' if isfp else 'ordinary'} ground truth goes to {[e.recv for e in ap]}, must go to {want} exactly once",
                      fi=fi, expected=want, found=str([e.recv for e in ap]))
    ctx.require(n >= 3, "get_negative_objects: unmatched-GT decision table incomplete")
    for p in paths:
        rv = p.retval
        ok = isinstance(rv, ast.Tuple) and [S(x) for x in rv.elts] == ["tn_objects", "fn_objects"]
        ctx.check(ok, "C03-negative", "get_negative_objects", "return", f"returns `{U(rv)}` instead of (tn_objects, fn_objects)", fi=fi)


def rule_filter_both(ctx: Ctx) -> None:
    """filter_object_results: predicate on estimate and ground truth, same bounds, drop when either fails."""
    fi = ctx.func(OF + "filter_object_results")
    paths = enum_paths(ctx, fi)
    lps = loops_of(paths)
    ctx.require(len(lps) == 1, "filter_object_results: expected one loop")
    lp = lps[0]
    res = U(lp.node.target)
    calls = [e for bp in lp.body for e in bp.effects if e.kind in ("call", "ccall") and e.name == "_is_target_object"]
    by_node = {}
    for e in calls:
        by_node.setdefault(id(e.node), e)
    cs = list(by_node.values())
    est = [c for c in cs if S(c.kwargs.get("dynamic_object", c.args[0] if c.args else ast.Constant(value=None))) == f"{res}.estimated_object"]
    gt = [c for c in cs if S(c.kwargs.get("dynamic_object", c.args[0] if c.args else ast.Constant(value=None))) == f"{res}.ground_truth_object"]
    ctx.require(len(est) + len(gt) == len(cs) and len(est) <= 1 and len(gt) <= 1, "filter_object_results: predicate calls not recognised as one on the estimate and one on the ground truth")
    for side, found in (("estimate", est), ("ground truth", gt)):
        ctx.check(bool(found), "C03-filter-both", "filter_object_results", f"checks-{side.replace(' ', '-')}",
                  f"no reachable _is_target_object call checks the {side} of a result: a result is kept although its {side} fails the filter", fi=fi)
    if not est or not gt:
        return
    e, g = est[0], gt[0]
    ctx.check(S(e.kwargs.get("is_gt")) == "False" and S(g.kwargs.get("is_gt")) == "True", "C03-filter-both", "filter_object_results", "is_gt",
              f"is_gt flags are {S(e.kwargs.get('is_gt'))}/{S(g.kwargs.get('is_gt'))} for estimate/ground truth", fi=fi)
    shared = ["target_labels", "max_x_position_list", "max_y_position_list", "max_distance_list", "min_distance_list", "transforms"]
    for k in shared:
        a, b = e.kwargs.get(k), g.kwargs.get(k)
        ok = a is not None and b is not None and S(a) == S(b) == k
        ctx.check(ok, "C03-filter-both", "filter_object_results", k,
                  f"`{k}` reaches the estimate check as `{S(a) if a is not None else None}` and the ground-truth check as `{S(b) if b is not None else None}`; both must receive the caller's `{k}`",
                  fi=fi, expected=k, found=f"{S(a) if a is not None else None}/{S(b) if b is not None else None}")
    for k, side, c in (("confidence_threshold_list", "estimate", e), ("ignore_attributes", "ground truth", g), ("min_point_numbers", "ground truth", g), ("target_uuids", "ground truth", g)):
        a = c.kwargs.get(k)
        ctx.check(a is not None and S(a) == k, "C03-filter-both", "filter_object_results", k, f"`{k}` is not forwarded to the {side} check", fi=fi)
    # decision table of the loop body
    n = 0
    for bp in lp.body:
        E = fact_where(bp, lambda k: k.startswith("call:_is_target_object(") and f"{res}.estimated_object" in k)
        Gv = fact_where(bp, lambda k: k.startswith("call:_is_target_object(") and f"{res}.ground_truth_object" in k)
        has_gt = fact_where(bp, lambda k: k == f"truthy:{res}.ground_truth_object")
        ap = [a for a in appends(bp) if a.recv == "filtered_object_results"]
        n += 1
        if E is False or (has_gt and Gv is False):
            ctx.check(not ap, "C03-filter-both", "filter_object_results", f"drop:{'est' if E is False else 'gt'}-fails",
                      f"a result whose {'estimate' if E is False else 'ground truth'} fails the predicate is kept [{bp.cond_text()[:100]}]", fi=fi)
        elif E and has_gt and Gv:
            ok = len(ap) == 1 and S(ap[0].args[0]) == res
            ctx.check(ok, "C03-filter-both", "filter_object_results", "keep:both-pass", f"a result whose estimate and ground truth both pass is not kept exactly once as itself", fi=fi)
        gt_none = fact_where(bp, lambda k: k == f"none:{res}.ground_truth_object")
        if has_gt is False and gt_none is False:
            continue  # artefact: a ground truth that is not None but falsy (DynamicObject defines neither __bool__ nor __len__)
        if E and has_gt is False:
            uu = fact_where(bp, lambda k: S(k) == "truthy:target_uuids")
            ctx.check(Gv is None, "C03-filter-both", "filter_object_results", "no-gt:predicate-on-none", "the ground-truth predicate is evaluated for a result that has no ground truth", fi=fi)
            if uu is None:
                ctx.violate("C03-filter-both", "filter_object_results", "no-gt:uuid-selection-ignored",
                            f"a GT-less result whose estimate passes is {'kept' if ap else 'dropped'} without looking at target_uuids: with a uuid selection it must be dropped (it cannot be one of the selected ground truths), without one kept", fi=fi)
            else:
                ctx.check(bool(ap) == (not uu) and (not ap or (len(ap) == 1 and S(ap[0].args[0]) == res)), "C03-filter-both", "filter_object_results", f"no-gt:target_uuids={int(bool(uu))}",
                          f"a GT-less result whose estimate passes is {'kept' if ap else 'dropped'} with target_uuids {'given' if uu else 'absent'}; expected {'dropped' if uu else 'kept'}", fi=fi)
        if has_gt is None and E:
            ctx.violate("C03-filter-both", "filter_object_results", "gt-presence-untested", f"path [{bp.cond_text()[:100]}] decides without testing whether the result has a ground truth", fi=fi)
        if E is None:
            ctx.violate("C03-filter-both", "filter_object_results", "est-unchecked", f"path [{bp.cond_text()[:100]}] decides without checking the estimate", fi=fi)
        if E and has_gt and Gv is None:
            ctx.violate("C03-filter-both", "filter_object_results", "gt-unchecked", f"path [{bp.cond_text()[:100]}] keeps/drops a paired result without checking its ground truth", fi=fi)
    ctx.require(n >= 4, "filter_object_results: loop body decision table incomplete")


def rule_siblings(ctx: Ctx) -> None:
    """PassFailResult.evaluate: positive and negative side receive the same labels / mode / thresholds."""
    cq = "evaluation.result.perception_pass_fail_result.PassFailResult"
    ev = ctx.func(cq + ".evaluate")
    names = {"_PassFailResult__get_positive_object_results", "__get_positive_object_results"}
    paths = enum_paths(ctx, ev, inline=list(names))
    ctx.require(len(paths) >= 1, "PassFailResult.evaluate: no path")
    for p in paths:
        pos = find_calls(p, "get_positive_objects")
        neg = find_calls(p, "get_negative_objects")
        ctx.require(len(pos) == 1 and len(neg) == 1, f"PassFailResult.evaluate: positive/negative calls not found on a path (pos={len(pos)}, neg={len(neg)})")
        pe, ne = pos[0], neg[0]
        pf = ctx.index.func(OF + "get_positive_objects")
        nf = ctx.index.func(OF + "get_negative_objects")

        def bound(e, f):
            names_ = [a.arg for a in f.params()]
            d = {}
            for i, a in enumerate(e.args):
                if i < len(names_):
                    d[names_[i]] = a
            d.update(e.kwargs)
            return d

        bp, bn = bound(pe, pf), bound(ne, nf)
        for k in ("target_labels", "matching_mode", "matching_threshold_list", "object_results"):
            a, b = bp.get(k), bn.get(k)
            ok = a is not None and b is not None and S(a) == S(b)
            ctx.check(ok, "C03-siblings", "PassFailResult.evaluate", k,
                      f"get_positive_objects receives {k}=`{S(a) if a is not None else None}` but get_negative_objects receives `{S(b) if b is not None else None}`",
                      fi=ev, expected="same expression", found=f"{S(a) if a is not None else None} / {S(b) if b is not None else None}")
        gt = bn.get("ground_truth_objects")
        ctx.check(gt is not None and S(gt) == "ground_truth_objects", "C03-siblings", "PassFailResult.evaluate", "ground_truth_objects",
                  f"negative side receives `{S(gt) if gt is not None else None}` as ground truth instead of the method's parameter", fi=ev)
        st = {strip_v(e.recv): e for e in p.effects if e.kind == "store"}
        for attr in ("self.tp_object_results", "self.fp_object_results", "self.tn_objects", "self.fn_objects"):
            ctx.check(attr in st, "C03-siblings", "PassFailResult.evaluate", f"store:{attr}", f"{attr} is not assigned by evaluate", fi=ev)
        # stores line up: (tp, fp) <- positive ; (tn, fn) <- negative
        def src(attr):
            e = st.get(attr)
            return S(e.value) if e is not None else ""
        ok = "get_positive_objects(" in src("self.tp_object_results") or src("self.tp_object_results").endswith("[0]") or "tp_object_results" in src("self.tp_object_results")
        okn = "get_negative_objects(" in src("self.tn_objects") and src("self.tn_objects").endswith("[0]") and src("self.fn_objects").endswith("[1]")
        ctx.check(okn, "C03-siblings", "PassFailResult.evaluate", "tn-fn-order", f"(tn_objects, fn_objects) are not unpacked in that order from get_negative_objects: tn<-{src('self.tn_objects')[-40:]}, fn<-{src('self.fn_objects')[-40:]}", fi=ev)
        okp = src("self.tp_object_results").endswith("[0]") and src("self.fp_object_results").endswith("[1]")
        ctx.check(okp, "C03-siblings", "PassFailResult.evaluate", "tp-fp-order", f"(tp_object_results, fp_object_results) are not unpacked in that order: tp<-{src('self.tp_object_results')[-40:]}, fp<-{src('self.fp_object_results')[-40:]}", fi=ev)


def rule_critical(ctx: Ctx) -> None:
    """evaluate_frame: results and ground truth are narrowed with the same parameters and transforms, then evaluated."""
    fi = ctx.func("evaluation.result.perception_frame_result.PerceptionFrameResult.evaluate_frame")
    paths = enum_paths(ctx, fi)
    ctx.require(bool(paths), "evaluate_frame: no path")
    for p in paths[:1]:
        fr = find_calls(p, "filter_object_results")
        fo = find_calls(p, "filter_objects")
        ctx.require(len(fr) == 1 and len(fo) == 1, "evaluate_frame: critical filter calls not found")
        a, b = fr[0], fo[0]
        sa_, sb = a.kwargs.get("**"), b.kwargs.get("**")
        ctx.check(sa_ is not None and sb is not None and S(sa_) == S(sb), "C03-critical", "evaluate_frame", "same-params",
                  f"object results are filtered with **{S(sa_) if sa_ is not None else None} but ground truth with **{S(sb) if sb is not None else None}", fi=fi)
        ta, tb = a.kwargs.get("transforms"), b.kwargs.get("transforms")
        ctx.check(ta is not None and tb is not None and S(ta) == S(tb), "C03-critical", "evaluate_frame", "same-transforms",
                  f"object results are filtered with transforms={S(ta) if ta is not None else None}, ground truth with transforms={S(tb) if tb is not None else None}", fi=fi,
                  expected="the frame's transforms on both", found=f"{S(ta) if ta is not None else None} / {S(tb) if tb is not None else None}")
        ctx.check(S(b.kwargs.get("is_gt")) == "True", "C03-critical", "evaluate_frame", "is_gt", "ground truth is not filtered with is_gt=True", fi=fi)
        ctx.check(bool(a.args) and S(a.args[0]) == "self.object_results" or S(a.kwargs.get("object_results")) == "self.object_results", "C03-critical", "evaluate_frame", "results-in",
                  "the critical filter is not applied to self.object_results", fi=fi)
    # pass/fail is evaluated on the *filtered* lists on every path
    for p in paths:
        ev = [e for e in p.effects if e.kind == "call" and e.name == "evaluate" and S(e.recv) == "self.pass_fail_result"]
        ctx.require(len(ev) == 1, "evaluate_frame: pass_fail_result.evaluate(...) not called exactly once on a path")
        stores = {strip_v(e.recv): i for i, e in enumerate(p.effects) if e.kind == "store"}
        idx = p.effects.index(ev[0])
        args = [S(x) for x in ev[0].args] + [S(v) for v in ev[0].kwargs.values()]
        ok = args == ["self.object_results", "self.frame_ground_truth.objects"] and stores.get("self.object_results", 10**6) < idx and stores.get("self.frame_ground_truth.objects", 10**6) < idx
        ctx.check(ok, "C03-critical", "evaluate_frame", "evaluate-filtered", f"pass/fail is evaluated on {args}; it must be the filtered results and filtered ground truth", fi=fi)
        break


def rule_identity(ctx: Ctx) -> None:
    """Which ground truths are already paired is decided by list membership, i.e. DynamicObject.__eq__: two objects are the same iff time stamp, label,
    position and orientation are EXACTLY equal.  A tolerance (allclose / isclose / rounding) makes identity depend on coordinate magnitude, i.e. on the frame."""
    fi = ctx.func("common.object.DynamicObject.__eq__")
    other = fi.params()[0].arg if fi.params() else "other"
    FIELDS = ("unix_time", "semantic_label", "state.position", "state.orientation")
    want_atoms = {f"same:{other}.{f}==self.{f}" for f in FIELDS} | {f"same:self.{f}=={other}.{f}" for f in FIELDS}
    rows = 0
    for p in enum_paths(ctx, fi, bool_returns=True):
        f = {S(k): v for k, v in p.facts.items()}
        if f.get(f"none:{other}"):
            ctx.check(p.retval is not None and S(p.retval) == "False", "C03-identity", "DynamicObject.__eq__", "none", "an object equals None", fi=fi)
            continue
        odd = [k for k in f if k != f"none:{other}" and k not in want_atoms]
        if odd:
            tol = [k for k in odd if any(w in k for w in ("allclose", "isclose", "round(", "abs(", "approx", "norm(", "distance"))]
            ctx.check(False, "C03-identity", "DynamicObject.__eq__", "inexact" if tol else "other-test",
                      f"object identity is decided by `{(tol or odd)[0][:120]}`" + ("; a tolerance makes two distinct nearby ground truths equal (the relative part scales with the coordinates, so the answer depends on the frame) "
                      "and an unmatched ground truth next to a matched one is then never reported as FN" if tol else "; expected exact equality of time stamp, label, position and orientation"), fi=fi,
                      expected="==", found=(tol or odd)[0][:160])
            continue
        ctx.require(isinstance(p.retval, ast.Constant), "DynamicObject.__eq__: undecided return")
        got = bool(p.retval.value)
        seen = {fld: next((v for k, v in f.items() if k in (f"same:{other}.{fld}==self.{fld}", f"same:self.{fld}=={other}.{fld}")), None) for fld in FIELDS}
        if got:
            ctx.check(all(v is True for v in seen.values()), "C03-identity", "DynamicObject.__eq__", "equal-needs-all", f"objects are equal although only {[k for k, v in seen.items() if v]} were compared equal; all of {list(FIELDS)} must be", fi=fi)
        else:
            ctx.check(any(v is False for v in seen.values()), "C03-identity", "DynamicObject.__eq__", f"unequal:{sum(1 for v in seen.values() if v)}", "objects differ although every compared field is equal", fi=fi)
        rows += 1
    ctx.require(rows >= 5, f"DynamicObject.__eq__: only {rows} rows")


def run(ctx: Ctx) -> None:
    from rules import generic as _G
    ctx.run(_G.rule_arity, ("perception_eval.evaluation.result", "perception_eval.evaluation.matching", "perception_eval.manager"), "R-ARITY", 60)
    ctx.run(rule_status)
    ctx.run(rule_correct)
    ctx.run(rule_positive)
    ctx.run(rule_negative)
    ctx.run(rule_filter_both)
    ctx.run(rule_siblings)
    ctx.run(rule_critical)
    ctx.run(rule_identity)
    from rules import C10
    ctx.run(C10.rule_predicate)
    ctx.run(C10.rule_manager)  # 'nothing outside the critical region is counted' rests on the filter predicate's decision table
    scope = ("perception_eval.evaluation.result", "perception_eval.evaluation.matching", "perception_eval.manager") if ctx.tier == "quick" else G.full_scope(ctx)
    ctx.run(G.rule_kw, scope)
    ctx.run(G.rule_kw_splat, scope, min_sites=4)
    ctx.run(G.rule_tf, scope, min_sites=12)
