"""Matching-score formulas (C06) and the frame rule of PlaneDistanceMatching (C07)."""
from __future__ import annotations

import ast
import re
from typing import Dict, List, Optional, Tuple

from sa.formula import Formula, Unrecognised
from sa.paths import Path, U, strip_v
from sa.report import Ctx
from rules.common import appends, S, enum_paths, fact_where

OM = "evaluation.matching.object_matching."
E, G = "estimated_object", "ground_truth_object"


def _abbrev(text: str, table: List[Tuple[str, str]]) -> str:
    for pat, sym in table:
        text = text.replace(pat, sym)
    return text


def _parse(text: str) -> ast.expr:
    return ast.parse(text, mode="eval").body


def rule_iou(ctx: Ctx) -> None:
    # --- IoU 2D / BEV
    fi = ctx.func(OM + "IOU2dMatching._calculate_matching_score")
    paths = enum_paths(ctx, fi)
    n = 0
    for p in paths:
        if p.facts.get(f"none:{G}"):
            ctx.check(p.retval is not None and S(p.retval) in ("0.0", "0"), "C06-iou", "IOU2dMatching", "no-gt", f"IoU without ground truth must be 0.0 (found {S(p.retval)})", fi=fi)
            continue
        is3d = fact_where(p, lambda k: S(k) == f"isinstance:{E},DynamicObject")
        ctx.require(is3d is not None, "IOU2dMatching: dispatch on the object type not recognised")
        area = "get_area_bev" if is3d else "get_area"
        F = Formula(rename={f"{E}.{area}()": "Ae", f"{G}.{area}()": "Ag", f"_get_area_intersection({E},{G})": "I"})
        n += 1
        try:
            fx = F.parse(p.retval)
            ok = fx.equals(F.parse_text("I / (Ae + Ag - I)"))
        except Unrecognised as exc:
            ctx.require(False, f"IOU2dMatching: {exc}")
        extra = {s for s in fx.symbols() if s not in ("Ae", "Ag", "I")}
        ctx.require(not extra or not ok, f"IOU2dMatching: formula uses undeclared quantities {sorted(extra)}")
        ctx.check(ok, "C06-iou", "IOU2dMatching", f"formula:{'3d-object' if is3d else '2d-object'}",
                  f"IoU is `{S(p.retval)[:160]}`; definition: intersection / (area_est + area_gt - intersection) with {area}()", fi=fi,
                  expected="I / (A_est + A_gt - I)", found=S(p.retval)[:200], sample={"iou": "I/(Ae+Ag-I)", "area": area})
        # symmetric under exchanging the two objects
        G2 = Formula(rename={f"{E}.{area}()": "Ag", f"{G}.{area}()": "Ae", f"_get_area_intersection({E},{G})": "I"})
        ctx.check(ok and G2.parse(p.retval).equals(G2.parse_text("I / (Ae + Ag - I)")), "C06-iou", "IOU2dMatching", f"symmetric:{'3d' if is3d else '2d'}",
                  "the IoU formula is not symmetric in estimate and ground truth", fi=fi)
    ctx.require(n == 2, f"IOU2dMatching: {n} formula paths (expected 2: 3D footprint / 2D ROI)")
    # --- intersection area: footprint for 3D, ROI polygon for 2D, shapely intersection of the two
    fa = ctx.func(OM + "_get_area_intersection")
    for p in enum_paths(ctx, fa):
        is3d = fact_where(p, lambda k: S(k) == f"isinstance:{E},DynamicObject")
        poly = "get_footprint" if is3d else "get_polygon"
        want = {f"{E}.{poly}().intersection({G}.{poly}()).area", f"{G}.{poly}().intersection({E}.{poly}()).area"}
        ctx.check(p.retval is not None and S(p.retval) in want, "C06-iou", "_get_area_intersection", f"{'3d' if is3d else '2d'}",
                  f"intersection area is `{S(p.retval)[:120]}`; expected the area of the shapely intersection of the two {poly}() polygons", fi=fa, expected=sorted(want)[0], found=S(p.retval)[:160])
    # --- IoU 3D
    f3 = ctx.func(OM + "IOU3dMatching._calculate_matching_score")
    paths = enum_paths(ctx, f3, inline=["_get_volume_intersection", "_get_height_intersection", "get_volume"])
    m = 0
    for p in paths:
        if p.facts.get(f"none:{G}"):
            ctx.check(p.retval is not None and S(p.retval) in ("0.0", "0"), "C06-iou", "IOU3dMatching", "no-gt", "3D IoU without ground truth must be 0.0", fi=f3)
            continue
        ren = {
            f"{E}.get_area_bev()": "Ae", f"{G}.get_area_bev()": "Ag", f"_get_area_intersection({E},{G})": "I",
            f"{E}.state.position[2]": "ze", f"{G}.state.position[2]": "zg", f"{E}.state.size[2]": "he", f"{G}.state.size[2]": "hg",
        }
        F = Formula(rename=ren)
        m += 1
        spec = "I * max(0, min(ze + he/2, zg + hg/2) - max(ze - he/2, zg - hg/2)) / (Ae*he + Ag*hg - I * max(0, min(ze + he/2, zg + hg/2) - max(ze - he/2, zg - hg/2)))"
        try:
            fx = F.parse(p.retval)
            ok = fx.equals(F.parse_text(spec))
        except Unrecognised as exc:
            ctx.require(False, f"IOU3dMatching: {exc}")
        ctx.check(ok, "C06-iou", "IOU3dMatching", "formula",
                  f"3D IoU is `{_abbrev(S(p.retval), [(k, v) for k, v in ren.items()])[:220]}`; definition: V_i / (V_est + V_gt - V_i), V_i = area intersection * max(0, min(tops) - max(bottoms)), V = BEV area * height",
                  fi=f3, expected=spec, found=_abbrev(S(p.retval), list(ren.items()))[:260], sample={"iou3d": "Vi/(Ve+Vg-Vi)"})
        sw = {k.replace(E, "\0").replace(G, E).replace("\0", G): v for k, v in ren.items()}
        sw[f"_get_area_intersection({E},{G})"] = "I"
        F2 = Formula(rename=sw)
        ctx.check(ok and F2.parse(p.retval).equals(F2.parse_text(spec)), "C06-iou", "IOU3dMatching", "symmetric", "the 3D IoU formula is not symmetric in estimate and ground truth", fi=f3)
    ctx.require(m == 1, "IOU3dMatching: formula path not found")


def rule_center_distance(ctx: Ctx) -> None:
    fi = ctx.func(OM + "CenterDistanceMatching._calculate_matching_score")
    for p in enum_paths(ctx, fi):
        if p.facts.get(f"none:{G}"):
            ctx.check(p.retval is not None and S(p.retval) == "None", "C06-center", "CenterDistanceMatching", "no-gt", "center distance without ground truth must be None", fi=fi)
        else:
            ctx.check(p.retval is not None and S(p.retval) in (f"distance_objects({E},{G})", f"distance_objects({G},{E})"), "C06-center", "CenterDistanceMatching", "value",
                      f"center distance is `{S(p.retval)[:100]}`; expected distance_objects(estimate, ground truth)", fi=fi)
    fd = ctx.func("common.distance_objects")
    seen = set()
    for p in enum_paths(ctx, fd):
        same_t = fact_where(p, lambda k: S(k) in ("same:type(object_1)==type(object_2)", "same:type(object_2)==type(object_1)"))
        if same_t is not None:
            ctx.check((bool(p.exit) and p.exit[0] == "raise") == (not same_t), "C06-center", "distance_objects", f"rejects-iff-different-types:{int(bool(same_t))}",
                      "objects of " + ("the same type are rejected" if same_t else "different types are compared"), fi=fd)
        if p.exit and p.exit[0] == "raise":
            continue
        is3d = fact_where(p, lambda k: S(k) == "isinstance:object_1,DynamicObject")
        rv = S(p.retval) if p.retval is not None else ""
        if is3d:
            seen.add("3d")
            ok = rv in ("distance_points(object_1.state.position,object_2.state.position)", "distance_points(object_2.state.position,object_1.state.position)")
            ctx.check(ok, "C06-center", "distance_objects", "3d", f"3D center distance is `{rv[:120]}`; expected the distance between the two state.position", fi=fd)
        else:
            seen.add("2d")
            ok = rv in ("np.linalg.norm(np.array(object_1.roi.center)-np.array(object_2.roi.center))", "np.linalg.norm(np.array(object_2.roi.center)-np.array(object_1.roi.center))")
            ctx.check(ok, "C06-center", "distance_objects", "2d", f"2D center distance is `{rv[:120]}`; expected the norm of the difference of the ROI centers", fi=fd)
    ctx.require(seen == {"3d", "2d"}, "distance_objects: 3D / 2D branches not recognised")
    for fn, bev in (("distance_points", False), ("distance_points_bev", True)):
        fp = ctx.func("common.point." + fn)
        for p in enum_paths(ctx, fp):
            dims = [v for k, v in p.facts.items() if S(k) in ("eq:len(point_1)==3", "eq:len(point_2)==3")]
            raised = bool(p.exit) and p.exit[0] == "raise"
            if dims:
                ctx.check(raised == (not all(dims)), "C06-center", fn, f"rejects-iff-not-3d:{int(raised)}:{len(dims)}",
                          f"{fn} {'rejects' if raised else 'accepts'} points with 3-d tests {dims}; it must reject exactly the inputs that are not two 3-d points", fi=fp)
            if p.exit and p.exit[0] == "raise":
                continue
            rv = S(p.retval) if p.retval is not None else ""
            a, b = ("np.array(to_bev(point_1))", "np.array(to_bev(point_2))") if bev else ("np.array(point_1)", "np.array(point_2)")
            ok = rv in (f"np.linalg.norm({a}-{b},axis=0,ord=2).item()", f"np.linalg.norm({b}-{a},axis=0,ord=2).item()", f"np.linalg.norm({a}-{b}).item()")
            ctx.check(ok, "C06-center", fn, "norm", f"{fn} returns `{rv[:140]}`; expected the Euclidean norm of the difference", fi=fp)
    tb = ctx.func("common.point.to_bev")
    for p in enum_paths(ctx, tb):
        if p.exit and p.exit[0] == "raise":
            continue
        ctx.check(p.retval is not None and S(p.retval) == "point_1[:2]", "C06-center", "to_bev", "xy", f"to_bev returns `{S(p.retval)}`", fi=tb)


def plane_paths(ctx: Ctx):
    fi = ctx.func(OM + "PlaneDistanceMatching._calculate_matching_score")
    return fi, enum_paths(ctx, fi)


GF = f"np.array(polygon_to_list({G}.get_footprint()))"
EF = f"np.array(polygon_to_list({E}.get_footprint()))"
GD_RAW = f"np.linalg.norm({GF}[:,:2],axis=1)"
GD_TF = f"np.linalg.norm(np.array([transforms.transform(({G}.frame_id,FrameID.BASE_LINK),corner)forcornerin{GF}])[:,:2],axis=1)"


def rule_plane(ctx: Ctx, frame_only: bool = False) -> None:
    fi, paths = plane_paths(ctx)
    rows = set()
    for p in paths:
        if p.facts.get(f"none:{G}"):
            if not frame_only:
                ctx.check(p.retval is not None and S(p.retval) == "None", "C06-plane", "PlaneDistanceMatching", "no-gt", "plane distance without ground truth must be None", fi=fi)
            continue
        be = fact_where(p, lambda k: S(k) == f"eq:{E}.state.shape_type==ShapeType.BOUNDING_BOX")
        bg = fact_where(p, lambda k: S(k) == f"eq:{G}.state.shape_type==ShapeType.BOUNDING_BOX")
        if not (be and bg):
            if not frame_only:
                rv = S(p.retval) if p.retval is not None else ""
                ctx.check(rv in (f"distance_points_bev({E}.state.position,{G}.state.position)", f"distance_points_bev({G}.state.position,{E}.state.position)"), "C06-plane", "PlaneDistanceMatching",
                          f"non-box:{int(bool(be))}{int(bool(bg))}", f"for non-box shapes the score is `{rv[:100]}`; expected the BEV center distance", fi=fi)
            continue
        base = fact_where(p, lambda k: S(k) == f"eq:{G}.frame_id==FrameID.BASE_LINK")
        if base is None and p.retval is not None and f"np.argsort({GD_RAW})" in S(p.retval) and not any("frame_id" in k for k in p.facts):
            ctx.violate("R-FRAME", "PlaneDistanceMatching", "ranking-ignores-frame",
                        "the ground-truth corners are ranked by their raw coordinates whatever frame the object is in: for a map-frame object the 'nearest side' is the side nearest to the map origin, not to the ego",
                        fi=fi, expected="rank by BASE_LINK-transformed corners unless gt.frame_id == BASE_LINK", found=_rank_text(S(p.retval))[:200])
            rows |= {"ego", "tf", "raise"}
            continue
        ctx.require(base is not None, "PlaneDistanceMatching: the corner ranking does not dispatch on the ground truth's frame")
        tfn = p.facts.get("none:transforms")
        if not base and tfn is None:
            ctx.violate("R-FRAME", "PlaneDistanceMatching", "non-ego:transforms-unchecked", "corners of a non-ego ground truth are ranked without checking that transforms are given", fi=fi)
            continue
        if not base and tfn:
            rows.add("raise")
            ctx.check(bool(p.exit) and p.exit[0] == "raise", "R-FRAME", "PlaneDistanceMatching", "non-ego:no-transforms",
                      "a non-ego ground truth without transforms must be rejected; its map-frame corners would be ranked as if they were ego-relative", fi=fi)
            continue
        rows.add("ego" if base else "tf")
        ctx.require(p.exit == ("return",) and p.retval is not None, "PlaneDistanceMatching: box path does not return")
        t = S(p.retval)
        GD = GD_RAW if base else GD_TF
        pat = None
        if not base and f"np.argsort({GD})" not in t:
            # the same ranking with the transformed corners collected by an append loop instead of a comprehension
            for e in p.effects:
                if e.kind == "loop" and S(e.text) == GF:
                    cv = U(e.node.target)
                    for bp in e.body:
                        ap = appends(bp)
                        if len(ap) == 1 and not bp.conds and S(ap[0].args[0]) == f"transforms.transform(({G}.frame_id,FrameID.BASE_LINK),{cv})":
                            lst = ap[0].recv
                            pat = re.compile(r"np\.linalg\.norm\(np\.array\(" + re.escape(lst) + r"(@\d+)?\)\[:,:2\],axis=1\)")
                            t = pat.sub(GD_TF, strip_v(t) if False else t)
        has_rank = f"np.argsort({GD})" in t
        ctx.check(has_rank, "R-FRAME", "PlaneDistanceMatching", "ego-ranking" if base else "transformed-ranking",
                  f"the nearest side is chosen by `{_rank_text(t)[:200]}`; for {'an ego-frame' if base else 'a non-ego'} ground truth the corners must be ranked by their "
                  f"{'own' if base else 'BASE_LINK-transformed (key (gt.frame_id, BASE_LINK))'} BEV distance from the ego", fi=fi,
                  expected=f"np.argsort({GD})"[:200], found=_rank_text(t)[:240], sample={"branch": "ego" if base else "transformed"})
        if frame_only or not has_rank:
            continue
        table = [(f"np.argsort({GD})", "IDX"), (f"{EF}[IDX][:2].tolist()", "EP"), (f"{GF}[IDX][:2].tolist()", "GP"), ("get_point_left_right_index(GP[0],GP[1])", "LR")]
        a = _abbrev(t, table)
        spec = "round(sqrt(0.5 * (distance_points_bev(EP[LR[0]], GP[LR[0]])**2 + distance_points_bev(EP[LR[1]], GP[LR[1]])**2)), 10)"
        F = Formula()
        try:
            fx = F.parse(_parse(a))
            ok = fx.equals(F.parse_text(spec)) or fx.equals(F.parse_text(spec.replace("round(", "", 1)[: -len(", 10)")] if False else spec))
            ok2 = fx.equals(F.parse_text("sqrt(0.5 * (distance_points_bev(EP[LR[0]], GP[LR[0]])**2 + distance_points_bev(EP[LR[1]], GP[LR[1]])**2))"))
        except (Unrecognised, SyntaxError) as exc:
            if ("GP" not in a or "EP" not in a) and "transforms.transform(" in a:
                side = "ground truth" if "GP" not in a else "estimate"
                ctx.violate("R-FRAME", "PlaneDistanceMatching", "points-mixed-frames",
                            f"the {side}'s plane points entering the distance are transformed coordinates (`transforms.transform(...)` inside the point expression) while the other object's stay in its own frame: "
                            "the distance of identical boxes is no longer 0 for map-frame objects; only the RANKING may use ego-frame coordinates", fi=fi,
                            expected="distance between own-frame footprint corners EP[...] and GP[...]", found=a[:300])
                continue
            ctx.require(False, f"PlaneDistanceMatching: score expression not recognised ({exc}): {a[:200]}")
        ctx.check(ok or ok2, "C06-plane", "PlaneDistanceMatching", f"formula:{'ego' if base else 'tf'}",
                  f"plane distance is `{a[:260]}`; definition: sqrt(0.5 * (d_left^2 + d_right^2)) between the corresponding corners (same ranking IDX and same left/right indices for estimate and ground truth, the two nearest GT corners)",
                  fi=fi, expected=spec, found=a[:300], sample={"plane_distance": a[:160]})
        # the stored NN planes are the same corner pairs
        st = {strip_v(e.recv): _abbrev(pat.sub(GD_TF, S(e.value)) if pat is not None else S(e.value), table) for e in p.effects if e.kind == "store"}
        ctx.check(st.get("self.ground_truth_nn_plane") == "(GP[LR[0]],GP[LR[1]])" and st.get("self.estimated_nn_plane") == "(EP[LR[0]],EP[LR[1]])", "C06-plane", "PlaneDistanceMatching",
                  f"nn-planes:{'ego' if base else 'tf'}", f"stored NN planes are {st.get('self.ground_truth_nn_plane', '?')[:60]} / {st.get('self.estimated_nn_plane', '?')[:60]}", fi=fi)
    ctx.require({"ego", "tf"} <= rows, f"PlaneDistanceMatching: branches {sorted(rows)} – expected ego and transformed")
    ctx.check("raise" in rows, "R-FRAME", "PlaneDistanceMatching", "raise-row", "no path rejects a non-ego ground truth without transforms", fi=fi)


def _rank_text(t: str) -> str:
    i = t.find("np.argsort(")
    if i < 0:
        return "no np.argsort(...) ranking"
    depth = 0
    for j in range(i + len("np.argsort"), len(t)):
        if t[j] == "(":
            depth += 1
        elif t[j] == ")":
            depth -= 1
            if depth == 0:
                return t[i: j + 1]
    return t[i: i + 200]


def rule_value_none(ctx: Ctx) -> None:
    """MatchingMethod.__init__ stores the score of exactly the pair it was given."""
    fi = ctx.func(OM + "MatchingMethod.__init__")
    for p in enum_paths(ctx, fi):
        if p.exit and p.exit[0] == "raise":
            continue
        st = [e for e in p.effects if e.kind == "store" and strip_v(e.recv) == "self.value"]
        ctx.require(len(st) == 1, "MatchingMethod.__init__: self.value not stored exactly once")
        v = st[0].value
        ok = isinstance(v, ast.Call) and S(v.func) == "self._calculate_matching_score"
        if ok:
            kw = {k.arg: S(k.value) for k in v.keywords}
            pos = [S(a) for a in v.args]
            ok = kw.get("estimated_object", pos[0] if pos else None) == E and kw.get("ground_truth_object", pos[1] if len(pos) > 1 else None) == G and kw.get("transforms", pos[2] if len(pos) > 2 else None) == "transforms"
        ctx.check(ok, "C06-value", "MatchingMethod.__init__", f"value:{int(bool(p.facts.get('none:' + G)))}", f"self.value = `{S(v)[:140]}`; expected _calculate_matching_score(estimate, ground truth, transforms)", fi=fi)
