"""C14 – label names convert totally, case-insensitively and consistently with merging."""
from __future__ import annotations

import ast
import json
import os

from sa.paths import Enumerator, Options, U, strip_v
from sa.report import Ctx, VERIF_DIR
from sa.source import AnalysisError
from sa.tables import enum_members, extract_table

EXPLANATION = (
    "Decides (all quantifiers are finite – exhaustive): the four label tables (autoware merge off/on, traffic-light "
    "classification / other tasks) are extracted from the source for every value of their controlling parameter; "
    "laws checked per row: lower-case names (the lookups compare name.lower()), single-valuedness, canonical-name law "
    "(every label in a table's image is the image of its own value), merge law (merged == mu(unmerged), same names), "
    "agreement with the reviewed reference table, dispatch of LabelConverter.__init__ on the prefix, totality of "
    "convert_label / convert_name (no raising path, UNKNOWN fallback, lower-cased comparison) and set_target_lists using "
    "convert_name. Does not decide: behaviour of str.lower() on non-ASCII input, logging side effects."
)

LABEL = "common.label."
MU = {"TRUCK": "CAR", "BUS": "CAR", "MOTORBIKE": "BICYCLE"}
REF = os.path.join(VERIF_DIR, "spec", "labels_reference.json")


def const(v):
    return ast.Constant(value=v)


def member(cls, m):
    return ast.Attribute(value=ast.Name(id=cls, ctx=ast.Load()), attr=m, ctx=ast.Load())


def tables(ctx: Ctx):
    ix, rs = ctx.index, ctx.resolver
    aw = ctx.func(LABEL + "_get_autoware_pairs")
    tl = ctx.func(LABEL + "_get_traffic_light_paris")
    pa = [a.arg for a in aw.params()]
    pt = [a.arg for a in tl.params()]
    ctx.require(len(pa) == 1 and len(pt) == 1, "table builders no longer take exactly one controlling parameter")
    out = {}
    out["autoware/merge=False"] = ("AutowareLabel", extract_table(ix, rs, aw, {pa[0]: const(False)}), aw)
    out["autoware/merge=True"] = ("AutowareLabel", extract_table(ix, rs, aw, {pa[0]: const(True)}), aw)
    task = ctx.index.cls("common.evaluation_task.EvaluationTask")
    for m, v in enum_members(task):
        out[f"traffic_light/task={m}"] = ("TrafficLightLabel", extract_table(ix, rs, tl, {pt[0]: member("EvaluationTask", m)}), tl)
        # LabelConverter accepts the task as str or enum and may hand either spelling on
        if isinstance(v, str):
            out[f"traffic_light/task={v!r}"] = ("TrafficLightLabel", extract_table(ix, rs, tl, {pt[0]: const(v)}), tl)
    return out


def rule_tables(ctx: Ctx) -> None:
    tabs = tables(ctx)
    ref = json.load(open(REF))
    enums = {
        "AutowareLabel": dict(enum_members(ctx.index.cls(LABEL + "AutowareLabel"))),
        "TrafficLightLabel": dict(enum_members(ctx.index.cls(LABEL + "TrafficLightLabel"))),
    }
    total_rows = 0
    for tname, (ecls, rows, fi) in tabs.items():
        ctx.table_rows += len(rows)
        total_rows += len(rows)
        members = enums[ecls]
        names = {}
        refkey = tname if tname.startswith("autoware") else ("traffic_light/classification" if tname.endswith(("CLASSIFICATION2D", "'classification2d'")) else "traffic_light/other")
        reft = ref.get(refkey, {})
        for cls, mem, name, line in rows:
            node = type("N", (), {"lineno": line})()
            inst = f"{tname}:{name}"
            # law 0: label is a member of the converter's label type
            ctx.check(cls == ecls and mem in members, "C14-member", fi.name, inst,
                      f"table entry ({cls}.{mem}, {name!r}) is not a member of {ecls}", fi=fi, node=node)
            # law 1: the lookups lower-case the query, so a table name must be its own lower()
            ctx.check(name == name.lower(), "C14-lowercase", fi.name, inst,
                      f"registered name {name!r} is not lower-case: `name.lower() == {name!r}` can never hold, the name is unreachable",
                      fi=fi, node=node, expected=name.lower(), found=name)
            # law 2: single-valuedness
            if name in names and names[name] != mem:
                ctx.violate("C14-single-valued", fi.name, inst,
                            f"name {name!r} is registered for both {names[name]} and {mem}: convert_label (first match) and convert_name (last match) disagree",
                            fi=fi, node=node)
            else:
                ctx.ok("C14-single-valued", fi.name, inst)
            names.setdefault(name, mem)
            # law 5: reference table
            if name in reft:
                ctx.check(reft[name] == mem, "C14-reference", fi.name, inst,
                          f"name {name!r} maps to {mem} but the documented/reviewed label is {reft[name]}",
                          fi=fi, node=node, expected=reft[name], found=mem)
            else:
                ctx.info(f"C14: new name {name!r} -> {mem} in {tname} (not in the reference table)")
        for name, mem in reft.items():
            ctx.check(name in names, "C14-reference-present", fi.name, f"{tname}:{name}",
                      f"documented name {name!r} (-> {mem}) is no longer registered in {tname}", fi=fi)
        # law 3: canonical-name law
        for mem in sorted(set(names.values())):
            val = members.get(mem)
            inst = f"{tname}:{mem}"
            ok = isinstance(val, str) and names.get(val) == mem
            ctx.check(ok, "C14-canonical", fi.name, inst,
                      f"label {mem} is produced by {tname} but its own canonical name {val!r} maps to {names.get(val, 'nothing (-> UNKNOWN)') if isinstance(val, str) else '?'}",
                      fi=fi, expected=f"{val!r} -> {mem}", found=f"{val!r} -> {names.get(val) if isinstance(val, str) else None}",
                      sample={"label": mem, "canonical": val})
        ctx.check("UNKNOWN" in members, "C14-fallback-member", ecls, "UNKNOWN", f"{ecls} has no UNKNOWN member for the fallback")
    # law 4: merge law
    un = {n: m for _, m, n, _ in tabs["autoware/merge=False"][1]}
    me = {n: m for _, m, n, _ in tabs["autoware/merge=True"][1]}
    fi = tabs["autoware/merge=True"][2]
    for n in sorted(set(un) | set(me)):
        if n not in un or n not in me:
            ctx.violate("C14-merge", fi.name, n, f"name {n!r} is registered only {'without' if n in un else 'with'} merging", fi=fi)
            continue
        want = MU.get(un[n], un[n])
        ctx.check(me[n] == want, "C14-merge", fi.name, n,
                  f"with merging {n!r} -> {me[n]}, but merging the unmerged result {un[n]} gives {want}",
                  fi=fi, expected=want, found=me[n], sample={"name": n, "unmerged": un[n], "merged": me[n]})
    # both spellings of the task select the same table
    task = ctx.index.cls("common.evaluation_task.EvaluationTask")
    for m, v in enum_members(task):
        a = tabs.get(f"traffic_light/task={m}")
        b = tabs.get(f"traffic_light/task={v!r}")
        if a is None or b is None:
            continue
        ra = [(x[1], x[2]) for x in a[1]]
        rb = [(x[1], x[2]) for x in b[1]]
        ctx.check(ra == rb, "C14-task-spelling", a[2].name, m,
                  f"the traffic-light table selected for the task given as the string {v!r} differs from the one for EvaluationTask.{m}: LabelConverter hands its str-or-enum argument on, "
                  f"so the table must be selected with a str-aware `==`, not with `is`", fi=a[2], expected=f"{len(ra)} rows as for the member", found=f"{len(rb)} rows, first difference {next((y for x, y in zip(ra, rb) if x != y), None)}")
    ctx.require(total_rows >= 300, f"only {total_rows} table rows extracted (hand-confirmed minimum 300 over 11 tables)")
    ctx.exhaustive = True


def rule_converter(ctx: Ctx) -> None:
    """convert_label / convert_name: lower-cased comparison, no raising path, UNKNOWN fallback."""
    for fname in ("convert_label", "convert_name"):
        fi = ctx.func(LABEL + "LabelConverter." + fname)
        from rules.common import enum_paths as _ep0
        paths = _ep0(ctx, fi)  # helpers that do not exist in the reference tree are inlined
        rk = f"C14-total:{fname}"
        raising = [p for p in paths if p.exit and p.exit[0] == "raise"]
        ctx.check(not raising, "C14-total", fname, "no-raise", f"{fname} has a raising path ({raising[0].exit[1] if raising else ''}): conversion must never fail", fi=fi)
        # the loop's match test
        loops = [e for p in paths for e in p.effects if e.kind == "loop"]
        ctx.require(bool(loops), f"{fname}: lookup loop not found")
        keys = {k for lp in loops for bp in (lp.body or []) for k, _ in bp.conds}
        match = [k for k in keys if k.startswith("same:") and "name" in k]
        ctx.require(bool(match), f"{fname}: no name comparison recognised in the lookup loop (tests: {sorted(keys)})")
        for k in match:
            sides = strip_v(k[len("same:"):]).split("==")
            low = any(s.strip().endswith(".lower()") for s in sides)
            tbl = any(s.strip().endswith(".name") for s in sides)
            ctx.check(low and tbl, "C14-case", fname, "compare", f"lookup compares {k[5:]} – expected `<query>.lower() == <table entry>.name`",
                      fi=fi, expected="name.lower() == label_info.name", found=k[5:])
        # implicit raises: `d[k] += v` / `d[k]` on a plain dict attribute raises KeyError for a key that was never stored
        ini = ctx.func(LABEL + "LabelConverter.__init__")
        plain_dicts = set()
        for nd in ast.walk(ini.node):
            tgt = val = None
            if isinstance(nd, ast.Assign) and len(nd.targets) == 1:
                tgt, val = nd.targets[0], nd.value
            elif isinstance(nd, ast.AnnAssign) and nd.value is not None:
                tgt, val = nd.target, nd.value
            if isinstance(tgt, ast.Attribute) and isinstance(tgt.value, ast.Name) and tgt.value.id == "self" and val is not None and strip_v(U(val)).replace(" ", "") in ("{}", "dict()"):
                plain_dicts.add(tgt.attr)
        for nd in ast.walk(fi.node):
            sub = None
            if isinstance(nd, ast.AugAssign) and isinstance(nd.target, ast.Subscript):
                sub = nd.target
            if sub is not None and isinstance(sub.value, ast.Attribute) and isinstance(sub.value.value, ast.Name) and sub.value.value.id == "self" and sub.value.attr in plain_dicts:
                key = U(sub.slice)
                guarded = False
                par = nd
                from sa.source import PARENTS
                cur = PARENTS.get(id(nd)) if hasattr(PARENTS, "get") else None
                while cur is not None and cur is not fi.node:
                    if isinstance(cur, ast.If) and f"{key} in self.{sub.value.attr}" in U(cur.test):
                        guarded = True
                    cur = PARENTS.get(id(cur))
                ctx.check(guarded, "C14-total", fname, f"keyerror:{sub.value.attr}", f"{fname} updates `self.{sub.value.attr}[{key}]` in place although `self.{sub.value.attr}` starts as an empty dict and nothing guarantees the key: "
                          "KeyError for a name seen for the first time - conversion must never fail (unregistered names map to unknown)", fi=fi, expected=f"self.{sub.value.attr}.get({key}, 0) + 1 / a guard", found=U(nd)[:100])
        # decision structure: a table entry whose name matches yields ITS label; a non-matching entry changes nothing; UNKNOWN iff nothing matched.
        # Written either with a result variable that is tested after the loop or with an early return inside the loop - the variable's name is irrelevant.
        from rules.common import enum_paths as _ep
        fallback = "Label(self.label_type.UNKNOWN,name,attributes)" if fname == "convert_label" else "self.label_type.UNKNOWN"
        for p in _ep(ctx, fi):
            lps = [e for e in p.effects if e.kind == "loop"]
            if len(lps) != 1:
                continue
            ent = U(lps[0].node.target)
            want_hit = f"Label({ent}.label,name,attributes)" if fname == "convert_label" else f"{ent}.label"
            result_vars = set()
            for bp in lps[0].body:
                hit = next((v for k, v in bp.conds if strip_v(k).replace(" ", "") in (f"same:{ent}.name==name.lower()", f"same:name.lower()=={ent}.name")), None)
                if hit is None:
                    continue
                assigned = {k: strip_v(U(v)).replace(" ", "") for k, v in bp.env.items() if k not in lps[0].pre or U(lps[0].pre[k]) != U(v)}
                assigned = {k: v for k, v in assigned.items() if v == want_hit or "label" in v.lower() or v == "None"}
                returned = strip_v(U(bp.retval)).replace(" ", "") if bp.exit and bp.exit[0] == "return" and bp.retval is not None else None
                if hit:
                    vs = [k for k, v in assigned.items() if v == want_hit]
                    if returned is None:
                        result_vars |= set(vs)
                    ok_hit = bool(vs) or returned == want_hit
                    ctx.check(ok_hit and (returned in (None, want_hit)), "C14-case", fname, "hit", f"{fname}: for a table entry whose name equals the lower-cased query the result becomes {assigned or returned}; expected `{want_hit}`", fi=fi, expected=want_hit, found=str(assigned or returned))
                else:
                    ctx.check(not assigned and returned is None, "C14-case", fname, "miss", f"{fname}: a table entry whose name does NOT match sets / returns {assigned or returned}", fi=fi, expected="unchanged", found=str(assigned or returned))
            if p.exit and p.exit[0] == "return" and any(str(c[0]).startswith("loop-exit:") for c in p.conds if isinstance(c, tuple)):
                continue  # the early return from inside the loop, checked above
            rv = strip_v(U(p.retval)).replace(" ", "") if p.retval is not None else None
            nones = {strip_v(k).replace(" ", "")[5:]: v for k, v in p.conds if strip_v(k).startswith("none:")}
            if result_vars:
                v = sorted(result_vars)[0]
                none_after = nones.get(v)
                ctx.require(none_after is not None, f"{fname}: the `nothing matched` test ({v} is None) was not recognised")
                want_rv = fallback if none_after else v
            else:
                none_after = True
                want_rv = fallback  # early-return style: whatever reaches the end of the loop matched nothing
            ctx.check(rv == want_rv, "C14-fallback", fname, f"after-loop:none={int(bool(none_after))}", f"{fname}: when {'nothing' if none_after else 'an entry'} matched the function returns `{rv}`; expected `{want_rv}`", fi=fi,
                      expected=want_rv, found=str(rv))
        # every non-raising exit returns either a table label or the UNKNOWN fallback
        fb = False
        for p in paths:
            for e in p.effects:
                if e.kind == "assign" or e.kind == "call":
                    pass
            txt = " ".join(U(e.value) for e in p.effects if e.value is not None) + " " + (U(p.retval) if p.retval is not None else "") + " ".join(U(v) for v in p.env.values())
            if "label_type.UNKNOWN" in strip_v(txt):
                fb = True
        # fallback is assigned under `return_label is None`
        src = ast.get_source_segment(fi.module.text, fi.node) or ""
        ctx.check(fb, "C14-fallback", fname, "UNKNOWN", f"{fname}: no path falls back to `self.label_type.UNKNOWN`", fi=fi)
        for p in paths:
            if p.exit == ("return",):
                ctx.check(p.retval is not None and not (isinstance(p.retval, ast.Constant) and p.retval.value is None), "C14-total", fname,
                          f"returns:{len(p.conds)}:{p.cond_text()[:60]}", f"{fname} can return None on the path [{p.cond_text()}]", fi=fi)


def rule_dispatch(ctx: Ctx) -> None:
    """LabelConverter.__init__ picks (label_type, table) by the prefix; set_target_lists resolves with convert_name."""
    fi = ctx.func(LABEL + "LabelConverter.__init__")
    en = Enumerator(ctx.index, ctx.resolver, Options())
    paths = en.function(fi)
    ctx.paths_enumerated += len(paths)
    want = {"'autoware'": ("AutowareLabel", "_get_autoware_pairs"), "'traffic_light'": ("TrafficLightLabel", "_get_traffic_light_paris")}
    seen = set()
    for p in paths:
        pref = [k for k, v in p.conds if v and k.startswith("eq:label_prefix==")]
        if not pref or p.exit and p.exit[0] == "raise":
            continue
        key = pref[0].split("==", 1)[1]
        if key not in want:
            continue
        seen.add(key)
        lt = [U(e.value) for e in p.effects if e.kind == "store" and e.recv == "self.label_type"]
        calls = [e for e in p.effects if e.kind == "call" and e.name.startswith("_get_")]
        okc = lt == [want[key][0]] and [c.name for c in calls] == [want[key][1]]
        ctx.check(okc, "C14-dispatch", "LabelConverter.__init__", key,
                  f"prefix {key}: label_type={lt}, table={[c.name for c in calls]}; expected {want[key]}", fi=fi)
        if calls and key == "'autoware'":
            a = calls[0].args + list(calls[0].kwargs.values())
            ctx.check(len(a) == 1 and strip_v(U(a[0])) == "merge_similar_labels", "C14-dispatch", "LabelConverter.__init__", "merge-arg",
                      f"autoware table built with {[U(x) for x in a]} instead of merge_similar_labels", fi=fi)
        if calls and key == "'traffic_light'":
            a = calls[0].args + list(calls[0].kwargs.values())
            ctx.check(len(a) == 1 and strip_v(U(a[0])).endswith("evaluation_task"), "C14-dispatch", "LabelConverter.__init__", "task-arg",
                      f"traffic-light table built with {[U(x) for x in a]} instead of the evaluation task", fi=fi)
    if seen != set(want):
        # a supported prefix whose branch raises / a branch taken for the wrong prefix
        for p in paths:
            pref = [k.split("==", 1)[1] for k, v in p.conds if v and k.startswith("eq:label_prefix==")]
            if pref and pref[0] in want and p.exit and p.exit[0] == "raise":
                ctx.violate("C14-dispatch", "LabelConverter.__init__", f"{pref[0]}:rejected", f"the supported label prefix {pref[0]} raises {p.exit[1]}", fi=fi)
                seen.add(pref[0])
            neg = [k.split("==", 1)[1] for k, v in p.conds if (not v) and k.startswith("eq:label_prefix==")]
            tbl = [e.name for e in p.effects if e.kind == "call" and e.name.startswith("_get_")]
            for key in neg:
                if key in want and tbl == [want[key][1]] and not pref:
                    ctx.violate("C14-dispatch", "LabelConverter.__init__", f"{key}:inverted", f"the table {tbl[0]} of prefix {key} is selected when the prefix is NOT {key}", fi=fi)
                    seen.add(key)
    ctx.require(seen == set(want), f"LabelConverter.__init__: prefix dispatch not recognised (saw {sorted(seen)})")
    # the table rows are (label, name) pairs and LabelInfo(label, name) keeps them that way round
    infos = [n for n in ast.walk(fi.node) if isinstance(n, ast.ListComp) and isinstance(n.elt, ast.Call) and U(n.elt.func) == "LabelInfo"]
    ctx.require(len(infos) == 1 and len(infos[0].generators) == 1, "LabelConverter.__init__: construction of label_infos not recognised")
    g = infos[0].generators[0]
    tnames = [U(x) for x in g.target.elts] if isinstance(g.target, ast.Tuple) else []
    cargs = [U(a) for a in infos[0].elt.args] + [f"{k.arg}={U(k.value)}" for k in infos[0].elt.keywords]
    ok_info = len(tnames) == 2 and (cargs == tnames or sorted(cargs) == sorted([f"label={tnames[0]}", f"name={tnames[1]}"])) and strip_v(U(g.iter)) == "pair_list" and not g.ifs
    ctx.check(ok_info, "C14-dispatch", "LabelConverter.__init__", "label-infos", f"label_infos = [LabelInfo({', '.join(cargs)}) for {', '.join(tnames)} in {U(g.iter)}{' if ...' if g.ifs else ''}]; "
              "every (label, name) pair of the table must become LabelInfo(label, name)", fi=fi, expected="[LabelInfo(label, name) for label, name in pair_list]", found=U(infos[0])[:160])
    # every unknown prefix raises
    for p in paths:
        if all(not (k.startswith("eq:label_prefix==") and v) for k, v in p.conds) and any(k.startswith("eq:label_prefix==") for k, _ in p.conds):
            ctx.check(bool(p.exit) and p.exit[0] == "raise", "C14-dispatch", "LabelConverter.__init__", "unknown-prefix",
                      "an unknown label prefix does not raise", fi=fi)
    st = ctx.func(LABEL + "set_target_lists")
    paths = Enumerator(ctx.index, ctx.resolver, Options()).function(st)
    ctx.paths_enumerated += len(paths)
    for p in paths:
        rv = strip_v(U(p.retval)) if p.retval is not None else ""
        cdt = {strip_v(k).replace(" ", ""): v for k, v in p.conds}
        N = cdt.get("none:target_labels")
        E = cdt.get("eq:len(target_labels)==0")
        if E is None and cdt.get("truthy:target_labels") is not None:
            E = not cdt.get("truthy:target_labels")
            if N is None:
                N = E  # `not target_labels` covers both
        # what is returned: all labels of the converter's family, or the named labels resolved one by one with convert_name, in order
        lps2 = [e for e in p.effects if e.kind == "loop"]
        maps_names = False
        if lps2 and strip_v(lps2[0].text if isinstance(lps2[0].text, str) else U(lps2[0].text)).replace(" ", "") == "target_labels":
            tv = U(lps2[0].node.target)
            maps_names = all([(a.recv, strip_v(U(a.args[0])).replace(" ", "")) for a in __import__("rules.common", fromlist=["appends"]).appends(bp)] == [(strip_v(rv), f"label_converter.convert_name({tv})")] and not bp.conds for bp in lps2[0].body)
        rvt = rv.replace(" ", "")
        is_all = rvt in ("[labelforlabelinlabel_converter.label_type]", "list(label_converter.label_type)") or (rvt.startswith("[") and rvt.endswith("inlabel_converter.label_type]") and "convert_" not in rvt and "if" not in rvt.split("for", 1)[1])
        is_map = maps_names or (rvt.startswith("[label_converter.convert_name(") and rvt.endswith("intarget_labels]") and "if" not in rvt.split("for", 1)[1])
        if p.exit == ("return",):
            ctx.check(is_all or is_map, "C14-targets", "set_target_lists", "mapping" if not is_all else f"default:{p.cond_text()[:50]}",
                      f"set_target_lists returns `{rv[:100]}`; expected either every label of the converter's family or label_converter.convert_name(name) for every given name, in order", fi=st)
            out_all = is_all
            for n_ in ([N] if N is not None else [True, False]):
                for e_ in ([E] if E is not None else ([False] if n_ else [True, False])):
                    want_all = bool(n_ or e_)
                    ctx.check(out_all == want_all, "C14-targets", "set_target_lists", f"all-iff-absent:none={int(bool(n_))},empty={int(bool(e_))}",
                              f"with target names {'None' if n_ else 'empty' if e_ else 'given'} the function returns `{rv[:80]}`; all labels exactly when no name is given, otherwise the named ones", fi=st)
    ctx.min_instances("C14-targets", 2)


def run(ctx: Ctx) -> None:
    ctx.run(rule_tables)
    ctx.run(rule_converter)
    ctx.run(rule_dispatch)
