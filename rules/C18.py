"""C18 – coordinate transforms compose and invert consistently."""
from __future__ import annotations

import ast
import re
from typing import Dict, List, Optional

from sa.effects import Effects
from sa.paths import Path, U, strip_v
from sa.report import Ctx
from rules.common import S, enum_paths, fact_where

EXPLANATION = (
    "Decides: (1) the frame-label algebra as a type check – with M : src -> dst, dot(self, other) multiplies self.matrix . other.matrix, "
    "is guarded by self.src != other.dst -> raise and labels the result src=other.src, dst=self.dst; inv labels src=self.dst, "
    "dst=self.src on np.linalg.inv(self.matrix); transforming a matrix m is m.dot(self); position / pose transforms left-multiply the "
    "homogeneous matrix built from exactly the given position (and rotation, identity for a bare position) by self.matrix and return the "
    "extracted position (and rotation); HomogeneousMatrix.transform dispatches 1 / 2 positional or keyword arguments to those three; "
    "(2) the registry decision table of TransformDict.transform over (X == Y, X->Y registered, Y->X registered): identity -> the "
    "argument(s) unchanged; direct -> that matrix; only the inverse -> registered.inv(); neither -> KeyError; the registry is not mutated "
    "by a lookup (mutation summaries); (3) key spelling – every accessor that takes a key (get, __getitem__, __setitem__, __delitem__, "
    "transform) uses a TransformKey argument as is and wraps anything else with load_key(src, dst) = TransformKey(src, dst) before touching "
    "the table; TransformKey normalises str through FrameID.from_value, hashes (src, dst), compares equal to keys and 2-sequences "
    "member-wise; FrameID hashes its value; the table is built with TransformKey(mat.src, mat.dst). Does not decide: the numeric group "
    "laws (numpy / pyquaternion)."
)

T = "common.transform."
HM = T + "HomogeneousMatrix."
EXTRACT = "self.__extract_position_and_rotation_from_matrix"
GEN = "self.__generate_homogeneous_matrix"


def _mm(a: str, b: str) -> List[str]:
    return [f"{a}.dot({b})", f"{a}@{b}", f"np.dot({a},{b})", f"np.matmul({a},{b})"]


def rule_algebra(ctx: Ctx) -> None:
    fi = ctx.func(HM + "dot")
    rows = set()
    for p in enum_paths(ctx, fi):
        mism = fact_where(p, lambda k: S(k) in ("same:other.dst==self.src", "same:self.src==other.dst"))
        if mism is None:
            ctx.violate("C18-algebra", "HomogeneousMatrix.dot", "frame-guard", "dot() composes two transforms without checking that self.src == other.dst: A->B composed with C->D would be accepted and mislabelled", fi=fi)
            continue
        if not mism:
            rows.add("raise")
            ctx.check(bool(p.exit) and p.exit[0] == "raise", "C18-algebra", "HomogeneousMatrix.dot", "mismatch-raises", "composition with mismatched frames (self.src != other.dst) is not rejected", fi=fi)
            continue
        rows.add("ok")
        rv = p.retval
        if p.exit and p.exit[0] == "raise":
            ctx.violate("C18-algebra", "HomogeneousMatrix.dot", "match-raises", "composition with MATCHING frames (self.src == other.dst) is rejected", fi=fi)
            continue
        ctx.require(isinstance(rv, ast.Call) and S(rv.func) in ("HomogeneousMatrix", "cls", "type(self)"), f"dot: returns `{S(rv)[:80] if rv is not None else None}`")
        kw = {k.arg: S(k.value) for k in rv.keywords}
        pos = [S(a) for a in rv.args]
        src, dst = kw.get("src", pos[2] if len(pos) > 2 else None), kw.get("dst", pos[3] if len(pos) > 3 else None)
        ctx.check(src == "other.src" and dst == "self.dst", "C18-algebra", "HomogeneousMatrix.dot", "labels",
                  f"self.dot(other) is labelled src={src}, dst={dst}; with self: B->C and other: A->B the product maps A->C, i.e. src=other.src, dst=self.dst", fi=fi,
                  expected="src=other.src, dst=self.dst", found=f"src={src}, dst={dst}", sample={"dot": "src=other.src, dst=self.dst"})
        prod = _mm("self.matrix", "other.matrix")
        okm = any(pos[0] == f"{EXTRACT}({m})[0]" and pos[1] == f"{EXTRACT}({m})[1]" for m in prod) if len(pos) >= 2 else False
        ctx.check(okm, "C18-algebra", "HomogeneousMatrix.dot", "product",
                  f"the product is built from `{pos[0][:120] if pos else None}`; it must be (position, rotation) of self.matrix . other.matrix (apply `other` first, then `self`)", fi=fi,
                  expected=f"{EXTRACT}(self.matrix.dot(other.matrix))", found=pos[0][:160] if pos else "")
    ctx.require(rows == {"raise", "ok"} or "ok" in rows, "HomogeneousMatrix.dot: paths not recognised")
    # inverse
    fi = ctx.func(HM + "inv")
    inv_paths = [p for p in enum_paths(ctx, fi) if not (p.exit and p.exit[0] == "raise" and p.exit[1:] == ("AssertionError",))]  # a defensive assertion adds a raising path
    ctx.require(bool(inv_paths), "inv: no returning path")
    for p in inv_paths:
        rv = p.retval
        ctx.require(isinstance(rv, ast.Call), "inv: does not return a matrix")
        kw = {k.arg: S(k.value) for k in rv.keywords}
        pos = [S(a) for a in rv.args]
        src, dst = kw.get("src", pos[2] if len(pos) > 2 else None), kw.get("dst", pos[3] if len(pos) > 3 else None)
        ctx.check(src == "self.dst" and dst == "self.src", "C18-algebra", "HomogeneousMatrix.inv", "labels", f"the inverse is labelled src={src}, dst={dst}; it must be src=self.dst, dst=self.src", fi=fi,
                  expected="src=self.dst, dst=self.src", found=f"src={src}, dst={dst}")
        inv = "np.linalg.inv(self.matrix)"
        ctx.check(len(pos) >= 2 and pos[0] == f"{EXTRACT}({inv})[0]" and pos[1] == f"{EXTRACT}({inv})[1]", "C18-algebra", "HomogeneousMatrix.inv", "matrix",
                  f"the inverse is built from `{pos[0][:100] if pos else None}`; expected (position, rotation) of np.linalg.inv(self.matrix)", fi=fi)
    # the three private transforms
    fm = ctx.func(HM + "__transform_matrix")
    for p in enum_paths(ctx, fm):
        ctx.check(p.retval is not None and S(p.retval) == "matrix.dot(self)", "C18-algebra", "HomogeneousMatrix.__transform_matrix", "order",
                  f"transforming a matrix returns `{S(p.retval)}`; self.transform(m) must be m.dot(self) (apply self first, then m)", fi=fm, expected="matrix.dot(self)", found=S(p.retval))
    fp = ctx.func(HM + "__transform_position")
    for p in enum_paths(ctx, fp):
        rv = S(p.retval) if p.retval is not None else ""
        want = [f"{EXTRACT}({m})[0]" for m in _mm("self.matrix", f"{GEN}(position,Quaternion())")]
        ctx.check(rv in want, "C18-algebra", "HomogeneousMatrix.__transform_position", "left-multiply",
                  f"a position is transformed as `{rv[:160]}`; expected the position part of self.matrix . M(position, identity rotation)", fi=fp, expected=want[0], found=rv[:200])
    fr = ctx.func(HM + "__transform_position_and_rotation")
    for p in enum_paths(ctx, fr):
        rv = S(p.retval) if p.retval is not None else ""
        want = [f"{EXTRACT}({m})" for m in _mm("self.matrix", f"{GEN}(position,rotation)")]
        ctx.check(rv in want, "C18-algebra", "HomogeneousMatrix.__transform_position_and_rotation", "left-multiply",
                  f"a pose is transformed as `{rv[:160]}`; expected (position, rotation) of self.matrix . M(position, rotation)", fi=fr, expected=want[0], found=rv[:200])
    # generation / extraction of the homogeneous matrix
    fg = ctx.func(HM + "__generate_homogeneous_matrix")
    for p in enum_paths(ctx, fg):
        if p.exit != ("return",):
            continue
        st = {S(strip_v(e.recv)): S(e.value) for e in p.effects if e.kind == "store"}
        init = [S(e.value) for e in p.effects if e.kind == "assign" and e.recv == "matrix"]
        okg = init[:1] == ["np.eye(4)"] and st.get("matrix[:3,3]", "").endswith("position") or st.get("matrix[:3,3]", "").startswith("np.array(position")
        okr = st.get("matrix[:3,:3]", "").endswith(".rotation_matrix")
        ctx.check(okg and okr, "C18-algebra", "HomogeneousMatrix.__generate_homogeneous_matrix", f"layout:{len(p.conds)}",
                  f"the homogeneous matrix is filled as {st} from {init}; expected eye(4) with [:3, 3] = position and [:3, :3] = rotation matrix", fi=fg)
    fe = ctx.func(HM + "__extract_position_and_rotation_from_matrix")
    for p in enum_paths(ctx, fe):
        if p.exit != ("return",):
            continue
        if fact_where(p, lambda k: S(k) == "isinstance:matrix,np.ndarray"):
            ctx.check(S(p.retval) == "(matrix[:3,3],Quaternion(matrix=matrix[:3,:3]))", "C18-algebra", "HomogeneousMatrix.__extract_position_and_rotation_from_matrix", "layout",
                      f"extraction returns `{S(p.retval)[:100]}`; expected (matrix[:3, 3], Quaternion(matrix=matrix[:3, :3]))", fi=fe)
    # __init__ labels and matrix
    fi = ctx.func(HM + "__init__")
    for p in enum_paths(ctx, fi)[:1]:
        st = {strip_v(e.recv): S(e.value) for e in p.effects if e.kind == "store"}
        ctx.check(st.get("self.matrix", "").startswith(f"{GEN}(position,"), "C18-algebra", "HomogeneousMatrix.__init__", "matrix", f"self.matrix = `{st.get('self.matrix', '')[:100]}`", fi=fi)
    # public dispatch
    ft = ctx.func(HM + "transform")
    want = {
        ("s1", True): "self.__transform_matrix(matrix=args[0])", ("s1", False): "self.__transform_position(position=args[0])",
        ("s2", None): "self.__transform_position_and_rotation(args[0],args[1])",
        ("kw-pos-rot", None): "self.__transform_position_and_rotation(kwargs['position'],kwargs['rotation'])", ("kw-pos", None): "self.__transform_position(kwargs['position'])",
        ("kw-mat", None): "self.__transform_matrix(kwargs['matrix'])",
    }
    seen = set()
    for p in enum_paths(ctx, ft):
        if p.exit != ("return",):
            continue
        f = {S(k): v for k, v in p.facts.items()}
        rv = S(p.retval)
        if f.get("eq:len(args)==1"):
            key = ("s1", bool(f.get("isinstance:args[0],HomogeneousMatrix")))
        elif f.get("eq:len(args)==2"):
            key = ("s2", None)
        elif f.get("in:'position'inkwargs") and f.get("in:'rotation'inkwargs"):
            key = ("kw-pos-rot", None)
        elif f.get("in:'position'inkwargs"):
            key = ("kw-pos", None)
        elif f.get("in:'matrix'inkwargs"):
            key = ("kw-mat", None)
        else:
            ctx.require(False, f"HomogeneousMatrix.transform: returning path not recognised [{p.cond_text()[:100]}]")
        seen.add(key)
        alts = {want[key], want[key].replace("matrix=", "").replace("position=", "")}
        ctx.check(rv in alts, "C18-algebra", "HomogeneousMatrix.transform", f"dispatch:{key[0]}:{key[1]}", f"transform dispatches `{key}` to `{rv[:100]}`; expected `{want[key]}`", fi=ft, expected=want[key], found=rv[:140])
    if ("s1", True) not in seen and not any("isinstance:args[0],HomogeneousMatrix" in S(k) for p in enum_paths(ctx, ft) for k in p.facts):
        ctx.violate("C18-algebra", "HomogeneousMatrix.transform", "dispatch:s1:matrix",
                    "a single positional argument is always treated as a position: transform(matrix) no longer composes two transforms", fi=ft)
        seen.add(("s1", True))
    ctx.require(seen == set(want), f"HomogeneousMatrix.transform: dispatch rows {sorted(map(str, set(want) - seen))} missing")


def rule_registry(ctx: Ctx) -> None:
    fi = ctx.func(T + "TransformDict.transform")
    paths = enum_paths(ctx, fi)
    rows = set()
    for p in paths:
        f = {S(k): v for k, v in p.facts.items()}
        is_key = f.get("isinstance:key,TransformKey")
        ctx.require(is_key is not None, "TransformDict.transform: no dispatch on the key type")
        K = "key" if is_key else "self.load_key(key[0],key[1])"
        same = next((v for k, v in f.items() if k in (f"same:{K}.dst=={K}.src", f"same:{K}.src=={K}.dst")), None)
        if same is None:
            raw = [k for k in f if k.startswith("same:") and ("key[0]" in k or "key[1]" in k) and "load_key" not in k]
            if raw:
                ctx.violate("C18-key-spelling", "TransformDict.transform", "identity-on-raw-key",
                            f"the X-to-X shortcut compares the raw key members (`{raw[0][5:]}`): two accepted spellings of one frame (\"MAP\" / \"map\" / FrameID.MAP) are not recognised as identical", fi=fi,
                            expected="compare load_key(src, dst).src / .dst", found=raw[0][5:])
                continue
            ctx.require(False, f"TransformDict.transform: identity test not recognised [{p.cond_text()[:120]}]")
        tag = "key" if is_key else "tuple"
        if same:
            rows.add("identity")
            if p.exit == ("return",):
                rv = S(p.retval)
                ok = rv in ("args[0]", "args", "kwargs['position']", "(kwargs['position'],kwargs['rotation'])", "kwargs['matrix']")
                ctx.check(ok, "C18-registry", "TransformDict.transform", f"identity:{tag}:{rv}", f"X-to-X returns `{rv[:80]}`; it must return its input unchanged", fi=fi, sample={"row": "identity", "returns": rv})
            continue
        d = next((v for k, v in f.items() if k == f"none:self.get(({K}.src,{K}.dst))"), None)
        ctx.require(d is not None, f"TransformDict.transform: the direct lookup self.get((src, dst)) was not recognised [{p.cond_text()[:160]}]")
        rv = S(p.retval) if p.retval is not None else ""
        if not d:
            rows.add("direct")
            ctx.check(rv == f"self.get(({K}.src,{K}.dst)).transform(*args,**kwargs)", "C18-registry", "TransformDict.transform", f"direct:{tag}",
                      f"with X->Y registered the query is answered by `{rv[:120]}`; expected the registered matrix applied to the arguments", fi=fi, sample={"row": "direct"})
            continue
        i = next((v for k, v in f.items() if k == f"none:self.get(({K}.dst,{K}.src))"), None)
        ctx.require(i is not None, "TransformDict.transform: the inverse lookup self.get((dst, src)) was not recognised")
        if i:
            rows.add("none")
            ctx.check(bool(p.exit) and p.exit == ("raise", "KeyError"), "C18-registry", "TransformDict.transform", f"neither:{tag}", f"with neither direction registered the lookup ends in {p.exit} `{rv[:60]}`; it must raise KeyError", fi=fi)
        else:
            rows.add("inverse")
            ctx.check(rv == f"self.get(({K}.dst,{K}.src)).inv().transform(*args,**kwargs)", "C18-registry", "TransformDict.transform", f"inverse:{tag}",
                      f"with only Y->X registered the query is answered by `{rv[:140]}`; expected the inverse (.inv()) of the registered matrix", fi=fi,
                      expected="self.get((dst, src)).inv().transform(...)", found=rv[:160], sample={"row": "inverse"})
    ctx.table_rows += len(paths)
    ctx.require(rows == {"identity", "direct", "inverse", "none"}, f"TransformDict.transform: rows {sorted(rows)} – expected identity / direct / inverse / none")
    # a lookup never writes the registry
    ef = Effects(ctx.index, ctx.resolver)
    ef.solve()
    for name in ("transform", "get", "__getitem__", "keys", "items"):
        fq = ctx.func(T + "TransformDict." + name)
        muts = [m for (prm, path), m in ef.of(fq).mutates.items() if prm == "self"]
        ctx.check(not muts, "C18-registry", f"TransformDict.{name}", "read-only", f"TransformDict.{name} modifies the registry ({muts[0].how} on self{muts[0].path}, line {muts[0].line})" if muts else "", fi=fq,
                  expected="no mutation", found=muts[0].how if muts else "")


def rule_keys(ctx: Ctx) -> None:
    data_access = {
        "get": lambda p: [S(p.retval)] if p.retval is not None else [],
        "__getitem__": lambda p: [S(p.retval)] if p.retval is not None else [],
        "__setitem__": lambda p: [S(strip_v(e.recv)) for e in p.effects if e.kind == "store"],
        "__delitem__": lambda p: [S(strip_v(e.recv)) for e in p.effects if e.kind == "del"],
    }
    for name, getter in data_access.items():
        fi = ctx.func(T + "TransformDict." + name)
        rows = set()
        for p in enum_paths(ctx, fi):
            is_key = fact_where(p, lambda k: S(k) == "isinstance:key,TransformKey")
            acc = [t for t in getter(p) if "self.__data" in t]
            ctx.require(bool(acc), f"TransformDict.{name}: no access to the table found on a path")
            if is_key is None:
                m0 = re.search(r"self\.__data(?:\[(.*)\]|\.get\((.*?)(?:,None)?\))$", acc[0])
                used0 = (m0.group(1) or m0.group(2)) if m0 else acc[0]
                # positively a violation only when the table is addressed with the raw argument; a call that was not read through is an idiom not recognised
                ctx.require(used0 == "key", f"TransformDict.{name}: the table is addressed with `{used0[:80]}` without a visible isinstance(key, TransformKey) dispatch")
                ctx.violate("C18-key-spelling", f"TransformDict.{name}", "no-normalisation",
                            f"TransformDict.{name} uses its key argument as given (`{acc[0][:80]}`): a (str, str) / (FrameID, str) tuple is not turned into a TransformKey, so equivalent spellings address different entries",
                            fi=fi, expected="key if isinstance(key, TransformKey) else load_key(*key)", found=acc[0][:120])
                rows |= {True, False}
                continue
            rows.add(bool(is_key))
            want = "key" if is_key else "self.load_key(key[0],key[1])"
            m = re.search(r"self\.__data(?:\[(.*)\]|\.get\((.*?)(?:,None)?\))$", acc[0])
            used = (m.group(1) or m.group(2)) if m else acc[0]
            ctx.check(used == want, "C18-key-spelling", f"TransformDict.{name}", "key" if is_key else "tuple",
                      f"TransformDict.{name} addresses the table with `{used[:80]}` for a {'TransformKey' if is_key else 'non-key'} argument; expected `{want}`", fi=fi, expected=want, found=used[:120],
                      sample={"accessor": name, "key": want})
        ctx.require(rows == {True, False}, f"TransformDict.{name}: both key kinds expected")
    lk = ctx.func(T + "TransformDict.load_key")
    for p in enum_paths(ctx, lk):
        ctx.check(p.retval is not None and S(p.retval) == "TransformKey(src,dst)", "C18-key-spelling", "TransformDict.load_key", "constructs-key", f"load_key returns `{S(p.retval)}`", fi=lk)
    ini = ctx.func(T + "TransformDict.__init__")
    for p in enum_paths(ctx, ini):
        if p.exit != ("return",):
            continue
        st = {strip_v(e.recv): S(e.value) for e in p.effects if e.kind == "store"}
        ctx.check(st.get("self.__data") == "{TransformKey(mat.src,mat.dst):matformatinself.__matrices}", "C18-key-spelling", "TransformDict.__init__", f"table:{len(p.conds)}",
                  f"the table is built as `{st.get('self.__data', '')[:100]}`; expected one entry TransformKey(mat.src, mat.dst) -> mat per matrix", fi=ini)
    # TransformKey
    kh = ctx.func(T + "TransformKey.__hash__")
    for p in enum_paths(ctx, kh):
        ctx.check(S(p.retval) == "hash((self.src,self.dst))", "C18-key-spelling", "TransformKey.__hash__", "hash", f"hash is `{S(p.retval)}`; keys that compare equal must hash (src, dst)", fi=kh)
    fh = ctx.func("common.schema.FrameID.__hash__")
    for p in enum_paths(ctx, fh):
        ctx.check(S(p.retval) == "hash(self.value)", "C18-key-spelling", "FrameID.__hash__", "hash", f"FrameID hash is `{S(p.retval)}`", fi=fh)
    ke = ctx.func(T + "TransformKey.__eq__")
    for p in enum_paths(ctx, ke, bool_returns=True):
        f = {S(k): v for k, v in p.facts.items()}
        val = bool(p.retval.value)
        isk = f.get("isinstance:other,TransformKey")
        if isk:
            a = next((v for k, v in f.items() if k in ("same:other.src==self.src", "same:self.src==other.src")), None)
            b = next((v for k, v in f.items() if k in ("same:other.dst==self.dst", "same:self.dst==other.dst")), None)
        elif f.get("isinstance:other,(tuple,list)"):
            a = next((v for k, v in f.items() if k in ("same:other[0]==self.src", "same:self.src==other[0]")), None)
            b = next((v for k, v in f.items() if k in ("same:other[1]==self.dst", "same:self.dst==other[1]")), None)
        else:
            ctx.check(val is False, "C18-key-spelling", "TransformKey.__eq__", "other-type", "a key compares equal to something that is neither a key nor a pair", fi=ke)
            continue
        if a is True and b is None and val:
            ctx.violate("C18-key-spelling", "TransformKey.__eq__", f"{'key' if isk else 'pair'}:dst-ignored",
                        "TransformKey.__eq__ returns True after comparing only the source frame: keys with different destination frames compare equal", fi=ke)
            continue
        if a is None and val:
            ctx.violate("C18-key-spelling", "TransformKey.__eq__", f"{'key' if isk else 'pair'}:src-ignored", "TransformKey.__eq__ returns True without comparing the source frame", fi=ke)
            continue
        want = (a is True) and (b is True) if (a is not None and (b is not None or a is False)) else None
        ctx.require(want is not None, f"TransformKey.__eq__: member comparisons not recognised [{p.cond_text()[:100]}]")
        ctx.check(val == want, "C18-key-spelling", "TransformKey.__eq__", f"{'key' if isk else 'pair'}:{a}:{b}", f"TransformKey.__eq__ returns {val} for src equal={a}, dst equal={b}", fi=ke)


def run(ctx: Ctx) -> None:
    from rules import C20

    ctx.run(rule_algebra)
    ctx.run(rule_registry)
    ctx.run(rule_keys)
    ctx.run(C20.rule_sites)  # TransformKey / HomogeneousMatrix route str through FrameID.from_value
