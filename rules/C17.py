"""C17 – ground-truth lookup picks the nearest frame in tolerance; interpolation is exact."""
from __future__ import annotations

import ast
from typing import Dict, List, Optional

from sa.formula import Formula, Unrecognised
from sa.paths import Path, U, strip_v
from sa.report import Ctx
from rules.common import S, appends, enum_paths, fact_where, find_calls, loops_of

EXPLANATION = (
    "Decides: (1) get_now_frame is the arg-min idiom – frame and minimum are initialised from element 0, updated together under a strict "
    "`<` on |t - frame.t| for every frame, and afterwards `min > tolerance -> None` else that frame; (2) get_interpolated_now_frame – "
    "the before frame is the last frame with t_frame <= t; the after frame obeys the first-hit rule (every loop path that assigns it "
    "leaves the loop, or the assignment is guarded by `after is None` – it is the FIRST later frame); both are discarded when their "
    "distance exceeds the tolerance with the same strictness as get_now_frame; the 4-row result table over (before usable, after usable) "
    "is interpolate / before / after / None; (3) interpolation formulas – a + (b - a)(t - t1)/(t2 - t1) for positions, velocities and "
    "the ego translation, slerp(q1, q2, (t - t1)/(t2 - t1)) for orientations; the interpolated object keeps the first object's data with "
    "the interpolated state; objects are paired by uuid ==, every unpaired object of either list is kept; the output frame is stamped "
    "with the query time and built from the neighbours' objects converted to the map frame with each neighbour's own ego pose. Does not "
    "decide: the geometric meaning of slerp, exact reproduction at the endpoints (numerics), time-ordering of the loaded frames (assumed)."
)

DS = "common.dataset."
GE = "common.geometry."
RATIO = "(t - t1) / (t2 - t1)"


def rule_now_frame(ctx: Ctx) -> None:
    fi = ctx.func(DS + "get_now_frame")
    paths = enum_paths(ctx, fi)
    lps = loops_of(paths)
    ctx.require(len(lps) == 1 and S(lps[0].text) == "ground_truth_frames", "get_now_frame: loop over ground_truth_frames not recognised")
    lp = lps[0]
    f = U(lp.node.target)
    dist = f"abs(unix_time-{f}.unix_time)"
    pre = {k: S(v) for k, v in (lp.pre or {}).items()}
    fr = [k for k, v in pre.items() if v == "ground_truth_frames[0]"]
    mn = [k for k, v in pre.items() if v in ("abs(unix_time-ground_truth_frames[0].unix_time)",)]
    ctx.check(len(fr) == 1 and len(mn) == 1, "C17-now-frame", "get_now_frame", "init", f"the search is not initialised from element 0 (frame: {fr}, minimum: {mn}; pre-loop values {dict(list(pre.items())[:4])})", fi=fi,
              expected="frame = frames[0]; min = |t - frames[0].t|")
    if len(fr) != 1 or len(mn) != 1:
        return
    FR, MN = fr[0], mn[0]
    seen = set()
    for bp in lp.body:
        lt = fact_where(bp, lambda k: S(k) == f"cmp:{dist}<{MN}")
        le = fact_where(bp, lambda k: S(k) == f"cmp:{dist}<={MN}")
        upd_f, upd_m = bp.env.get(FR), bp.env.get(MN)
        if lt is None and le is None:
            other = [strip_v(k) for k in bp.facts if k.startswith("cmp:")]
            if (upd_f is not None or upd_m is not None) and other:
                ctx.violate("C17-now-frame", "get_now_frame", "compare", f"the candidate is accepted under `{other[0][4:]}`; it must be accepted iff its time distance is strictly smaller than the running minimum", fi=fi,
                            expected=f"{dist} < {MN}", found=other[0][4:])
                continue
            ctx.require(False, f"get_now_frame: comparison with the running minimum not recognised [{bp.cond_text()[:100]}]")
        better = lt if lt is not None else le
        seen.add(bool(better))
        if better:
            ok = upd_f is not None and S(upd_f) == f and upd_m is not None and S(upd_m) == dist
            ctx.check(ok, "C17-now-frame", "get_now_frame", "update-together",
                      f"on a closer frame the function sets frame={S(upd_f) if upd_f is not None else 'unchanged'}, minimum={S(upd_m) if upd_m is not None else 'unchanged'}; both must be updated together (frame and its distance)",
                      fi=fi, expected=f"frame={f}, min={dist}", found=f"{S(upd_f) if upd_f is not None else None} / {S(upd_m) if upd_m is not None else None}", sample={"update": [f, dist]})
        else:
            ctx.check(upd_f is None and upd_m is None, "C17-now-frame", "get_now_frame", "keep", "a frame that is not closer changes the running best", fi=fi)
    ctx.require(seen == {True, False}, "get_now_frame: both comparison outcomes expected")
    rows = set()
    for p in paths:
        if p.exit != ("return",):
            continue
        over = fact_where(p, lambda k: S(k) == f"cmp:threshold_min_time<{MN}")
        over_e = fact_where(p, lambda k: S(k) == f"cmp:threshold_min_time<={MN}")
        ctx.require(over is not None or over_e is not None, f"get_now_frame: tolerance test not recognised [{p.cond_text()[:100]}]")
        strict = over is not None
        o = over if strict else over_e
        rows.add(bool(o))
        rv = strip_v(S(p.retval))
        ctx.check(strict, "C17-now-frame", "get_now_frame", "tolerance-strictness", "a frame exactly at the tolerance is rejected; `within the tolerance` is inclusive (reject iff min > tolerance)", fi=fi)
        ctx.check(rv == ("None" if o else FR), "C17-now-frame", "get_now_frame", f"result:{'out' if o else 'in'}", f"{'outside' if o else 'inside'} the tolerance the function returns `{rv}`", fi=fi,
                  expected="None" if o else FR, found=rv, sample={"outside_tolerance": bool(o), "returns": rv})
    ctx.require(rows == {True, False}, "get_now_frame: both tolerance outcomes expected")


def rule_interpolated(ctx: Ctx) -> None:
    fi = ctx.func(DS + "get_interpolated_now_frame")
    paths = enum_paths(ctx, fi)
    lps = loops_of(paths)
    ctx.require(len(lps) == 1 and S(lps[0].text) == "ground_truth_frames", "get_interpolated_now_frame: loop over ground_truth_frames not recognised")
    lp = lps[0]
    f = U(lp.node.target)
    diff = f"unix_time-{f}.unix_time"
    pre = {k: S(v) for k, v in (lp.pre or {}).items()}
    ctx.check(pre.get("before_frame") == "None" and pre.get("after_frame") == "None", "C17-interp-lookup", "get_interpolated_now_frame", "init", f"neighbours start as {pre.get('before_frame')} / {pre.get('after_frame')}", fi=fi)
    kinds = set()
    for bp in lp.body:
        if fact_where(bp, lambda k: S(k) == f"none:{f}"):
            continue  # the loop element of a list of frames is never None
        ge0 = fact_where(bp, lambda k: S(k) in (f"cmp:0<={diff}",))
        gt0 = fact_where(bp, lambda k: S(k) in (f"cmp:0<{diff}",))
        ctx.require(ge0 is not None or gt0 is not None, f"get_interpolated_now_frame: before/after test not recognised [{bp.cond_text()[:100]}]")
        is_before = ge0 if ge0 is not None else gt0
        ctx.check(ge0 is not None, "C17-interp-lookup", "get_interpolated_now_frame", "on-frame-is-before", "a frame exactly at the query time is not treated as the `before` neighbour (t_frame <= t)", fi=fi)
        b_upd, a_upd = bp.env.get("before_frame"), bp.env.get("after_frame")
        if is_before:
            kinds.add("before")
            ok = b_upd is not None and S(b_upd) == f and S(bp.env.get("dt_before")) == diff and a_upd is None
            ctx.check(ok, "C17-interp-lookup", "get_interpolated_now_frame", "before-update", f"an earlier frame sets before={S(b_upd) if b_upd is not None else None}, dt_before={S(bp.env.get('dt_before')) if bp.env.get('dt_before') is not None else None}, after changed={a_upd is not None}", fi=fi,
                      sample={"before": f, "dt": diff})
        elif a_upd is None and b_upd is None and fact_where(bp, lambda k: S(strip_v(k)) == "none:after_frame") is False:
            kinds.add("after")
            ctx.ok("C17-interp-lookup", "get_interpolated_now_frame", "later-frame-skipped-once-after-is-set")
        else:
            kinds.add("after")
            ok = a_upd is not None and S(a_upd) == f and S(bp.env.get("dt_after")) in (f"-({diff})", f"{f}.unix_time-unix_time") and b_upd is None
            ctx.check(ok, "C17-interp-lookup", "get_interpolated_now_frame", "after-update", f"a later frame sets after={S(a_upd) if a_upd is not None else None}, dt_after={S(bp.env.get('dt_after')) if bp.env.get('dt_after') is not None else None}", fi=fi)
            # first-hit rule
            guarded = fact_where(bp, lambda k: S(strip_v(k)) == "none:after_frame") is True
            ctx.check(bp.exit == ("break",) or guarded, "C17-interp-lookup", "get_interpolated_now_frame", "first-later-frame",
                      f"after a later frame is taken as the `after` neighbour the search goes on (exit {bp.exit}) and a still later frame overwrites it: for a query before the first frame the LAST frame is chosen", fi=fi,
                      expected="break (or assign only while after_frame is None)", found=str(bp.exit), sample={"after": f, "exit": str(bp.exit)})
    ctx.require(kinds == {"before", "after"}, "get_interpolated_now_frame: before / after branches not recognised")
    # gating + result table
    rows = set()
    strict_ok = True
    for p in paths:
        if p.exit != ("return",):
            continue
        fs = {S(strip_v(k)): v for k, v in p.facts.items()}
        gb = fs.get("cmp:threshold_min_time<dt_before")
        ga = fs.get("cmp:threshold_min_time<dt_after")
        if gb is None or ga is None:
            if "cmp:threshold_min_time<=dt_before" in fs or "cmp:threshold_min_time<=dt_after" in fs:
                ctx.violate("C17-interp-lookup", "get_interpolated_now_frame", "tolerance-strictness",
                            "a neighbour exactly at the tolerance is discarded here but accepted by get_now_frame (reject iff distance > tolerance)", fi=fi)
                gb = fs.get("cmp:threshold_min_time<dt_before", fs.get("cmp:threshold_min_time<=dt_before"))
                ga = fs.get("cmp:threshold_min_time<dt_after", fs.get("cmp:threshold_min_time<=dt_after"))
        if gb is None or ga is None:
            allk = {S(strip_v(k)) for q in paths for k in q.facts}
            for nm, g in (("before", gb), ("after", ga)):
                if g is None and not any(f"dt_{nm}" in k and "threshold_min_time" in k for k in allk):
                    ctx.violate("C17-interp-lookup", "get_interpolated_now_frame", f"gate-{nm}",
                                f"the `{nm}` neighbour is never compared with the tolerance by its own time distance dt_{nm}: a neighbour far outside the tolerance can be used (or a near one discarded)", fi=fi,
                                expected=f"dt_{nm} > threshold_min_time -> {nm}_frame = None", found="no such test")
            if any(f.key.endswith(("gate-before", "gate-after")) for f in ctx.findings):
                return
        ctx.require(gb is not None and ga is not None, f"get_interpolated_now_frame: tolerance gating not recognised [{p.cond_text()[:120]}]")
        nb = True if gb else fs.get("none:before_frame")
        na = True if ga else fs.get("none:after_frame")
        rv = strip_v(S(p.retval))
        if nb is None or na is None:
            # the code decided without looking: must be consistent with every completion
            opts = [(x, y) for x in ([nb] if nb is not None else [True, False]) for y in ([na] if na is not None else [True, False])]
        else:
            opts = [(nb, na)]
        for ub, ua in opts:
            want = "None" if (ub and ua) else "after_frame" if ub else "before_frame" if ua else "interpolate_ground_truth_frames(before_frame,after_frame,unix_time)"
            rows.add((not ub, not ua))
            ctx.check(rv == want, "C17-interp-lookup", "get_interpolated_now_frame", f"result:before_usable={int(not ub)},after_usable={int(not ua)}",
                      f"with before usable={not ub}, after usable={not ua} the function returns `{rv[:80]}`; expected `{want}`", fi=fi, expected=want, found=rv[:120],
                      sample={"before_usable": not ub, "after_usable": not ua, "returns": want})
    ctx.table_rows += len(rows)
    ctx.require(len(rows) == 4, f"get_interpolated_now_frame: result table has {len(rows)} rows (expected 4)")


def rule_formulas(ctx: Ctx) -> None:
    F = Formula()
    # list interpolation
    fl = ctx.func(GE + "interpolate_list")
    paths = [p for p in enum_paths(ctx, fl) if p.exit == ("return",)]
    lps = loops_of(paths)
    ctx.require(len(lps) == 1, "interpolate_list: loop not found")
    i = U(lps[0].node.target)
    for bp in lps[0].body:
        ap = appends(bp)
        ctx.require(len(ap) == 1, "interpolate_list: one append per element expected")
        try:
            ok = F.parse(ap[0].args[0]).equals(F.parse_text(f"list_1[{i}] + (list_2[{i}] - list_1[{i}]) * {RATIO}"))
        except Unrecognised as exc:
            ctx.require(False, f"interpolate_list: {exc}")
        ctx.check(ok, "C17-formula", "interpolate_list", "linear", f"element is `{S(ap[0].args[0])[:120]}`; definition a + (b - a)(t - t1)/(t2 - t1)", fi=fl, expected=f"a + (b - a) * {RATIO}", found=S(ap[0].args[0])[:160],
                  sample={"linear": f"a+(b-a)*{RATIO}"})
    ctx.check(S(lps[0].text) in ("range(len(list_1))", "range(len(list_2))"), "C17-formula", "interpolate_list", "range", f"iterates {S(lps[0].text)}", fi=fl)
    # quaternion
    fq = ctx.func(GE + "interpolate_quaternion")
    for p in enum_paths(ctx, fq):
        if p.exit != ("return",):
            continue
        rv = p.retval
        ok = isinstance(rv, ast.Call) and S(rv.func) in ("quat_1.slerp", "Quaternion.slerp", "quat_2.slerp") and len(rv.args) == 3 and S(rv.args[0]) == "quat_1" and S(rv.args[1]) == "quat_2"
        if ok:
            try:
                ok = F.parse(rv.args[2]).equals(F.parse_text(RATIO))
            except Unrecognised:
                ok = False
        ctx.check(ok, "C17-formula", "interpolate_quaternion", "slerp", f"orientation is `{S(rv)[:120]}`; definition slerp(q1, q2, (t - t1)/(t2 - t1))", fi=fq, expected=f"slerp(quat_1, quat_2, {RATIO})", found=S(rv)[:160])
    # homogeneous matrix
    fm = ctx.func(GE + "interpolate_homogeneous_matrix")
    for p in enum_paths(ctx, fm):
        if p.exit != ("return",):
            continue
        st = {S(strip_v(e.recv)): e.value for e in p.effects if e.kind == "store"}
        T, R = st.get("matrix[:3,3]"), st.get("matrix[:3,:3]")
        ctx.require(T is not None and R is not None, "interpolate_homogeneous_matrix: matrix blocks not stored")
        Fm = Formula(rename={"matrix_1[:3,3]": "T1", "matrix_2[:3,3]": "T2"})
        try:
            okT = Fm.parse(T).equals(Fm.parse_text(f"T1 + (T2 - T1) * {RATIO}"))
        except Unrecognised:
            okT = False
        ctx.check(okT, "C17-formula", "interpolate_homogeneous_matrix", "translation", f"translation is `{S(T)[:120]}`; definition T1 + (T2 - T1)(t - t1)/(t2 - t1)", fi=fm)
        okR = False
        if isinstance(R, ast.Attribute) and R.attr == "rotation_matrix" and isinstance(R.value, ast.Call) and S(R.value.func) == "Quaternion.slerp" and len(R.value.args) == 3:
            a0, a1, a2 = R.value.args
            okR = S(a0) == "Quaternion(matrix=matrix_1[:3,:3])" and S(a1) == "Quaternion(matrix=matrix_2[:3,:3])"
            try:
                okR = okR and F.parse(a2).equals(F.parse_text(RATIO))
            except Unrecognised:
                okR = False
        ctx.check(okR, "C17-formula", "interpolate_homogeneous_matrix", "rotation", f"rotation is `{S(R)[:140]}`; definition slerp(R1, R2, (t - t1)/(t2 - t1))", fi=fm)
    # state / object
    fs = ctx.func(GE + "interpolate_state")
    for p in enum_paths(ctx, fs):
        if p.exit != ("return",):
            continue
        rv = p.retval
        kw = {k.arg: S(k.value) for k in rv.keywords} if isinstance(rv, ast.Call) else {}
        want = {"position": "tuple(interpolate_list(state_1.position,state_2.position,t1,t2,t))", "orientation": "interpolate_quaternion(state_1.orientation,state_2.orientation,t1,t2,t)",
                "velocity": "tuple(interpolate_list(state_1.velocity,state_2.velocity,t1,t2,t))", "shape": "state_1.shape"}
        for k, w in want.items():
            ctx.check(kw.get(k) == w, "C17-formula", "interpolate_state", k, f"interpolated {k} is `{kw.get(k)}`; expected `{w}`", fi=fs, expected=w, found=str(kw.get(k)))
    fo = ctx.func(GE + "interpolate_dynamic_object")
    for p in enum_paths(ctx, fo):
        if p.exit != ("return",):
            continue
        st = {S(strip_v(e.recv)): S(e.value) for e in p.effects if e.kind == "store"}
        obj = strip_v(S(p.retval))
        ctx.check(obj == "deepcopy(object_1)" and st.get("deepcopy(object_1).state") == "interpolate_state(object_1.state,object_2.state,t1,t2,t)" and st.get("deepcopy(object_1).unix_time") == "int(t)",
                  "C17-formula", "interpolate_dynamic_object", "object", f"the interpolated object is `{obj}` with stores {st}; expected a copy of object_1 with state = interpolate_state(object_1.state, object_2.state, t1, t2, t) and unix_time = int(t)", fi=fo)


def rule_object_list(ctx: Ctx) -> None:
    fi = ctx.func(GE + "interpolate_object_list")
    paths = [p for p in enum_paths(ctx, fi) if p.exit == ("return",)]
    ctx.require(bool(paths), "interpolate_object_list: no returning path")
    lps = loops_of(paths)
    if len(lps) == 1 and S(lps[0].text) == "object_list1":
        ctx.violate("C17-object-list", "interpolate_object_list", "second-list:new", "objects that are present only in the second neighbour are never visited: they vanish from the interpolated frame", fi=fi,
                    expected="a second loop over object_list2 keeping unpaired objects", found="no loop over object_list2")
        return
    ctx.require(len(lps) == 2, f"interpolate_object_list: expected two top-level loops, found {len(lps)}")
    l1, l2 = sorted(lps, key=lambda e: e.node.lineno)
    # must-pass-through: every returning path runs BOTH loops
    for p in paths:
        nodes = {id(e.node) for e in p.effects if e.kind == "loop"}
        ctx.check(id(l1.node) in nodes and id(l2.node) in nodes, "C17-object-list", "interpolate_object_list", f"all-paths-visit-both-lists:{len(p.conds)}",
                  f"the function can return on [{strip_v(p.cond_text())[:120]}] without visiting {'the second' if id(l2.node) not in nodes else 'the first'} object list: objects present in only one neighbour are dropped",
                  fi=fi, expected="both loops on every returning path", found=strip_v(p.cond_text())[:160])
    ctx.check(S(l1.text) == "object_list1" and S(l2.text) == "object_list2", "C17-object-list", "interpolate_object_list", "loops", f"loops iterate {S(l1.text)} then {S(l2.text)}", fi=fi)
    o1 = U(l1.node.target)
    n_found = n_missing = 0
    for bp in l1.body:
        inner = [e for e in bp.effects if e.kind == "loop"]
        ctx.require(len(inner) == 1 and S(inner[0].text) == "object_list2", "interpolate_object_list: inner loop over object_list2 not recognised")
        o2 = U(inner[0].node.target)
        for ib in inner[0].body:
            same = fact_where(ib, lambda k: S(k) in (f"same:{o1}.uuid=={o2}.uuid", f"same:{o2}.uuid=={o1}.uuid"))
            ctx.require(same is not None, "interpolate_object_list: pairing test is not uuid equality")
            ap = [(a.recv, S(a.args[0])) for a in appends(ib) if a.recv == "output_object_list"]
            fl = ib.env.get("found")
            has_flag = any(isinstance(n_, ast.Name) and n_.id == "found" for n_ in ast.walk(fi.node))
            for_else = bool(getattr(inner[0].node, "orelse", None))
            ids_here = [S(a.args[0]) for a in appends(ib) if a.recv == "id_list"]
            if not has_flag:
                # `for ... else` instead of a flag: the match branch must leave the loop with break, the else branch keeps the unpaired object
                ctx.require(for_else, "interpolate_object_list: neither a `found` flag nor a for-else marks unpaired objects of the first list")
                oe = inner[0].node.orelse
                kept_else = [ast.unparse(x) for x in oe if isinstance(x, ast.Expr)]
                ctx.check(any(f"output_object_list.append(deepcopy({o1}))" == k.replace(" ", "") for k in kept_else), "C17-object-list", "interpolate_object_list", "only-in-first",
                          f"the else branch of the search loop does {kept_else}; an object present only in the first list must be kept (deepcopy)", fi=fi)
                if same:
                    ctx.check(ib.exit == ("break",), "C17-object-list", "interpolate_object_list", "paired:leaves-loop", "a uuid match does not leave the search loop: the else branch would keep the object a second time", fi=fi)
            elif same:
                ctx.check(fl is not None and S(fl) == "True", "C17-object-list", "interpolate_object_list", "paired:flag", f"on a uuid match the `found` flag becomes `{S(fl) if fl is not None else 'unchanged'}`; it must be set (the object would be kept a second time as unpaired)", fi=fi)
                ctx.check(ids_here in ([f"{o1}.uuid"], [f"{o2}.uuid"]), "C17-object-list", "interpolate_object_list", "paired:id-registered",
                          f"on a uuid match the handled ids gain {ids_here}; the pair's uuid must be registered, otherwise the second loop keeps the later object again (duplicate)", fi=fi)
            elif has_flag:
                ctx.check(fl is None, "C17-object-list", "interpolate_object_list", "not-paired:flag", f"objects with different uuid set the `found` flag to `{S(fl) if fl is not None else None}`", fi=fi)
            if same:
                n_found += 1
                ctx.check(ap == [("output_object_list", f"interpolate_object({o1},{o2},t1,t2,t)")] and ib.exit == ("break",), "C17-object-list", "interpolate_object_list", "paired",
                          f"objects with equal uuid give {ap} (exit {ib.exit}); expected one interpolate_object(object1, object2, t1, t2, t) and leaving the inner loop", fi=fi)
            else:
                ctx.check(not ap, "C17-object-list", "interpolate_object_list", "not-paired", "objects with different uuid are appended", fi=fi)
        found = fact_where(bp, lambda k: S(strip_v(k)) == "truthy:found")
        f0 = inner[0].pre.get("found") if inner else None
        if not any(isinstance(n_, ast.Name) and n_.id == "found" for n_ in ast.walk(fi.node)):
            n_missing += 1
            continue
        ctx.check(f0 is not None and S(f0) == "False", "C17-object-list", "interpolate_object_list", "flag-starts-false", f"before searching the second list the `found` flag is `{S(f0) if f0 is not None else None}`; it must start False (an unpaired object of the first list would be dropped)", fi=fi)
        ap = [(a.recv, S(a.args[0])) for a in appends(bp) if a.recv == "output_object_list"]
        if found is False:
            n_missing += 1
            ctx.check(ap == [("output_object_list", f"deepcopy({o1})")], "C17-object-list", "interpolate_object_list", "only-in-first", f"an object present only in the first list yields {ap}; it must be kept (deepcopy)", fi=fi)
        elif found:
            ctx.check(not ap, "C17-object-list", "interpolate_object_list", "paired-no-extra", "a paired object is appended again", fi=fi)
    ctx.require(n_found >= 1 and n_missing >= 1, "interpolate_object_list: paired / unpaired branches not recognised")
    o2 = U(l2.node.target)
    seen = set()
    for bp in l2.body:
        inn = fact_where(bp, lambda k: S(strip_v(k)) == f"in:{o2}.uuidinid_list")
        ctx.require(inn is not None, "interpolate_object_list: second loop does not test membership in the handled ids")
        ap = [(a.recv, S(a.args[0])) for a in appends(bp) if a.recv == "output_object_list"]
        seen.add(bool(inn))
        ctx.check(ap == ([] if inn else [("output_object_list", f"deepcopy({o2})")]), "C17-object-list", "interpolate_object_list", f"second-list:{'handled' if inn else 'new'}",
                  f"an object of the second list that is {'already handled' if inn else 'not yet handled'} yields {ap}", fi=fi)
    ctx.require(seen == {True, False}, "interpolate_object_list: second loop rows")
    # every output of loop 1 registers its id
    for bp in l1.body:
        ids = [S(a.args[0]) for a in appends(bp) if a.recv == "id_list"] + [S(a.args[0]) for e in bp.effects if e.kind == "loop" for ib in e.body for a in appends(ib) if a.recv == "id_list"]
        ctx.check(all(x == f"{o1}.uuid" for x in ids) and ids, "C17-object-list", "interpolate_object_list", f"id-registered:{len(bp.conds)}", f"handled ids registered as {ids}", fi=fi)
    # frame-level assembly
    ff = ctx.func(DS + "interpolate_ground_truth_frames")
    for p in enum_paths(ctx, ff):
        st = {S(strip_v(e.recv)): S(e.value) for e in p.effects if e.kind == "store"}
        out = strip_v(S(p.retval))
        asg = {e.recv: S(e.value) for e in p.effects if e.kind == "assign"}
        if out != "deepcopy(before_frame)":
            ctx.check(asg.get(out) in ("deepcopy(before_frame)", "copy.deepcopy(before_frame)"), "C17-frame", "interpolate_ground_truth_frames", "fresh-frame",
                      f"the output frame `{out}` is `{asg.get(out)}`; it must be a deep copy of a neighbour (the loaded frames must not be modified)", fi=ff)
        ctx.check(st.get(f"{out}.unix_time") == "unix_time", "C17-frame", "interpolate_ground_truth_frames", "stamp", f"the interpolated frame is stamped with `{st.get(out + '.unix_time')}`; it must carry exactly the query time", fi=ff)
        want_obj = ("interpolate_object_list(convert_objects_to_global(before_frame.objects,before_frame.transforms[TransformKey(FrameID.BASE_LINK,FrameID.MAP)]),"
                    "convert_objects_to_global(after_frame.objects,after_frame.transforms[TransformKey(FrameID.BASE_LINK,FrameID.MAP)]),before_frame.unix_time,after_frame.unix_time,unix_time)")
        ctx.check(st.get(f"{out}.objects") == want_obj, "C17-frame", "interpolate_ground_truth_frames", "objects",
                  f"objects are `{st.get(out + '.objects', '')[:200]}`; expected the interpolation of both neighbours' objects, each converted with its own ego pose, between the neighbours' timestamps at the query time", fi=ff,
                  expected=want_obj[:200], found=st.get(f"{out}.objects", "")[:260])
        k = "TransformKey(FrameID.BASE_LINK,FrameID.MAP)"
        want_tf = (f"HomogeneousMatrix.from_matrix(interpolate_homogeneous_matrix(before_frame.transforms[{k}].matrix,after_frame.transforms[{k}].matrix,before_frame.unix_time,after_frame.unix_time,unix_time),"
                   "src=FrameID.BASE_LINK,dst=FrameID.MAP)")
        ctx.check(st.get(f"{out}.transforms[{k}]") == want_tf, "C17-frame", "interpolate_ground_truth_frames", "ego-pose", f"the ego pose is `{st.get(out + '.transforms[' + k + ']', '')[:200]}`", fi=ff, expected=want_tf[:200])
        ctx.check(bool(out), "C17-frame", "interpolate_ground_truth_frames", "returns", f"returns `{S(p.retval)[:60]}`", fi=ff)
    # the manager dispatches on the flag
    fm = ctx.func("manager._evaluation_manager_base._EvaluationMangerBase.get_ground_truth_now_frame")
    for p in enum_paths(ctx, fm):
        interp = fact_where(p, lambda k: S(k) == "truthy:interpolate_ground_truth")
        ctx.require(interp is not None, "get_ground_truth_now_frame: no dispatch on interpolate_ground_truth")
        fn = "get_interpolated_now_frame" if interp else "get_now_frame"
        want = f"{fn}(ground_truth_frames=self.ground_truth_frames,unix_time=unix_time,threshold_min_time=threshold_min_time)"
        ctx.check(S(p.retval) == want, "C17-frame", "get_ground_truth_now_frame", f"dispatch:{int(bool(interp))}", f"returns `{S(p.retval)[:120]}`; expected `{want}`", fi=fm)


def run(ctx: Ctx) -> None:
    from rules import generic as _G
    ctx.run(_G.rule_arity, ("perception_eval.common.dataset", "perception_eval.common.geometry"), "R-ARITY", 5)
    ctx.run(rule_now_frame)
    ctx.run(rule_interpolated)
    ctx.run(rule_formulas)
    ctx.run(rule_object_list)
