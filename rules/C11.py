"""C11 – classification pairs objects by identity and scores them by label agreement."""
from __future__ import annotations

import ast
from typing import Dict, List, Optional, Set, Tuple

from sa.effects import Effects
from sa.formula import Formula, Unrecognised
from sa.paths import Effect, Path, U, strip_v
from sa.report import Ctx
from rules.common import S, appends, enum_paths, fact_where, loops_of

EXPLANATION = (
    "Decides: (1) match conditions dominate every pairing – each `object_results.append(Result(est, gt))` in "
    "_get_object_results_with_id and in both stages of _get_object_results_for_tlr lies on a path that requires est.frame_id == "
    "gt.frame_id and the stage's key (uuid equality; label equality [+ uuid equality when uuid-first is requested]; then uuid equality), "
    "for traffic lights additionally membership of both objects in the working copies (each object used at most once), is followed on "
    "the same path by remove(est) / remove(gt) on the working copies, pairs exactly the two loop elements, and a null uuid raises; the "
    "label stage precedes the uuid stage and the second stage iterates only over what the first left; inputs are not mutated (mutation "
    "summaries); (2) counting – calculate_tp_fp adds exactly one of num_tp / num_fp per result by is_label_correct; formulas: accuracy "
    "tp/(n_est + n_gt - tp), precision tp/n_est (per label) and tp/(tp+fp) (summary), recall tp/n_gt, F-score (1+b^2)pr/(b^2 p + r) and "
    "2pr/(p+r), each `inf` exactly on its zero-denominator path; the summary sums the per-label counts. Does not decide: maximality of the "
    "number of label-correct pairs (combinatorial over label assignments), behaviour with duplicate uuids."
)

ORQ = "evaluation.result.object_result."
ACC = "evaluation.metrics.classification.accuracy.ClassificationAccuracy."


def _pair_sites(ctx: Ctx, fi, paths: List[Path], inline_name: Optional[str] = None):
    """Yield (stage index, outer loop effect, inner loop effect, inner body path) for every inner body path."""
    outers = loops_of(paths)
    out = []
    for si, o in enumerate(sorted(outers, key=lambda e: e.node.lineno), 1):
        seen = set()
        for bp in o.body:
            for e in bp.effects:
                if e.kind == "loop" and id(e.node) not in seen:
                    seen.add(id(e.node))
                    for ib in e.body:
                        out.append((si, o, e, ib))
    return out


def _check_stage(ctx: Ctx, fi, fname: str, si: int, o: Effect, inner: Effect, ib: Path, need: Set[str], est_iter: str, gt_iter: str) -> bool:
    ev, gv = U(o.node.target), U(inner.node.target)
    ap = [a for a in appends(ib) if a.recv == "object_results"]
    if not ap:
        return False
    f = {S(k): v for k, v in ib.facts.items()}

    def same(attr):
        return next((v for k, v in f.items() if k in (f"same:{ev}.{attr}=={gv}.{attr}", f"same:{gv}.{attr}=={ev}.{attr}")), None)

    got = set()
    if same("frame_id"):
        got.add("frame")
    if same("uuid"):
        got.add("uuid")
    if same("semantic_label"):
        got.add("label")
    if next((v for k, v in f.items() if k.startswith(f"in:{ev}in") and v), None):
        got.add("est-unused")
    if next((v for k, v in f.items() if k.startswith(f"in:{gv}in") and v), None):
        got.add("gt-unused")
    flag = f.get("truthy:uuid_matching_first")
    tag = f"stage{si}" + ("" if flag is None else f":uuid_first={int(flag)}")
    want = set(need)
    if flag:
        want.add("uuid")
    missing = want - got
    ctx.check(not missing, "C11-match-guard", fname, f"{tag}:guards",
              f"{fname} stage {si}: a pair is created on a path that does not require {sorted(missing)} (path requires {sorted(got)}); objects of different "
              f"{'cameras' if 'frame' in missing else 'identity/label'} could be paired or an object used twice",
              fi=fi, node=ap[0].node, expected=str(sorted(want)), found=str(sorted(got)), sample={"stage": si, "requires": sorted(got)})
    # uuid None must have raised before
    nn = [f.get(f"none:{ev}.uuid"), f.get(f"none:{gv}.uuid")]
    ctx.check(nn == [False, False], "C11-match-guard", fname, f"{tag}:uuid-not-null", f"{fname} stage {si}: objects are paired without checking that both uuids are set", fi=fi)
    # the pair is exactly (loop estimate, loop ground truth)
    v = ap[0].args[0]
    okp = isinstance(v, ast.Call) and S(v.func) == "DynamicObjectWithPerceptionResult"
    if okp:
        kw = {k.arg: S(k.value) for k in v.keywords}
        pos = [S(a) for a in v.args]
        okp = kw.get("estimated_object", pos[0] if pos else None) == ev and kw.get("ground_truth_object", pos[1] if len(pos) > 1 else None) == gv
    ctx.check(okp and len(ap) == 1, "C11-match-guard", fname, f"{tag}:pair", f"{fname} stage {si}: the appended result is `{S(v)[:100]}`, not Result(estimate of the outer loop, ground truth of the inner loop)", fi=fi)
    # both are removed from the working copies on the same path
    rem = [(e.recv, S(e.args[0])) for e in ib.effects if e.kind == "call" and e.name == "remove"]
    ctx.check(sorted(rem) == sorted([("estimated_objects_", ev), ("ground_truth_objects_", gv)]), "C11-match-guard", fname, f"{tag}:remove",
              f"{fname} stage {si}: after pairing the path removes {rem}; it must remove the estimate from estimated_objects_ and the ground truth from ground_truth_objects_ (the working copies)",
              fi=fi, expected="[('estimated_objects_', est), ('ground_truth_objects_', gt)]", found=str(rem))
    # iteration sources
    ctx.check(S(o.text) == est_iter and S(inner.text) == gt_iter, "C11-match-guard", fname, f"{tag}:iterates",
              f"{fname} stage {si} iterates {S(o.text)} x {S(inner.text)}; expected {est_iter} x {gt_iter}", fi=fi)
    return True


def rule_matching(ctx: Ctx) -> None:
    # --- generic objects: uuid
    fi = ctx.func(ORQ + "_get_object_results_with_id")
    paths = enum_paths(ctx, fi)
    n = 0
    for si, o, inner, ib in _pair_sites(ctx, fi, paths):
        if _check_stage(ctx, fi, "_get_object_results_with_id", si, o, inner, ib, {"frame", "uuid"}, "estimated_objects", "ground_truth_objects"):
            n += 1
        if ib.exit and ib.exit[0] == "raise":
            ctx.check(any(k.startswith("none:") and k.endswith(".uuid") and v for k, v in ib.facts.items()), "C11-match-guard", "_get_object_results_with_id", "raise-only-on-null-uuid",
                      f"raises on [{ib.cond_text()[:80]}]", fi=fi)
    if n == 0:
        # the nested scan may have been replaced by an index of the ground truths: its key must be the whole pairing key (uuid AND camera frame),
        # otherwise ground truths that share a uuid across cameras overwrite each other and a correct estimate stays unpaired
        for nd in ast.walk(fi.node):
            if isinstance(nd, ast.DictComp) and len(nd.generators) == 1 and S(nd.generators[0].iter).startswith("ground_truth_objects"):
                key = S(nd.key)
                ctx.check(".uuid" in key and ".frame_id" in key, "C11-match-guard", "_get_object_results_with_id", "gt-index-key",
                          f"ground truths are indexed by `{key}`; objects are paired iff uuid AND frame_id agree, so an index keyed without the frame loses ground truths that share a uuid across cameras",
                          fi=fi, expected="key = (uuid, frame_id)", found=key)
                if not (".uuid" in key and ".frame_id" in key):
                    n = -1
    if n == -1:
        return
    ctx.require(n >= 1, "_get_object_results_with_id: pairing site not found")
    # leftovers: FP results unless a traffic-light camera is involved
    for p in paths:
        aug = [e for e in p.effects if e.kind == "aug" and e.recv == "object_results"]
        f = {S(k): v for k, v in p.facts.items()}
        left = f.get("truthy:estimated_objects_") if "truthy:estimated_objects_" in f else next((v for k, v in f.items() if k.startswith("truthy:estimated_objects_")), None)
        tl = next((v for k, v in f.items() if k.startswith("call:any([") and "CAM_TRAFFIC_LIGHT" in k), None)
        import re as _re
        for k in f:
            if k.startswith("call:any([") and "CAM_TRAFFIC_LIGHT" in k:
                okk = _re.match(r"^call:any\(\[(\w+)\.frame_id==FrameID\.CAM_TRAFFIC_LIGHTfor\1inestimated_objects_(@\d+)?\]\)$", k) is not None
                ctx.check(okk, "C11-leftovers", "_get_object_results_with_id", "traffic-light-test", f"the traffic-light-camera exception is decided by `{k[5:][:100]}`; expected any(est.frame_id == CAM_TRAFFIC_LIGHT for the unpaired estimates)", fi=fi)
        if p.exit and p.exit[0] == "raise":
            continue
        if left and tl is False:
            ok = len(aug) == 1 and aug[0].name == "Add" and S(aug[0].value).startswith("_get_fp_object_results(estimated_objects_")
            ctx.check(ok, "C11-leftovers", "_get_object_results_with_id", "unpaired-estimates", "unpaired estimates are not appended as GT-less results built from the working list", fi=fi)
        elif left is False or tl:
            ctx.check(not aug, "C11-leftovers", "_get_object_results_with_id", f"none:{int(bool(left))}{int(bool(tl))}", "GT-less results appended although nothing is left / traffic-light frame", fi=fi)
        elif left is None:
            odd = [k for k in f if "estimated_objects_" in k and k.startswith(("cmp:", "eq:"))]
            ctx.check(False, "C11-leftovers", "_get_object_results_with_id", "leftover-test", f"whether unpaired estimates remain is decided by {odd[:1] or 'nothing'}; expected `len(working list) > 0`", fi=fi)
        if p.exit == ("return",):
            ctx.check(p.retval is not None and strip_v(S(p.retval)) == "object_results", "C11-leftovers", "_get_object_results_with_id", "returns", "does not return object_results", fi=fi)
    # --- traffic lights: label stage, then uuid stage
    ft = ctx.func(ORQ + "_get_object_results_for_tlr")
    paths = enum_paths(ctx, ft, inline=["match_condition"])
    sites = _pair_sites(ctx, ft, paths)
    stages = sorted({si for si, *_ in sites})
    ctx.require(stages == [1, 2], f"_get_object_results_for_tlr: expected two stages, found {stages}")
    cnt = {1: 0, 2: 0}
    for si, o, inner, ib in sites:
        if si == 1:
            ok = _check_stage(ctx, ft, "_get_object_results_for_tlr", 1, o, inner, ib, {"frame", "label", "est-unused", "gt-unused"}, "estimated_objects", "ground_truth_objects")
        else:
            # stage 2 iterates over copies of what stage 1 left
            est_it, gt_it = S(o.text), S(inner.text)
            pre = o.pre or {}
            src_e = S(pre.get(est_it)) if est_it in pre else est_it
            src_g = S(pre.get(gt_it)) if gt_it in pre else gt_it
            ok = _check_stage(ctx, ft, "_get_object_results_for_tlr", 2, o, inner, ib, {"frame", "uuid", "est-unused", "gt-unused"}, est_it, gt_it)
            if ok:
                ctx.check(strip_v(src_e) == "estimated_objects_.copy()" and strip_v(src_g) == "ground_truth_objects_.copy()", "C11-match-guard", "_get_object_results_for_tlr", "stage2:rest",
                          f"the uuid stage iterates over {src_e} x {src_g}; it must iterate over copies of the objects the label stage left (estimated_objects_.copy() x ground_truth_objects_.copy())", fi=ft)
        if ok:
            cnt[si] += 1
    ctx.require(cnt[1] >= 1 and cnt[2] >= 1, f"_get_object_results_for_tlr: pairing sites per stage {cnt}")
    # the uuid-first option must reach the label stage
    flags = {ib.facts.get("truthy:uuid_matching_first") for si, o, inner, ib in sites if si == 1 and any(a.recv == "object_results" for a in appends(ib))}
    ctx.check({True, False} <= flags, "C11-match-guard", "_get_object_results_for_tlr", "stage1:uuid-first-option",
              f"the label stage pairs objects without consulting the caller's uuid_matching_first option (paths seen for the flag: {sorted(map(str, flags))}): with uuid-first requested, equal label alone must not pair two traffic lights",
              fi=ft, expected="uuid equality required when uuid_matching_first is true", found=f"flag values on pairing paths: {sorted(map(str, flags))}")
    # stage 1 must not pair by uuid alone / stage 2 not by label: done via guards. Inputs untouched:
    ef = Effects(ctx.index, ctx.resolver)
    ef.solve()
    for fn in ("_get_object_results_with_id", "_get_object_results_for_tlr"):
        f2 = ctx.func(ORQ + fn)
        for param in ("estimated_objects", "ground_truth_objects"):
            muts = [m for (p, path), m in ef.of(f2).mutates.items() if p == param]
            ctx.check(not muts, "C11-inputs-untouched", fn, param, f"{fn} may mutate the caller's `{param}`" + (f" ({muts[0].how}, line {muts[0].line})" if muts else ""), fi=f2)


def rule_dispatch(ctx: Ctx) -> None:
    """Which matcher get_object_results uses: 2D objects without a ROI on either side are matched by id (traffic lights: label-first / uuid), everything else geometrically."""
    import itertools

    fi = ctx.func("evaluation.result.object_result.get_object_results")
    paths = enum_paths(ctx, fi)
    E0, G0 = "estimated_objects[0]", "ground_truth_objects[0]"
    ATOMS = {"2d": f"isinstance:{E0},DynamicObject2D", "er": f"none:{E0}.roi", "gr": f"none:{G0}.roi", "tl": f"isinstance:{E0}.semantic_label.label,TrafficLightLabel"}
    rows = set()
    for p in paths:
        f = {strip_v(S(k)): v for k, v in p.facts.items()}
        if not f.get("truthy:estimated_objects") or not f.get("truthy:ground_truth_objects"):
            continue
        if p.exit and p.exit[0] == "raise":
            continue
        rv = S(p.retval) if p.retval is not None else ""
        if rv.startswith("_get_object_results_for_tlr("):
            out = "tlr"
            ctx.check(rv == "_get_object_results_for_tlr(estimated_objects,ground_truth_objects,uuid_matching_first)", "C11-dispatch", "get_object_results", "tlr-args",
                      f"the traffic-light matcher is called as `{rv[:120]}`; expected (estimated_objects, ground_truth_objects, uuid_matching_first)", fi=fi)
        elif rv.startswith("_get_object_results_with_id("):
            out = "id"
            ctx.check(rv == "_get_object_results_with_id(estimated_objects,ground_truth_objects)", "C11-dispatch", "get_object_results", "id-args",
                      f"the id matcher is called as `{rv[:120]}`; expected (estimated_objects, ground_truth_objects)", fi=fi)
        elif any(e.kind == "call" and e.name == "_get_score_table" for e in p.effects):
            out = "geom"
        else:
            continue
        vals = {k: f.get(a) for k, a in ATOMS.items()}
        free = [k for k, v in vals.items() if v is None]
        for bits in itertools.product([False, True], repeat=len(free)):
            full = dict(vals)
            full.update(dict(zip(free, bits)))
            noroi = full["2d"] and (full["er"] or full["gr"])
            want = ("tlr" if full["tl"] else "id") if noroi else "geom"
            inst = ",".join(f"{k}={int(v)}" for k, v in full.items())
            rows.add(inst)
            ctx.check(out == want, "C11-dispatch", "get_object_results", inst,
                      f"for [2D={full['2d']}, est roi None={full['er']}, gt roi None={full['gr']}, traffic light={full['tl']}] the matcher is `{out}`; expected `{want}` "
                      "(objects without a ROI cannot be matched geometrically; objects with geometry must be)", fi=fi, expected=want, found=out, sample={"row": inst, "matcher": want})
    ctx.table_rows += len(rows)
    ctx.require(len(rows) >= 12, f"get_object_results: only {len(rows)} rows of the matcher dispatch table recognised")
    # ... also in the evaluation configuration
    fcfg = ctx.func("config.perception_evaluation_config.PerceptionEvaluationConfig._extract_params")
    vals = set()
    for nd in ast.walk(fcfg.node):
        if isinstance(nd, ast.Dict):
            for k, v in zip(nd.keys, nd.values):
                if isinstance(k, ast.Constant) and k.value == "uuid_matching_first":
                    vals.add(S(v))
    ctx.require(bool(vals), "_extract_params: the uuid_matching_first entry of the filtering parameters was not found")
    for v in vals:
        ctx.check(v.endswith(".get('uuid_matching_first',False)"), "C11-dispatch", "_extract_params", "uuid-first-default", f"the configuration exposes uuid_matching_first as `{v}`; it is off unless the configuration asks for it", fi=fcfg)
    # label-first is the default order of the traffic-light matcher, lane-id-first only on request
    for fq in ("evaluation.result.object_result.get_object_results", "evaluation.result.object_result._get_object_results_for_tlr"):
        f2 = ctx.func(fq)
        a = f2.node.args
        dm = dict(zip([x.arg for x in a.args][len(a.args) - len(a.defaults):], a.defaults))
        d = dm.get("uuid_matching_first")
        ctx.check(d is None or S(d) == "False", "C11-dispatch", fq.rsplit(".", 1)[1], "uuid-first-default", f"uuid_matching_first defaults to {S(d) if d is not None else None}; traffic lights are paired by label first unless asked otherwise", fi=f2)


def rule_counting(ctx: Ctx) -> None:
    fi = ctx.func(ACC + "calculate_tp_fp")
    paths = enum_paths(ctx, fi)
    lps = loops_of(paths)
    ctx.require(len(lps) == 1 and S(lps[0].text) == "object_results", "calculate_tp_fp: loop over object_results not recognised")
    r = U(lps[0].node.target)
    for bp in lps[0].body:
        ok_l = fact_where(bp, lambda k: S(k) == f"truthy:{r}.is_label_correct")
        ctx.require(ok_l is not None, "calculate_tp_fp: the body does not branch on is_label_correct")
        aug = [(strip_v(e.recv), S(e.value), e.name) for e in bp.effects if e.kind == "aug"]
        want = [("num_tp" if ok_l else "num_fp", "1", "Add")]
        ctx.check(aug == want, "C11-count", "calculate_tp_fp", "tp" if ok_l else "fp", f"a result with is_label_correct={ok_l} updates {aug}; exactly {want[0][0]} += 1", fi=fi, expected=str(want), found=str(aug))
    for p in paths:
        rv = p.retval
        ctx.check(isinstance(rv, ast.Tuple) and [strip_v(S(x)) for x in rv.elts] == ["num_tp", "num_fp"], "C11-count", "calculate_tp_fp", "returns", "does not return (num_tp, num_fp)", fi=fi)
        for k2 in ("num_tp", "num_fp"):
            v0 = next((S(e.value) for e in p.effects if e.kind == "assign" and e.recv == k2), None)
            ctx.check(v0 == "0", "C11-count", "calculate_tp_fp", f"starts-at-zero:{k2}", f"`{k2}` starts at {v0}; counts start at 0", fi=fi)
    # __init__ wiring
    ini = ctx.func(ACC + "__init__")
    for p in enum_paths(ctx, ini):
        st = {strip_v(e.recv): S(e.value) for e in p.effects if e.kind == "store"}
        nested = p.facts.get("isinstance:object_results[0],list")
        allr = "all_object_results"
        upto = next((i for i, e in enumerate(p.effects) if e.kind == "call" and e.name == "calculate_tp_fp"), len(p.effects))
        from rules.common import flatten_check
        flatten_check(ctx, "C11-count", "ClassificationAccuracy.__init__", ini, p, upto, allr)
        asg = [S(e.value) for e in p.effects if e.kind == "assign" and e.recv == allr]
        if not asg:
            allr = "object_results" if not nested else allr
        elif not nested:
            ctx.check(asg[-1] == "object_results", "C11-count", "ClassificationAccuracy.__init__", "flat-source", f"the flat result list is `{asg[-1]}` instead of the given object_results", fi=ini)
        want = {
            "self.num_ground_truth": "num_ground_truth",
            "self.num_tp": f"self.calculate_tp_fp({allr})[0]",
            "self.num_fp": f"self.calculate_tp_fp({allr})[1]",
            "self.accuracy": "self.calculate_accuracy(self.num_tp)",
            "self.precision": "self.calculate_precision_recall(self.num_tp)[0]",
            "self.recall": "self.calculate_precision_recall(self.num_tp)[1]",
            "self.f1score": "self.calculate_f1score(self.precision,self.recall)",
        }
        for k, w in want.items():
            got = strip_v(st.get(k, "?"))
            ctx.check(got == w, "C11-count", "ClassificationAccuracy.__init__", f"{k}:{int(bool(nested))}", f"{k} = `{got[:80]}`; expected `{w}`", fi=ini, expected=w, found=got[:120])
        n = strip_v(st.get("self.objects_results_num", "?"))
        ctx.check(n in (f"len({allr})",), "C11-count", "ClassificationAccuracy.__init__", f"n_est:{int(bool(nested))}", f"objects_results_num = `{n}`", fi=ini)


def _ratio(ctx: Ctx, fi, construct: str, inst: str, retval: ast.expr, facts: Dict[str, bool], zero_key_pred, num: str, den: str, ren: Dict[str, str]) -> None:
    F = Formula(rename=ren)
    z = next((v for k, v in facts.items() if zero_key_pred(k)), None)
    ctx.require(z is not None, f"{construct}: zero-denominator test for {inst} not recognised ({sorted(facts)[:3]})")
    try:
        fx = F.parse(retval)
    except Unrecognised as exc:
        ctx.require(False, f"{construct}: {exc}")
    if z:  # denominator != 0 atom is `eq:den==0` False -> z is the truth of (den != 0)
        ok = fx.equals(F.parse_text(f"({num}) / ({den})"))
        ctx.check(ok, "C11-formula", construct, inst, f"{inst} is `{S(retval)[:120]}`; definition: ({num}) / ({den})", fi=fi, expected=f"({num})/({den})", found=S(retval)[:160], sample={inst: f"({num})/({den})"})
    else:
        ctx.check(fx.equals(F.parse_text("inf")), "C11-formula", construct, inst + ":undefined", f"{inst} with a zero denominator is `{S(retval)[:60]}`; expected inf", fi=fi)


def rule_formulas(ctx: Ctx) -> None:
    ren = {"self.objects_results_num": "n_est", "self.num_ground_truth": "n_gt", "num_tp": "tp"}
    fa = ctx.func(ACC + "calculate_accuracy")
    for p in enum_paths(ctx, fa):
        f = {S(k): v for k, v in p.facts.items()}
        nz = {k: (not v) for k, v in f.items() if k.startswith("eq:") and k.endswith("==0")}
        ctx.require(len(nz) == 1, f"calculate_accuracy: zero test not recognised {sorted(f)}")
        key = next(iter(nz))
        F = Formula(rename=ren)
        den_txt = key[3:-3]
        ok_den = F.parse(ast.parse(den_txt, mode="eval").body).equals(F.parse_text("n_est + n_gt - tp"))
        ctx.check(ok_den, "C11-formula", "calculate_accuracy", "guard", f"accuracy guards `{den_txt} != 0`, which is not its denominator n_est + n_gt - tp", fi=fa)
        _ratio(ctx, fa, "calculate_accuracy", "accuracy", p.retval, nz, lambda k: True, "tp", "n_est + n_gt - tp", ren)
    fp_ = ctx.func(ACC + "calculate_precision_recall")
    paths = enum_paths(ctx, fp_)
    ctx.require(len(paths) == 4, f"calculate_precision_recall: {len(paths)} paths (expected 4)")
    for p in paths:
        f = {S(k): v for k, v in p.facts.items()}
        rv = p.retval
        ctx.require(isinstance(rv, ast.Tuple) and len(rv.elts) == 2, "calculate_precision_recall: does not return (precision, recall)")
        nz_e = f.get("eq:self.objects_results_num==0")
        nz_g = f.get("eq:self.num_ground_truth==0")
        ctx.require(nz_e is not None and nz_g is not None, "calculate_precision_recall: zero tests not recognised")
        _ratio(ctx, fp_, "calculate_precision_recall", f"precision[{int(nz_g)}]", rv.elts[0], {"x": not nz_e}, lambda k: True, "tp", "n_est", ren)
        _ratio(ctx, fp_, "calculate_precision_recall", f"recall[{int(nz_e)}]", rv.elts[1], {"x": not nz_g}, lambda k: True, "tp", "n_gt", ren)
    ff = ctx.func(ACC + "calculate_f1score")
    for p in enum_paths(ctx, ff):
        f = {S(k): v for k, v in p.facts.items()}
        F = Formula(rename={"precision": "p", "recall": "r", "beta": "b"})
        defined = all(v is False for k, v in f.items()) and len(f) == 3
        try:
            fx = F.parse(p.retval)
        except Unrecognised as exc:
            ctx.require(False, f"calculate_f1score: {exc}")
        for k in f:
            if k.startswith("eq:") and k.endswith("==0"):
                try:
                    okg = F.parse(ast.parse(k[3:-3], mode="eval").body).equals(F.parse_text("b**2 * p + r"))
                except (Unrecognised, SyntaxError):
                    okg = False
                ctx.check(okg, "C11-formula", "calculate_f1score", "guard", f"the F-score guards `{k[3:-3]} != 0`, which is not its denominator beta^2 p + r", fi=ff, expected="beta**2*precision+recall != 0", found=k[3:-3])
        if defined:
            ctx.check(any(k.startswith("eq:") and k.endswith("==0") for k in f), "C11-formula", "calculate_f1score", "guard-zero", f"the F-score is computed without testing its denominator against 0 (tests: {sorted(f)})", fi=ff)
            ok = fx.equals(F.parse_text("(1 + b**2) * p * r / (b**2 * p + r)"))
            ctx.check(ok, "C11-formula", "calculate_f1score", "f-score", f"F-score is `{S(p.retval)[:120]}`; definition: (1 + beta^2) p r / (beta^2 p + r)", fi=ff,
                      expected="(1+b^2) p r / (b^2 p + r)", found=S(p.retval)[:160], sample={"f": "(1+b^2)pr/(b^2p+r)"})
        else:
            ctx.check(fx.equals(F.parse_text("inf")), "C11-formula", "calculate_f1score", f"undefined:{len(f)}", f"F-score on an undefined input is `{S(p.retval)[:60]}`, expected inf", fi=ff)
    for a in ff.node.args.args:
        pass
    dflt = ff.node.args.defaults
    ctx.check(len(dflt) == 1 and S(dflt[0]) in ("1.0", "1"), "C11-formula", "calculate_f1score", "beta-default", "the default beta is not 1 (F1)", fi=ff)
    # summary
    fs = ctx.func("evaluation.metrics.classification.classification_metrics_score.ClassificationMetricsScore._summarize")
    paths = enum_paths(ctx, fs)
    lps = loops_of(paths)
    ctx.require(len(lps) == 1 and S(lps[0].text) == "self.accuracies", "_summarize: loop over self.accuracies not recognised")
    a = U(lps[0].node.target)
    for bp in lps[0].body:
        aug = {strip_v(e.recv): (e.name, S(e.value)) for e in bp.effects if e.kind == "aug"}
        want = {"num_est": f"{a}.objects_results_num", "num_gt": f"{a}.num_ground_truth", "num_tp": f"{a}.num_tp", "num_fp": f"{a}.num_fp"}
        for k, w in want.items():
            ctx.check(aug.get(k) == ("Add", w), "C11-formula", "_summarize", f"sum:{k}", f"{k} accumulates {aug.get(k)}; expected += {w}", fi=fs)
    for p in paths[:1]:
        for k2 in ("num_est", "num_gt", "num_tp", "num_fp"):
            v0 = next((S(e.value) for e in p.effects if e.kind == "assign" and e.recv == k2), None)
            ctx.check(v0 == "0", "C11-formula", "_summarize", f"starts-at-zero:{k2}", f"the total `{k2}` starts at {v0}; it must start at 0", fi=fs)
    ren2 = {"num_est": "n_est", "num_gt": "n_gt", "num_tp": "tp", "num_fp": "fp"}
    spec = [("accuracy", "tp", "n_est + n_gt - tp"), ("precision", "tp", "tp + fp"), ("recall", "tp", "n_gt")]
    for p in paths:
        rv = p.retval
        ctx.require(isinstance(rv, ast.Tuple) and len(rv.elts) == 4, "_summarize: does not return four scores")
        f = {S(strip_v(k)): v for k, v in p.facts.items()}
        F = Formula(rename=ren2)
        vals = {}
        for (name, num, den), e in zip(spec, rv.elts[:3]):
            zero = None
            for k, v in f.items():
                if k.startswith("eq:") and k.endswith("==0"):
                    try:
                        if F.parse(ast.parse(k[3:-3], mode="eval").body).equals(F.parse_text(den)):
                            zero = v
                    except (Unrecognised, SyntaxError):
                        pass
            ctx.require(zero is not None, f"_summarize: zero test of {name}'s denominator ({den}) not recognised")
            fx = F.parse(e)
            vals[name] = e
            if zero:
                ctx.check(fx.equals(F.parse_text("inf")), "C11-formula", "_summarize", f"{name}:undefined", f"summary {name} with a zero denominator is `{S(e)[:40]}`", fi=fs)
            else:
                ctx.check(fx.equals(F.parse_text(f"({num})/({den})")), "C11-formula", "_summarize", name, f"summary {name} is `{S(e)[:100]}`; definition ({num})/({den})", fi=fs,
                          expected=f"({num})/({den})", found=S(e)[:140])
        # f1 over the summary precision / recall
        e = rv.elts[3]
        Fp = Formula(rename={S(vals["precision"]): "p", S(vals["recall"]): "r"})
        fx = Fp.parse(e)
        if S(e) == "float('inf')":
            ctx.ok("C11-formula", "_summarize", f"f1:inf:{len(p.conds)}")
            continue
        if "float('inf')" in (S(vals["precision"]), S(vals["recall"])):
            ctx.info("C11: _summarize computes F1 from an undefined (inf) precision/recall as 2*p*r/(p+r) (nan) while calculate_f1score returns inf there; F1 is undefined in that case, the property does not constrain it")
            continue
        z = None
        for k, v in f.items():
            if k.startswith("eq:") and k.endswith("==0"):
                try:
                    if Fp.parse(ast.parse(k[3:-3], mode="eval").body).equals(Fp.parse_text("p + r")):
                        z = v
                except (Unrecognised, SyntaxError):
                    pass
        is_inf = fx.equals(Fp.parse_text("inf"))
        ctx.check(z is not None and is_inf == z, "C11-formula", "_summarize", f"f1-guard:{len(p.conds)}",
                  f"summary F1 is {'inf' if is_inf else 'a value'} on a path where `precision + recall == 0` is {z}; it must be inf exactly when p + r = 0 (guard on the denominator p + r)", fi=fs)
        ok = is_inf or fx.equals(Fp.parse_text("2 * p * r / (p + r)"))
        ctx.check(ok, "C11-formula", "_summarize", f"f1:{'inf' if is_inf else 'value'}:{len(p.conds)}", f"summary F1 is `{S(e)[:140]}`; definition 2 p r / (p + r) (inf when p + r = 0)", fi=fs)


def run(ctx: Ctx) -> None:
    from rules import generic as _G
    ctx.run(_G.rule_arity, ("perception_eval.evaluation.metrics.classification",), "R-ARITY", 3)
    ctx.run(rule_matching)
    ctx.run(rule_dispatch)
    ctx.run(rule_counting)
    ctx.run(rule_formulas)
