"""C13 – scene scores pool the frame results; frame evaluation is history-independent."""
from __future__ import annotations

import ast
import re
from typing import Dict, List

from sa.effects import Effects
from sa.paths import Path, U, strip_v
from sa.report import Ctx
from rules.common import S, appends, enum_paths, fact_where, find_calls, loops_of

EXPLANATION = (
    "Decides: (1) ownership – mutation summaries over the call graph (in-place container methods, subscript / attribute stores, del; "
    "flow-sensitive for re-bound locals and fields, shallow copies tracked): from PerceptionEvaluationManager.add_frame_result / "
    "_filter_objects / get_scene_result and PerceptionFrameResult.__init__ / evaluate_frame nothing reachable from the caller's estimate "
    "list, from the FrameGroundTruth it was given (in particular its .objects) or from self.ground_truth_frames (the loaded dataset) may "
    "be mutated; filtered lists are stored onto a shallow copy of the frame; the in-place sort of Ap only ever reaches lists freshly built "
    "by divide_objects; get_scene_result (a query) mutates nothing reachable from self - in particular it does not re-order the history through an alias; (2) history flows only into tracking – add_frame_result reads self.frame_results only as len(...) and [-1] and "
    "hands that value only to evaluate_frame(previous_result=...); evaluate_frame touches previous_result only under `tracking_config is "
    "not None`; the new frame result is appended to the history only after evaluate_frame has returned (an exception leaves no half-evaluated frame behind); (3) pooling – get_scene_result walks self.frame_results in order and per target label appends "
    "divide_objects(frame.object_results)[label] and adds divide_objects_to_num(frame.frame_ground_truth.objects)[label] (the same two "
    "dividers as the per-frame path), then scores the pooled dicts with a fresh MetricsScore; MetricsScore accumulates ground-truth "
    "counts with += only; (4) the pooled per-frame lists handed to Ap are flattened and ranked exactly once as a whole by confidence (rule shared with C04) - a per-frame "
    "ranking would make the scene score depend on frame order. Does not decide: equality of pooled and recomputed scores as values, tie behaviour, determinism as behaviour."
)

MGR = "manager.perception_evaluation_manager.PerceptionEvaluationManager."
PFR = "evaluation.result.perception_frame_result.PerceptionFrameResult."


def rule_ownership(ctx: Ctx) -> None:
    ef = Effects(ctx.index, ctx.resolver)
    ef.solve()
    ctx.extra["effects_assumptions"] = ["a fresh container literal does not propagate the aliases of its elements"] + sorted(ef.assumptions)[:6]
    n = 0
    # parameters that belong to the caller
    owned = [
        (MGR + "add_frame_result", ["estimated_objects", "ground_truth_now_frame", "critical_object_filter_config", "frame_pass_fail_config"]),
        (MGR + "_filter_objects", ["estimated_objects", "frame_ground_truth"]),
        (PFR + "__init__", ["object_results", "frame_ground_truth", "metrics_config", "critical_object_filter_config", "frame_pass_fail_config"]),
        ("evaluation.matching.objects_filter.divide_objects", ["objects", "target_labels"]),
        ("evaluation.matching.objects_filter.divide_objects_to_num", ["objects", "target_labels"]),
        ("evaluation.result.perception_pass_fail_result.PassFailResult.evaluate", ["object_results", "ground_truth_objects"]),
    ]
    for fq, params in owned:
        fi = ctx.func(fq)
        summ = ef.of(fi)
        short = fq.split(".", 2)[-1]
        for prm in params:
            if not any(a.arg == prm for a in fi.node.args.args):
                continue
            n += 1
            muts = [m for (p, path), m in summ.mutates.items() if p == prm]
            ctx.check(not muts, "C13-ownership", short, prm,
                      f"{short} may mutate its argument `{prm}{muts[0].path if muts else ''}`" + (f": {muts[0].how} at line {muts[0].line}{' via ' + muts[0].via.split('.', 1)[-1] if muts[0].via else ''}" if muts else "")
                      + " – the caller's list / the dataset's frame must stay untouched", fi=fi, expected="no mutation", found=muts[0].how if muts else "",
                      sample={"function": short, "param": prm, "mutations": 0})
    # evaluate_frame: may rebind its own fields, but not write into the objects those fields referred to
    fi = ctx.func(PFR + "evaluate_frame")
    summ = ef.of(fi)
    allowed_prefix = (".metrics_score", ".pass_fail_result")
    for (p, path), m in summ.mutates.items():
        n += 1
        if p == "previous_result":
            ctx.violate("C13-ownership", "PerceptionFrameResult.evaluate_frame", f"previous_result{path}", f"evaluate_frame mutates the previous frame result ({m.how}, line {m.line})", fi=fi)
            continue
        if p != "self":
            continue
        ok = path in (".object_results", ".frame_ground_truth") or path.startswith(allowed_prefix)
        if path.startswith((".pass_fail_result.critical_object_filter_config", ".pass_fail_result.frame_pass_fail_config", ".pass_fail_result.transforms")):
            ok = False  # configuration objects handed in by the caller
        ctx.check(ok, "C13-ownership", "PerceptionFrameResult.evaluate_frame", f"self{path}",
                  f"evaluate_frame writes into `self{path}` ({m.how}, line {m.line}{' via ' + m.via.split('.', 1)[-1] if m.via else ''}): that object was handed in by the caller "
                  f"(the dataset's FrameGroundTruth / the result list) and must not be modified – narrow a copy instead", fi=fi,
                  expected="rebinding of self.object_results / self.frame_ground_truth only", found=f"self{path}: {m.how}")
    # the dataset held by the manager is never written after loading
    for fq in (MGR + "add_frame_result", MGR + "_filter_objects", MGR + "get_scene_result", "manager._evaluation_manager_base._EvaluationMangerBase.get_ground_truth_now_frame"):
        f2 = ctx.func(fq)
        for (p, path), m in ef.of(f2).mutates.items():
            if p == "self" and path.startswith(".ground_truth_frames"):
                ctx.violate("C13-ownership", fq.split(".", 2)[-1], f"self{path}", f"the loaded dataset (self.ground_truth_frames) is modified: {m.how} at line {m.line}", fi=f2)
        n += 1
        ctx.ok("C13-ownership", fq.split(".", 2)[-1], "dataset-untouched")
    # a scene-score query reads the manager; it changes nothing on it (in particular it neither re-orders nor shortens the history add_frame_result
    # takes the tracking predecessor from)
    fs = ctx.func(MGR + "get_scene_result")
    for (p, path), m in ef.of(fs).mutates.items():
        if p == "self":
            ctx.violate("C13-ownership", "PerceptionEvaluationManager.get_scene_result", f"self{path}",
                        f"the scene-score query modifies the manager's state self{path} ({m.how} at line {m.line}{' via ' + m.via.split('.', 1)[-1] if m.via else ''}); a later add_frame_result "
                        "(tracking predecessor = self.frame_results[-1]) and a later scene query would then depend on whether a query was made in between", fi=fs,
                        expected="get_scene_result mutates nothing reachable from self", found=f"self{path}: {m.how}")
    n += 1
    ctx.ok("C13-ownership", "PerceptionEvaluationManager.get_scene_result", "query-is-pure")
    # manager state written by add_frame_result: only the history list
    fa = ctx.func(MGR + "add_frame_result")
    for (p, path), m in ef.of(fa).mutates.items():
        if p == "self":
            ctx.check(path == ".frame_results", "C13-ownership", "PerceptionEvaluationManager.add_frame_result", f"self{path}",
                      f"add_frame_result also modifies self{path} ({m.how}); the only manager state a frame evaluation may change is the history list", fi=fa)
    ctx.require(n >= 12, f"ownership: only {n} instances")
    # the narrowing stores go to a copy
    f3 = ctx.func(MGR + "_filter_objects")
    for p in enum_paths(ctx, f3):
        st = [e for e in p.effects if e.kind == "store" and strip_v(e.recv).endswith(".objects")]
        for e in st:
            base = strip_v(e.recv)[: -len(".objects")]
            ctx.check(__import__("re").match(r"^(\w+\.)?(copy|deepcopy)\(", base) is not None, "C13-ownership", "PerceptionEvaluationManager._filter_objects", "narrow-a-copy",
                      f"the filtered ground truth is stored onto `{base}.objects`; it must be stored onto a copy of the frame", fi=f3, expected="copy(frame_ground_truth).objects = ...", found=strip_v(e.recv))


def rule_history(ctx: Ctx) -> None:
    fa = ctx.func(MGR + "add_frame_result")
    paths = enum_paths(ctx, fa)
    rows = set()
    for p in paths:
        has = fact_where(p, lambda k: S(k) == "truthy:self.frame_results")
        ctx.require(has is not None, "add_frame_result: the `history is empty` test was not recognised")
        ev = [e for e in p.effects if e.kind == "call" and e.name == "evaluate_frame"]
        ctx.require(len(ev) == 1, "add_frame_result: evaluate_frame is not called exactly once")
        args = [S(a) for a in ev[0].args] + [f"{k}={S(v)}" for k, v in ev[0].kwargs.items()]
        rows.add(bool(has))
        if has:
            ctx.check(args in (["previous_result=self.frame_results[-1]"], ["self.frame_results[-1]"]), "C13-history", "add_frame_result", "predecessor",
                      f"evaluate_frame is called with {args}; the tracking predecessor must be the immediately preceding frame result self.frame_results[-1]", fi=fa,
                      expected="previous_result=self.frame_results[-1]", found=str(args))
        else:
            ctx.check(args in ([], ["previous_result=None"]), "C13-history", "add_frame_result", "first-frame", f"the first frame is evaluated with {args}", fi=fa)
        # no other flow from the history
        uses = [strip_v(e.text) for e in p.effects if e.kind in ("call", "ccall") and "self.frame_results" in strip_v(e.text) and e.name not in ("evaluate_frame", "append", "len")]
        ctx.check(not uses, "C13-history", "add_frame_result", f"no-other-use:{int(bool(has))}", f"the history also flows into {uses[:2]}", fi=fa)
        ap = [a for a in appends(p) if S(a.recv) == "self.frame_results"]
        # the history registers a frame only after it has been evaluated: an exception inside evaluate_frame must not leave a half-evaluated frame behind
        idx = {id(e): i for i, e in enumerate(p.effects)}
        if len(ap) == 1:
            ctx.check(idx[id(ap[0])] > idx[id(ev[0])], "C13-history", "add_frame_result", f"append-after-evaluate:{int(bool(has))}",
                      "the new frame result is appended to self.frame_results BEFORE evaluate_frame has returned: when the evaluation raises, a half-evaluated frame stays in the history, is pooled "
                      "by get_scene_result and becomes the tracking predecessor of the next frame", fi=fa, expected="result.evaluate_frame(...); self.frame_results.append(result)", found="append before evaluate_frame")
        ctx.check(len(ap) == 1 and (S(ap[0].args[0]) == "result" or S(ap[0].args[0]).startswith("PerceptionFrameResult(")), "C13-history", "add_frame_result", f"append:{int(bool(has))}", "the new frame result is not appended exactly once to the history", fi=fa)
        # the result is built from this frame's inputs only
        mk = [e for e in p.effects if e.kind == "call" and e.name == "PerceptionFrameResult"]
        ctx.require(len(mk) == 1, "add_frame_result: PerceptionFrameResult(...) not constructed once")
        kw = {k: S(v) for k, v in mk[0].kwargs.items()}
        want = {"object_results": "self._filter_objects(estimated_objects,ground_truth_now_frame)[0]", "frame_ground_truth": "self._filter_objects(estimated_objects,ground_truth_now_frame)[1]",
                "metrics_config": "self.metrics_config", "critical_object_filter_config": "critical_object_filter_config", "frame_pass_fail_config": "frame_pass_fail_config",
                "unix_time": "unix_time", "target_labels": "self.target_labels"}
        for k, w in want.items():
            ctx.check(kw.get(k) == w, "C13-history", "add_frame_result", f"inputs:{k}:{int(bool(has))}", f"the frame result receives {k}=`{kw.get(k)}`; expected `{w}`", fi=fa, expected=w, found=str(kw.get(k)))
    ctx.require(rows == {True, False}, "add_frame_result: both history rows expected")
    # evaluate_frame: previous_result only under tracking
    fe = ctx.func(PFR + "evaluate_frame")
    paths = enum_paths(ctx, fe)
    n = 0
    for p in paths:
        trk_none = fact_where(p, lambda k: S(k) == "none:self.metrics_score.tracking_config")
        ctx.require(trk_none is not None, "evaluate_frame: no dispatch on tracking_config")
        used = [strip_v(k) for k in p.facts if "previous_result" in k] + [strip_v(e.text) for e in p.all_effects() if e.kind in ("call", "ccall") and "previous_result" in strip_v(e.text)] + [
            S(e.value) for e in p.all_effects() if e.value is not None and e.kind in ("store", "assign") and "previous_result" in S(e.value)]
        n += 1
        if trk_none:
            ctx.check(not used, "C13-history", "evaluate_frame", f"detection-ignores-history:{len(p.conds)}",
                      f"without a tracking config evaluate_frame still reads previous_result ({used[:1]}): a detection / classification score would depend on earlier frames", fi=fe,
                      expected="previous_result read only when tracking_config is not None", found=str(used[:2]))
        else:
            # with tracking: previous_result flows only into the tracking input
            det = [e for e in p.effects if e.kind == "call" and e.name in ("evaluate_detection", "evaluate_classification")]
            for e in det:
                ctx.check("previous_result" not in strip_v(e.text), "C13-history", "evaluate_frame", f"{e.name}-ignores-history", f"{e.name} receives data derived from previous_result", fi=fe)
    ctx.require(n >= 4, "evaluate_frame: fewer than 4 paths")
    # per-frame scoring uses the two dividers on the filtered lists
    for p in paths[:1]:
        d1 = find_calls(p, "divide_objects")
        d2 = find_calls(p, "divide_objects_to_num")
        ok = any([S(a) for a in c.args] == ["self.object_results", "self.pass_fail_result.critical_object_filter_config.target_labels"] for c in d1) and any(
            [S(a) for a in c.args] == ["self.frame_ground_truth.objects", "self.pass_fail_result.critical_object_filter_config.target_labels"] for c in d2)
        ctx.check(ok, "C13-pooling", "evaluate_frame", "dividers", "per-frame buckets / ground-truth counts are not divide_objects(self.object_results, labels) / divide_objects_to_num(self.frame_ground_truth.objects, labels)", fi=fe)


def rule_pooling(ctx: Ctx) -> None:
    fi = ctx.func(MGR + "get_scene_result")
    paths = enum_paths(ctx, fi)
    ctx.require(bool(paths), "get_scene_result: no path")
    p0 = paths[0]
    lps = [e for e in p0.effects if e.kind == "loop"]
    if len(lps) == 1 and S(lps[0].text).startswith("self.frame_results[") and S(lps[0].text) != "self.frame_results[:]":
        ctx.violate("C13-pooling", "get_scene_result", "all-frames",
                    f"the scene score pools `{S(lps[0].text)}` – a part of the stored frame results only; every evaluated frame must contribute", fi=fi, expected="for frame in self.frame_results", found=S(lps[0].text))
        return
    if len(lps) == 1 and S(lps[0].text) != "self.frame_results" and "self.frame_results" in S(lps[0].text):
        t = S(lps[0].text)
        keyed = re.search(r"\{[^{}]*:[^{}]*for\w+inself\.frame_results[^{}]*\}|dict\(|set\(|\{[^{}:]*for\w+inself\.frame_results", t) is not None
        if keyed or "sorted(" in t or "reversed(" in t:
            ctx.violate("C13-pooling", "get_scene_result", "all-frames-keyed" if keyed else "all-frames-reordered",
                        f"the scene score pools `{t[:140]}`: " + ("entries of self.frame_results that share a key (frame numbers are NOT unique: one ground-truth frame can be evaluated for several messages) collapse to one, "
                        "so evaluations drop out of the pooled score and the result depends on the order they were added" if keyed else "the stored frame results are re-ordered before pooling"), fi=fi,
                        expected="for frame in self.frame_results", found=t[:200])
            return
    ctx.require(len(lps) == 1 and S(lps[0].text) == "self.frame_results", f"get_scene_result: the pooling loop iterates {[S(l.text) for l in lps]} – every stored frame result, in order")
    lp = lps[0]
    fv = U(lp.node.target)
    asg = {e.recv: S(e.value) for e in p0.effects if e.kind == "assign"}
    inits = sorted(asg.values())
    ctx.check("{label:[[]]forlabelinself.target_labels}" in inits and "{label:0forlabelinself.target_labels}" in inits, "C13-pooling", "get_scene_result", "init",
              f"pools start as {inits}; expected one (leading empty 'previous') frame list and a zero count per target label", fi=fi)
    for bp in lp.body:
        inner = [e for e in bp.effects if e.kind == "loop"]
        ctx.require(len(inner) == 1 and S(inner[0].text) == "self.target_labels", "get_scene_result: inner loop over the target labels not recognised")
        lv = U(inner[0].node.target)
        for ib in inner[0].body:
            ap = [(S(a.recv), S(a.args[0])) for a in appends(ib)]
            want_ap = [(ap[0][0] if ap and ap[0][0].endswith(f"[{lv}]") else f"<pool>[{lv}]", f"divide_objects({fv}.object_results,self.target_labels)[{lv}]")]
            ctx.check(ap == want_ap, "C13-pooling", "get_scene_result", "pool-results", f"per frame and label the function appends {ap}; expected {want_ap}", fi=fi, expected=str(want_ap), found=str(ap),
                      sample={"append": want_ap[0][1]})
            aug = [(S(strip_v(e.recv)), e.name, S(e.value)) for e in ib.effects if e.kind == "aug"]
            want_aug = [(aug[0][0] if aug and aug[0][0].endswith(f"[{lv}]") else f"<count>[{lv}]", "Add", f"divide_objects_to_num({fv}.frame_ground_truth.objects,self.target_labels)[{lv}]")]
            ctx.check(aug == want_aug, "C13-pooling", "get_scene_result", "pool-gt", f"per frame and label the ground-truth count is updated by {aug}; expected {want_aug}", fi=fi, expected=str(want_aug), found=str(aug))
        uf = [(a.recv, S(a.args[0])) for a in appends(bp) if a.recv == "used_frame"]
        ctx.check(uf == [("used_frame", f"int({fv}.frame_name)")], "C13-pooling", "get_scene_result", "used-frame", f"used_frame receives {uf}", fi=fi)
    # names of the two pools, from the loop body (not from the source spelling)
    res_pool = gt_pool = None
    for bp in lp.body:
        for e in bp.all_effects():
            if e.kind == "call" and e.name == "append" and "divide_objects(" in "".join(S(a) for a in e.args):
                res_pool = S(e.recv).split("[")[0]
            if e.kind == "aug" and "divide_objects_to_num(" in S(e.value):
                gt_pool = S(strip_v(e.recv)).split("[")[0]
    ctx.require(res_pool is not None and gt_pool is not None, "get_scene_result: pooled result / ground-truth containers not recognised")
    n = 0
    for p in paths:
        mk = [e for e in p.effects if e.kind == "call" and e.name == "MetricsScore"]
        ctx.require(len(mk) == 1, "get_scene_result: a fresh MetricsScore is not created exactly once")
        kw = {k: strip_v(S(v)) for k, v in mk[0].kwargs.items()}
        ctx.check(kw.get("config") == "self.metrics_config" and kw.get("used_frame") == "used_frame", "C13-pooling", "get_scene_result", f"fresh-score:{len(p.conds)}", f"scene MetricsScore built with {kw}", fi=fi)
        for name, cfg in (("evaluate_detection", "detection_config"), ("evaluate_tracking", "tracking_config"), ("evaluate_classification", "classification_config")):
            has = fact_where(p, lambda k: S(k) in (f"none:self.evaluator_config.metrics_config.{cfg}", f"none:self.metrics_config.{cfg}"))  # self.metrics_config is the property of the same value
            calls = [e for e in p.effects if e.kind == "call" and e.name == name]
            if has is False:
                n += 1
                ok = len(calls) == 1 and [strip_v(S(a)) for a in calls[0].args] == [res_pool, gt_pool]
                ctx.check(ok, "C13-pooling", "get_scene_result", f"{name}", f"{name} is called with {[strip_v(S(a)) for c in calls for a in c.args]}; expected once with the pooled results and counts", fi=fi)
            elif has:
                ctx.check(not calls, "C13-pooling", "get_scene_result", f"{name}:off", f"{name} is called although its config is None", fi=fi)
        ctx.check(p.retval is not None and S(p.retval).startswith("MetricsScore(") or strip_v(S(p.retval)) == "scene_metrics_score", "C13-pooling", "get_scene_result", f"returns:{len(p.conds)}", "does not return the scene score", fi=fi)
    ctx.require(n >= 3, "get_scene_result: scoring calls not recognised")
    # MetricsScore accumulates ground-truth counts with += only
    for name in ("evaluate_detection", "evaluate_tracking", "evaluate_classification"):
        fm = ctx.func("evaluation.metrics.metrics.MetricsScore." + name)
        for p in enum_paths(ctx, fm)[:4]:
            augs = [(S(strip_v(e.recv)), e.name, S(e.value)) for e in p.effects if e.kind == "aug" and "num_gt" in e.recv]
            st = [e for e in p.effects if e.kind == "store" and "num_gt" in e.recv]
            ctx.check(not st and all(a[1] == "Add" and a[2] == "sum(num_ground_truth.values())" for a in augs) and len(augs) <= 1, "C13-pooling", f"MetricsScore.{name}", f"gt-count:{len(p.conds)}",
                      f"the ground-truth total is updated by {augs} / stores {len(st)}; it must only ever add the sum of the per-label counts", fi=fm)


def rule_frame_scoring(ctx: Ctx) -> None:
    """evaluate_frame: the frame's results / critical ground truth are divided by the critical filter's labels and handed to exactly the scorers the
    configuration enables; tracking additionally gets [previous frame's results, this frame's results] per label; pass/fail is always evaluated."""
    fi = ctx.func("evaluation.result.perception_frame_result.PerceptionFrameResult.evaluate_frame")
    TL = "self.pass_fail_result.critical_object_filter_config.target_labels"
    RES = f"divide_objects(self.object_results,{TL})"
    NGT = f"divide_objects_to_num(self.frame_ground_truth.objects,{TL})"
    n = 0
    for p in enum_paths(ctx, fi):
        cd = {S(c[0]): c[1] for c in p.conds if isinstance(c, tuple)}
        on = {k: (None if cd.get(f"none:self.metrics_score.{k}_config") is None else not cd.get(f"none:self.metrics_score.{k}_config")) for k in ("detection", "tracking", "classification")}
        ctx.require(all(v is not None for v in on.values()), "evaluate_frame: the tests of the three metric configurations were not recognised")
        calls = {}
        for e in p.effects:
            if e.kind == "call" and e.name in ("evaluate_detection", "evaluate_tracking", "evaluate_classification") and S(e.recv) == "self.metrics_score":
                calls.setdefault(e.name, []).append([strip_v(S(a)) for a in e.args])
        n += 1
        tag = "".join(str(int(on[k])) for k in ("detection", "tracking", "classification"))
        for k in ("detection", "classification"):
            got = calls.get(f"evaluate_{k}", [])
            ctx.check(got == ([[RES, NGT]] if on[k] else []), "C13-frame-scoring", "evaluate_frame", f"{k}:{tag}",
                      f"with the {k} metrics {'configured' if on[k] else 'off'} evaluate_{k} is called with {[[a[:60] for a in g] for g in got]}; expected {'once with (results by label, ground-truth counts by label) of THIS frame' if on[k] else 'not at all'}",
                      fi=fi, expected=str([[RES[:40], NGT[:40]]] if on[k] else []), found=str(got)[:200])
        got = calls.get("evaluate_tracking", [])
        ctx.check((len(got) == 1) == on["tracking"], "C13-frame-scoring", "evaluate_frame", f"tracking:{tag}", f"with tracking {'configured' if on['tracking'] else 'off'} evaluate_tracking is called {len(got)}x", fi=fi)
        if on["tracking"] and len(got) == 1:
            ctx.check(len(got[0]) == 2 and got[0][0] == "tracking_results" and got[0][1] == NGT, "C13-frame-scoring", "evaluate_frame", f"tracking-args:{tag}", f"evaluate_tracking receives {[a[:60] for a in got[0]]}", fi=fi)
            asg = [strip_v(S(e.value)) for e in p.effects if e.kind == "assign" and e.recv == "tracking_results"]
            ctx.check(asg[:1] == [RES + ".copy()"], "C13-frame-scoring", "evaluate_frame", f"tracking-base:{tag}", f"tracking_results starts as `{asg[:1]}`; expected a copy of this frame's results by label", fi=fi)
            prevn = cd.get("none:previous_result")
            lps = [e for e in p.effects if e.kind == "loop"]
            want_iter = ("{label:[]forlabelin" + TL + "}.items()") if prevn else f"divide_objects(previous_result.object_results,{TL}).items()"
            okl = len(lps) == 1 and S(lps[0].text) == want_iter
            if okl:
                lv, pv = [U(x) for x in lps[0].node.target.elts]
                for bp in lps[0].body:
                    st = [(strip_v(S(e.recv)), strip_v(S(e.value))) for e in bp.effects if e.kind == "store"]
                    okl = okl and st == [(f"tracking_results[{lv}]", f"[{pv},tracking_results[{lv}]]")] and not bp.conds
            ctx.check(prevn is not None and okl, "C13-frame-scoring", "evaluate_frame", f"tracking-history:prev_none={prevn}",
                      f"per label the tracking input is not [previous frame's results, this frame's results] with the previous results taken from {'nothing (first frame)' if prevn else 'previous_result only'}", fi=fi)
        pf = [[strip_v(S(a)) for a in e.args] for e in p.effects if e.kind == "call" and e.name == "evaluate" and S(e.recv) == "self.pass_fail_result"]
        ctx.check(pf == [["self.object_results", "self.frame_ground_truth.objects"]], "C13-frame-scoring", "evaluate_frame", f"pass-fail:{tag}", f"pass/fail is evaluated as {pf}; expected once, on the filtered results and critical ground truth", fi=fi)
    ctx.require(n >= 8, f"evaluate_frame: only {n} paths")


def rule_score_container(ctx: Ctx) -> None:
    """MetricsScore: one score object per configured (matching mode, threshold), built from the given per-label results and counts and kept in the
    container; the ground-truth total is added exactly once per evaluated frame / scene (not twice when tracking scores the same ground truth)."""
    MODES = {"center_distance_thresholds": ("CENTERDISTANCE", None), "iou_2d_thresholds": ("IOU2D", None), "iou_3d_thresholds": ("IOU3D", True), "plane_distance_thresholds": ("PLANEDISTANCE", True)}
    for name, cfg, ctor, cont in (("evaluate_detection", "self.detection_config", "Map", "self.maps"), ("evaluate_tracking", "self.tracking_config", "TrackingMetricsScore", "self.tracking_scores")):
        fm = ctx.func("evaluation.metrics.metrics.MetricsScore." + name)
        paths = enum_paths(ctx, fm)
        seen_modes = set()
        for p in paths:
            f = {S(k): v for k, v in p.facts.items()}
            is3d = f.get("call:self.evaluation_task.is_3d()")
            ctx.require(is3d is not None, f"MetricsScore.{name}: no dispatch on evaluation_task.is_3d()")
            lps = [e for e in p.effects if e.kind == "loop"]
            got = {}
            for e in lps:
                m = re.match(rf"^{re.escape(cfg)}\.(\w+)$", S(e.text))
                ctx.require(m is not None, f"MetricsScore.{name}: loop over `{S(e.text)}` not recognised")
                got[m.group(1)] = e
            want = {k for k, (mode, need3d) in MODES.items() if not need3d or is3d}
            ctx.check(set(got) == want, "C13-scores", f"MetricsScore.{name}", f"modes:3d={int(bool(is3d))}",
                      f"for a {'3D' if is3d else '2D'} task scores are computed for {sorted(got)}; expected {sorted(want)} (every configured threshold list of the task's matching modes)", fi=fm,
                      expected=str(sorted(want)), found=str(sorted(got)))
            for key, e in got.items():
                var = U(e.node.target)
                mode = MODES[key][0]
                seen_modes.add(mode)
                for bp in e.body:
                    ap = [a for a in appends(bp) if S(a.recv) == cont]
                    okb = len(ap) == 1 and not bp.conds and bp.exit == ("fall",) and isinstance(ap[0].args[0], ast.Call) and S(ap[0].args[0].func) == ctor
                    ctx.check(okb, "C13-scores", f"MetricsScore.{name}", f"kept:{mode}", f"the {ctor} of a {mode} threshold is not appended to {cont} exactly once, unconditionally", fi=fm)
                    if not okb:
                        continue
                    kw = {k.arg: S(k.value) for k in ap[0].args[0].keywords}
                    wantkw = {"object_results_dict": "object_results", "num_ground_truth_dict": "num_ground_truth", "target_labels": f"{cfg}.target_labels",
                              "matching_mode": f"MatchingMode.{mode}", "matching_threshold_list": var}
                    for k2, w in wantkw.items():
                        ctx.check(kw.get(k2) == w, "C13-scores", f"MetricsScore.{name}", f"{mode}:{k2}", f"{ctor}({k2}=`{kw.get(k2)}`) for the {mode} thresholds; expected `{w}`", fi=fm, expected=w, found=str(kw.get(k2)))
                    if ctor == "Map":
                        d2 = kw.get("is_detection_2d")
                        ctx.check(d2 in ("self.evaluation_task.is_2d()", "notself.evaluation_task.is_3d()") if not MODES[key][1] else d2 in (None, "False", "self.evaluation_task.is_2d()"), "C13-scores", f"MetricsScore.{name}",
                                  f"{mode}:is_detection_2d", f"Map(is_detection_2d={d2}) for {mode}; APH exists for 3D tasks only", fi=fm)
            # ground-truth total
            augs = [(S(strip_v(e.recv)), e.name, S(e.value)) for e in p.effects if e.kind == "aug" and "num_gt" in S(e.recv)]
            if name == "evaluate_detection":
                trk_none = f.get("none:self.tracking_config")
                ctx.require(trk_none is not None, "MetricsScore.evaluate_detection: the tracking_config test that prevents double counting of ground truth was not recognised")
                ctx.check((len(augs) == 1) == bool(trk_none), "C13-scores", "MetricsScore.evaluate_detection", f"gt-total:tracking_none={int(bool(trk_none))}",
                          f"with tracking {'off' if trk_none else 'on'} the ground-truth total is added {len(augs)}x by the detection pass; it must be added once iff no tracking pass will add it", fi=fm)
            else:
                ctx.check(len(augs) == 1, "C13-scores", f"MetricsScore.{name}", "gt-total", f"the ground-truth total is added {len(augs)}x; expected once", fi=fm)
        ctx.require(seen_modes == {"CENTERDISTANCE", "IOU2D", "IOU3D", "PLANEDISTANCE"}, f"MetricsScore.{name}: modes {sorted(seen_modes)}")
    fc = ctx.func("evaluation.metrics.metrics.MetricsScore.evaluate_classification")
    for p in enum_paths(ctx, fc):
        ap = [a for a in appends(p) if S(a.recv) == "self.classification_scores"]
        v = ap[0].args[0] if len(ap) == 1 else None
        kw = {k.arg: S(k.value) for k in v.keywords} if isinstance(v, ast.Call) else {}
        ok = isinstance(v, ast.Call) and S(v.func) == "ClassificationMetricsScore" and kw == {"object_results_dict": "object_results", "num_ground_truth_dict": "num_ground_truth", "target_labels": "self.classification_config.target_labels"}
        ctx.check(ok, "C13-scores", "MetricsScore.evaluate_classification", "kept", f"the classification score is built / kept as {S(v)[:120] if v is not None else [S(a.args[0])[:40] for a in ap]}", fi=fc)
        augs = [e for e in p.effects if e.kind == "aug" and "num_gt" in S(e.recv)]
        ctx.check(len(augs) == 1, "C13-scores", "MetricsScore.evaluate_classification", "gt-total", f"the ground-truth total is added {len(augs)}x; expected once", fi=fc)


def run(ctx: Ctx) -> None:
    from rules import generic as _G
    ctx.run(_G.rule_arity, ("perception_eval.manager",), "R-ARITY", 20)
    ctx.run(rule_ownership)
    ctx.run(rule_history)
    ctx.run(rule_pooling)
    ctx.run(rule_score_container)
    ctx.run(rule_frame_scoring)
    from rules import C10
    ctx.run(C10.rule_manager)
    from rules import C04
    ctx.run(C04.rule_ranking)  # the pooled (nested, per-frame) results are flattened and ranked ONCE as a whole: the scene score cannot depend on frame order
