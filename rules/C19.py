"""C19 – analysis tables are a faithful tabulation of the frame results."""
from __future__ import annotations

import ast
import re
from typing import Dict, List, Optional, Set, Tuple

from sa.formula import Formula, Unrecognised
from sa.paths import Path, U, strip_v
from sa.report import Ctx
from rules import C03
from rules import generic as G
from rules.common import S, appends, enum_paths, fact_where, find_calls, loops_of

EXPLANATION = (
    "Decides: (1) row emission – add_frame tabulates exactly the four pass/fail lists (TP, FP, TN, FN), each with its own status, the "
    "frame number and the frame's transforms, advancing the row index by the number of emitted pairs; format2df emits one "
    "(ground_truth, estimation) row pair per list element; joined with the status-flow table of C03 (which list an estimate / a ground "
    "truth ends up in, extracted from the current source) this gives, per matching outcome, the number of rows that carry the ground "
    "truth – it must be 1. KNOWN FINDING (open): for the outcome (FP, FN) it is 2 – the failing estimate keeps its ground truth in "
    "fp_object_results and the same ground truth is also in fn_objects – so ground-truth counts / get_object_status tally it twice; "
    "(2) row fields (def-use provenance) – x, y, yaw, nn points and distance derive from transforms.transform(TransformKey(obj.frame_id, "
    "BASE_LINK), position, orientation) (R-FRAME), yaw from yaw_pitch_roll[0] (signed), every other column from the object's own field; "
    "the estimation block is the field-for-field sibling of the ground-truth block; the area index uses the ego-frame position; "
    "(3) errors – calculate_error takes ground truth minus estimation over the paired TP/FP/TN rows, wraps yaw by exactly +-2*pi, "
    "distance / nn-plane errors are norms; summaries are mean / sqrt(mean(err^2)) / std / max|err| / min|err|; ratios TP/GT, FP/(TP+FP), "
    "TN/GT, FN/GT; (4) counts - TP/FP are counted on estimation rows, TN/FN and ground truths on ground-truth rows, placeholder rows (absent side, all None) are removed by the side getters; the confusion matrix counts the paired rows only (index = n*gt_label + est_label); (5) the pass/fail lists "
    "that are tabulated are computed from the critically filtered ground truth (rule shared with C03); (6) analyze(): a scene / area / distance selection applies iff the "
    "argument is not None (0 is a valid index; no truthiness test on any optional index parameter of the analyzer), every table is computed from the selected rows, and the row "
    "filter keeps both rows of a pair. Does not decide: pandas semantics, counts as values, plots."
)

AB = "tool.perception_analyzer_base.PerceptionAnalyzerBase."
A3 = "tool.perception_analyzer3d.PerceptionAnalyzer3D."
LISTS = {"tp_object_results": "TP", "fp_object_results": "FP", "tn_objects": "TN", "fn_objects": "FN"}


def rule_emission(ctx: Ctx) -> None:
    fi = ctx.func(AB + "add_frame")
    paths = enum_paths(ctx, fi)
    ctx.require(len(paths) >= 2, "add_frame: paths")
    seen_sig = set()
    for p in paths:
        calls = [e for e in p.effects if e.kind == "call" and e.name == "format2df"]
        got = []
        for e in calls:
            a0 = S(e.args[0]) if e.args else S(e.kwargs.get("object_results"))
            m = re.match(r"^frame\.pass_fail_result\.(\w+)$", a0)
            got.append((m.group(1) if m else a0, S(e.kwargs.get("status")).replace("MatchingStatus.", ""), S(e.kwargs.get("frame_num")), S(e.kwargs.get("transforms"))))
        sig = tuple(got)
        if sig in seen_sig:
            continue
        seen_sig.add(sig)
        names = [g[0] for g in got]
        for lst, st in LISTS.items():
            hits = [g for g in got if g[0] == lst]
            ctx.check(len(hits) == 1 and hits[0][1] == st, "C19-emission", "add_frame", f"{lst}",
                      f"the list {lst} is tabulated {len(hits)} time(s) with status {[h[1] for h in hits]}; each pass/fail list must be emitted exactly once with status {st} (per-status counts = list sizes)",
                      fi=fi, expected=f"one format2df({lst}, status={st})", found=str(hits), sample={"list": lst, "status": st})
            for h in hits:
                ctx.check(h[2] == "int(frame.frame_name)" and h[3] == "frame.frame_ground_truth.transforms", "C19-emission", "add_frame", f"{lst}:frame-args",
                          f"{lst} is tabulated with frame_num={h[2]}, transforms={h[3]}; expected the frame's own number and transforms", fi=fi)
        extra = [n for n in names if n not in LISTS]
        ctx.check(not extra, "C19-emission", "add_frame", "no-other-list", f"add_frame also tabulates {extra}", fi=fi)
    # every non-empty block reaches the table: appended to `concat` exactly once, `concat` (seeded with the old table) is concatenated into self.__df
    for p in paths:
        if p.exit != ("return",):
            continue
        nonempty, appended, other = set(), [], []
        for k, v in p.facts.items():
            m = re.match(r"^truthy:self\.format2df\(frame\.pass_fail_result\.(\w+),", S(k))
            if m and v:
                nonempty.add(m.group(1))
        for e in p.effects:
            if e.kind == "call" and e.name == "append" and e.recv is not None and strip_v(S(e.recv)) == "concat" and e.args:
                m = re.match(r"^self\.format2df\(frame\.pass_fail_result\.(\w+),", S(e.args[0]))
                if m:
                    appended.append(m.group(1))
                else:
                    other.append(S(e.args[0]))
        tag = ",".join(sorted(nonempty)) or "none"
        ctx.check(nonempty <= set(appended) and len(appended) == len(set(appended)), "C19-emission", "add_frame", f"block-reaches-table:{tag}",
                  f"non-empty blocks {sorted(nonempty)} but blocks appended to the table are {appended}; every non-empty block must be appended exactly once", fi=fi, expected=str(sorted(nonempty)), found=str(appended))
        old = fact_where(p, lambda k: S(k) == "truthy:self")
        ctx.check(other == (["self.df"] if old else []), "C19-emission", "add_frame", f"keeps-old-rows:{old}", f"blocks appended besides the four lists: {other}; expected the existing table iff it is non-empty", fi=fi)
        if (appended or other) and fact_where(p, lambda k: re.match(r"^truthy:concat(@\d+)?$", S(k)) is not None) is False:
            continue  # infeasible: the list has just been appended to, it is not empty
        if appended or other:
            st = [S(e.value) for e in p.effects if e.kind == "store" and S(e.recv).endswith("__df")]
            ctx.check(len(st) == 1 and re.match(r"^pd\.concat\(concat(@\d+)?\)$", st[0]) is not None and strip_v(S(p.retval)).endswith("__df"), "C19-emission", "add_frame", "concat-stored",
                      f"the table is updated by {st} and `{S(p.retval)}` is returned; expected self.__df = pd.concat(concat), returned", fi=fi)
    # row index bookkeeping: after each non-empty block start advances by half its rows
    for p in paths:
        augs = [e for e in p.effects if e.kind == "aug" and strip_v(e.recv) == "start"]
        for e in augs:
            ok = e.name == "Add" and re.match(r"^len\(self\.format2df\(frame\.pass_fail_result\.\w+,.*\)\)//2$", S(e.value)) is not None
            ctx.check(ok, "C19-emission", "add_frame", "row-index", f"the row index advances by `{S(e.value)[:80]}`; expected len(block) // 2 (two rows per item)", fi=fi)
        break
    fd = ctx.func(AB + "format2df")
    for p in enum_paths(ctx, fd):
        lps = [e for e in p.effects if e.kind == "loop"]
        ctx.require(len(lps) == 1, "format2df: item loop not found")
        ctx.check(S(lps[0].text) == "enumerate(object_results,start=start)", "C19-emission", "format2df", "iterates", f"format2df iterates `{S(lps[0].text)}`; expected every element of the given list, numbered from `start`", fi=fd)
        iv, ov = [U(x) for x in lps[0].node.target.elts]
        for bp in lps[0].body:
            st = [(S(strip_v(e.recv)), S(e.value)) for e in bp.effects if e.kind == "store"]
            ctx.check(len(st) == 1 and re.match(rf"^\w+\[{re.escape(iv)}\]$", st[0][0]) is not None and st[0][1] == f"self.format2dict({ov},status,frame_num,transforms)" and not bp.conds, "C19-emission", "format2df", "one-pair-per-item",
                      f"per list element format2df records {st}; expected exactly rets[i] = self.format2dict(item, status, frame_num, transforms), unconditionally", fi=fd)
    # get_object_status walks the same four lists
    fs = ctx.func("evaluation.result.perception_frame_result.get_object_status")
    spaths = enum_paths(ctx, fs)
    outer = loops_of(spaths)
    ctx.require(len(outer) == 1, "get_object_status: frame loop not found")
    fr = U(outer[0].node.target)
    inner_lists = []
    for bp in outer[0].body:
        for e in bp.effects:
            if e.kind == "loop":
                m = re.match(rf"^{fr}\.pass_fail_result\.(\w+)$", S(e.text))
                if m and m.group(1) not in [x[0] for x in inner_lists]:
                    sts = {S(c.args[0]).replace("MatchingStatus.", "") for ib in e.body for c in ib.effects if c.kind == "call" and c.name == "add_status" and c.args}
                    inner_lists.append((m.group(1), sts))
    fp_skips_gtless = True  # FP results without a ground truth must not be tallied (there is no ground truth to record)
    for bp in outer[0].body:
        for e in bp.effects:
            if e.kind == "loop" and S(e.text) == f"{fr}.pass_fail_result.fp_object_results":
                iv = U(e.node.target)
                for ib in e.body:
                    nog = fact_where(ib, lambda k: S(k) == f"none:{iv}.ground_truth_object")
                    if nog is True and any(c.kind == "call" and c.name == "add_status" for c in ib.effects):
                        fp_skips_gtless = False
    ctx.check(fp_skips_gtless, "C19-emission", "get_object_status", "fp-without-gt", "get_object_status tallies an FP result that has no ground truth", fi=fs)
    # per item of each list: exactly one add_status(<status of that list>, <this frame's number>) on the record of the item's GROUND TRUTH uuid;
    # a uuid seen for the first time gets a new record that is kept
    for bp in outer[0].body[:1]:
        for e in bp.effects:
            if e.kind != "loop":
                continue
            m = re.match(rf"^{fr}\.pass_fail_result\.(\w+)$", S(e.text))
            if not m or m.group(1) not in LISTS:
                continue
            lst, st = m.group(1), LISTS[m.group(1)]
            iv = U(e.node.target)
            uid = f"{iv}.ground_truth_object.uuid" if lst.endswith("_results") else f"{iv}.uuid"
            for ib in e.body:
                cd = {S(c[0]): c[1] for c in ib.conds if isinstance(c, tuple)}
                if lst == "fp_object_results" and cd.get(f"none:{iv}.ground_truth_object"):
                    continue
                known = cd.get(f"in:{uid}instatus_infos")
                ctx.check(known is not None, "C19-emission", "get_object_status", f"{lst}:record-lookup", f"a {st} item's record is looked up by {[k for k in cd if k.startswith('in:')]}; expected `{uid} in status_infos` (the ground truth's uuid)", fi=fs)
                if known is None:
                    continue
                adds = [(S(c.recv), [S(a) for a in c.args]) for c in ib.effects if c.kind == "call" and c.name == "add_status"]
                rec = f"status_infos[status_infos.index({uid})]" if known else f"GroundTruthStatus({uid})"
                want = [(rec, [f"MatchingStatus.{st}", f"int({fr}.frame_name)"])]
                ctx.check(adds == want, "C19-emission", "get_object_status", f"{lst}:tally:{'known' if known else 'new'}",
                          f"a {st} item whose ground truth is {'already recorded' if known else 'new'} is tallied by {adds}; expected exactly {want}", fi=fs, expected=str(want), found=str(adds))
                kept = [S(c.args[0]) for c in ib.effects if c.kind == "call" and c.name == "append" and S(c.recv) == "status_infos"]
                ctx.check(kept == ([] if known else [rec]), "C19-emission", "get_object_status", f"{lst}:record-kept:{'known' if known else 'new'}",
                          f"for a {'known' if known else 'new'} ground truth the records gain {kept}; expected {[] if known else [rec]}", fi=fs)
    for lst, st in LISTS.items():
        hit = [x for x in inner_lists if x[0] == lst]
        ctx.check(len(hit) == 1 and hit[0][1] == {st}, "C19-emission", "get_object_status", lst, f"get_object_status tallies {lst} as {[sorted(h[1]) for h in hit]}; expected once with status {st}", fi=fs)
    # join with the status flow (extracted from the CURRENT source by C03's machinery)
    pos = ctx.func("evaluation.matching.objects_filter.get_positive_objects")
    neg = ctx.func("evaluation.matching.objects_filter.get_negative_objects")
    est_place: Dict[str, Tuple[str, bool]] = {}
    ppaths = enum_paths(ctx, pos, inline=["get_status"])
    lp = loops_of(ppaths)[0]
    res = U(lp.node.target)
    for bp in lp.body:
        r = C03.row_of(bp, res)
        ap = [a for a in appends(bp) if a.recv in ("tp_object_results", "fp_object_results")]
        if r is None or len(ap) != 1:
            continue
        keeps_gt = S(ap[0].args[0]) == res and r != "no-gt"
        est_place[r] = (ap[0].recv, keeps_gt)
    gt_place: Dict[str, Set[str]] = {}
    npaths = enum_paths(ctx, neg, inline=["get_status"])
    l1 = [l for l in loops_of(npaths) if S(l.text) == "object_results"][0]
    res2 = U(l1.node.target)
    for bp in l1.body:
        r = C03.row_of(bp, res2)
        if r is None:
            continue
        gt_place[r] = {a.recv for a in appends(bp) if a.recv in ("tn_objects", "fn_objects")}
    ctx.require(set(est_place) >= set(C03.B1) and set(gt_place) >= set(C03.B1), "status-flow join: rows of the status table not found")
    for r in sorted(C03.B1):
        if r == "no-gt":
            continue
        lst, keeps = est_place[r]
        n_gt_rows = (1 if keeps else 0) + len(gt_place[r])
        where = ([f"{lst} (the result keeps its ground truth)"] if keeps else []) + sorted(gt_place[r])
        ctx.check(n_gt_rows == 1, "C19-gt-once", "add_frame", r,
                  f"outcome {C03.STATUS[r]}: the ground truth appears in {n_gt_rows} tabulated rows ({where}); every critical ground truth must be tabulated exactly once per frame "
                  f"(otherwise the ground-truth count exceeds the number of critical ground truths and per-object tallies count it twice)", fi=fi, expected="1 ground-truth row", found=f"{n_gt_rows}: {where}",
                  sample={"outcome": r, "gt_rows": n_gt_rows})
        fp_tallied = any(x[0] == "fp_object_results" for x in inner_lists) and fp_skips_gtless
        n_tally = (1 if keeps and fp_tallied else 0) + sum(1 for g in gt_place[r] if any(x[0] == g for x in inner_lists))
        ctx.check(n_tally == 1, "C19-gt-once", "get_object_status", r,
                  f"outcome {C03.STATUS[r]}: get_object_status records the ground truth {n_tally} times in one frame; per-object status tallies must record each ground truth once per frame",
                  fi=fs, expected="1 tally per frame", found=str(n_tally), sample={"outcome": r, "tallies": n_tally})
    ctx.table_rows += len(C03.B1)


def _dict_call(p: Path, name: str) -> Optional[ast.Call]:
    for e in p.effects:
        if e.kind == "assign" and e.recv == name and isinstance(e.value, ast.Call) and S(e.value.func) == "dict":
            return e.value
    v = p.env.get(name)
    if isinstance(v, ast.Call) and S(v.func) == "dict":
        return v
    return None


def rule_fields(ctx: Ctx) -> None:
    fi = ctx.func(A3 + "format2dict")
    paths = enum_paths(ctx, fi)
    checked = set()
    for p in paths:
        if p.exit != ("return",):
            continue
        is_res = fact_where(p, lambda k: S(k) == "isinstance:object_result,DynamicObjectWithPerceptionResult")
        for side, ret in (("gt", "gt_ret"), ("estimation", "est_ret")):
            c = _dict_call(p, ret)
            if c is None:
                continue
            obj = None
            kw = {k.arg: S(k.value) for k in c.keywords}
            m = re.match(r"^(.*)\.frame_id\.value$", kw.get("frame_id", ""))
            ctx.require(m is not None, f"format2dict: the {side} block has no frame_id=<obj>.frame_id.value entry")
            obj = m.group(1)
            is_obj = fact_where(p, lambda k: S(k) == "isinstance:object_result,DynamicObject")
            want_obj = (("object_result.ground_truth_object" if side == "gt" else "object_result.estimated_object") if is_res else "object_result" if is_obj else None)
            ctx.check(want_obj is not None and obj == want_obj, "C19-fields", "PerceptionAnalyzer3D.format2dict", f"{side}:source:{'result' if is_res else 'object'}",
                      f"the {side} row of a {'paired result' if is_res else 'bare object'} is filled from `{obj}`; expected `{want_obj}`", fi=fi, expected=str(want_obj), found=obj)
            sig = (side, obj, tuple(sorted(kw.items())))
            if sig in checked:
                continue
            checked.add(sig)
            T = f"transforms.transform(TransformKey({obj}.frame_id,FrameID.BASE_LINK),{obj}.state.position,{obj}.state.orientation)"
            want = {
                "timestamp": f"{obj}.unix_time", "x": f"{T}[0][0]", "y": f"{T}[0][1]", "yaw": f"{T}[1].yaw_pitch_roll[0]",
                "width": f"{obj}.state.size[0]", "length": f"{obj}.state.size[1]", "height": f"{obj}.state.size[2]",
                "label": f"str({obj}.semantic_label.label)", "label_name": f"{obj}.semantic_label.name", "attributes": f"{obj}.semantic_label.attributes",
                "confidence": f"{obj}.semantic_score", "uuid": f"{obj}.uuid", "status": "str(status)",
                "distance": f"np.linalg.norm([{T}[0][0],{T}[0][1]]).item()", "frame": "frame_num", "scene": "self.num_scene",
                "area": "get_area_idx(object_result=object_result,upper_rights=self.upper_rights,bottom_lefts=self.bottom_lefts,transforms=transforms)",
                "num_points": f"{obj}.pointcloud_num" if side == "gt" else "np.nan",
            }
            tag = f"{side}:{'result' if is_res else 'object'}"
            for k, w in want.items():
                g = kw.get(k)
                rule = "R-FRAME" if k in ("x", "y", "distance") else "R-SIGNEDYAW" if k == "yaw" else "C19-fields"
                ctx.check(g == w, rule, "PerceptionAnalyzer3D.format2dict", f"{tag}:{k}",
                          f"column `{k}` of the {side} row is `{str(g)[:160]}`; expected `{w[:160]}`" + (" (ego-frame value: the table reports positions and yaw relative to the ego)" if rule != "C19-fields" else ""),
                          fi=fi, expected=w[:220], found=str(g)[:220], sample={"side": side, "column": k} if k in ("x", "yaw") else None)
            vel = fact_where(p, lambda k: S(k) == f"none:{obj}.state.velocity")
            if vel is False:
                for k, w in (("vx", f"{obj}.state.velocity[:2][0]"), ("vy", f"{obj}.state.velocity[:2][1]"), ("speed", f"np.linalg.norm({obj}.state.velocity[:2])")):
                    ctx.check(kw.get(k) == w, "C19-fields", "PerceptionAnalyzer3D.format2dict", f"{tag}:{k}", f"column `{k}` is `{kw.get(k)}`; expected `{w}`", fi=fi)
            # nn points: transformed with the same key unless NaN
            for i, k in enumerate(("nn_point1", "nn_point2")):
                g = kw.get(k, "")
                okn = "np.nan" in g or g.startswith(f"transforms.transform(TransformKey({obj}.frame_id,FrameID.BASE_LINK),") or re.match(r"^object_result\.plane_distance\.(ground_truth|estimated)_nn_plane\[\d\]$", g)
                isnan = fact_where(p, lambda kk: S(kk).startswith("call:np.isnan(") and (("ground_truth_nn_plane" if side == "gt" else "estimated_nn_plane") + f"[{i}]") in S(kk))
                if isnan is False:
                    okn = g.startswith(f"transforms.transform(TransformKey({obj}.frame_id,FrameID.BASE_LINK),object_result.plane_distance.{'ground_truth' if side == 'gt' else 'estimated'}_nn_plane[{i}])")
                ctx.check(bool(okn), "R-FRAME", "PerceptionAnalyzer3D.format2dict", f"{tag}:{k}:{isnan}", f"column `{k}` of the {side} row is `{g[:140]}`; a finite nearest-plane point must be moved to the ego frame with the object's key", fi=fi)
        # which object goes where (DynamicObject input)
        if is_res is False and fact_where(p, lambda k: S(k) == "isinstance:object_result,DynamicObject"):
            if fact_where(p, lambda k: S(k) == "truthy:object_result") is False:
                continue  # artefact: DynamicObject defines neither __bool__ nor __len__, an instance is always truthy
            fpx = fact_where(p, lambda k: S(k) == "eq:status==MatchingStatus.FP")
            g, e = _dict_call(p, "gt_ret"), _dict_call(p, "est_ret")
            if fpx:
                ctx.check(g is None and e is not None, "C19-fields", "PerceptionAnalyzer3D.format2dict", "object:FP", "a bare FP object must fill the estimation row only", fi=fi)
            else:
                ctx.check(g is not None and e is None, "C19-fields", "PerceptionAnalyzer3D.format2dict", f"object:{'TN' if fact_where(p, lambda k: S(k) == 'eq:status==MatchingStatus.TN') else 'FN'}",
                          "a bare TN/FN object must fill the ground-truth row only", fi=fi)
        rv = p.retval
        vals_named = isinstance(rv, ast.Dict) and all(isinstance(v, ast.Name) for v in rv.values)
        ctx.check(isinstance(rv, ast.Dict) and [S(k) for k in rv.keys] == ["'ground_truth'", "'estimation'"] and (not vals_named or [strip_v(S(v)) for v in rv.values] == ["gt_ret", "est_ret"]), "C19-fields",
                  "PerceptionAnalyzer3D.format2dict", "returns", f"returns `{S(rv)[:80]}`", fi=fi)
        if isinstance(rv, ast.Dict) and not vals_named:
            # the two rows returned as expressions: they must be the rows analysed above
            g0, e0 = _dict_call(p, "gt_ret"), _dict_call(p, "est_ret")
            ctx.require(all(isinstance(v, ast.Name) or (isinstance(v, ast.Call) and S(v.func) == "dict") or S(v).startswith("self._") for v in rv.values), f"format2dict: returns `{S(rv)[:80]}` - row expressions not recognised")
    ctx.require(len(checked) >= 3, f"format2dict: only {len(checked)} row blocks analysed")
    rows = set()
    for p in paths:
        f2 = {S(k): v for k, v in p.facts.items()}
        is_res, is_obj, is_none = f2.get("isinstance:object_result,DynamicObjectWithPerceptionResult"), f2.get("isinstance:object_result,DynamicObject"), f2.get("none:object_result")
        raised = bool(p.exit) and p.exit[0] == "raise"
        if is_res:
            rows.add("result")
            ctx.check(not raised, "C19-fields", "PerceptionAnalyzer3D.format2dict", "dispatch:result", f"a paired result raises {p.exit}", fi=fi)
        elif is_res is False and is_obj:
            sts = [k.split("MatchingStatus.")[1] for k, v in f2.items() if k.startswith("eq:status==MatchingStatus.") and v]
            rows.add("object:" + (sts[0] if sts else "other"))
            ctx.check(raised == (not sts or sts[0] not in ("FP", "TN", "FN")), "C19-fields", "PerceptionAnalyzer3D.format2dict", f"dispatch:object:{sts[0] if sts else 'other'}",
                      f"a bare object with status {sts[0] if sts else '(none of FP/TN/FN)'} {'raises' if raised else 'is tabulated'}; bare objects are FP estimates or TN / FN ground truths, anything else is an error", fi=fi)
        elif is_res is False and is_obj is False:
            rows.add("none" if is_none else "other")
            ctx.check(raised == (not is_none), "C19-fields", "PerceptionAnalyzer3D.format2dict", f"dispatch:{'none' if is_none else 'other'}", f"an input that is {'None' if is_none else 'neither a result nor an object'} {'raises' if raised else 'is tabulated'}", fi=fi)
    ctx.require({"result", "object:FP", "object:TN", "object:FN", "object:other", "none", "other"} <= rows, f"format2dict: dispatch rows {sorted(rows)}")
    # area index from the ego-frame position
    fa = ctx.func("tool.utils.get_area_idx")
    for p in enum_paths(ctx, fa):
        if p.exit != ("return",) or S(p.retval) == "None":
            continue
        is_obj = fact_where(p, lambda k: S(k) == "isinstance:object_result,DynamicObject")
        o = "object_result" if is_obj else "object_result.estimated_object"
        want = f"transforms.transform(TransformKey({o}.frame_id,FrameID.BASE_LINK),np.array({o}.state.position))"
        txt = S(p.retval)
        ctx.check(f"{want}[0]<upper_rights[:,0]" in txt and f"{want}[1]" in txt, "R-FRAME", "get_area_idx", "object" if is_obj else "result",
                  f"the area index is computed from `{txt[:200]}`; expected the position moved to BASE_LINK with key ({o}.frame_id, BASE_LINK)", fi=fa, expected=want, found=txt[:240])


def rule_errors(ctx: Ctx) -> None:
    fi = ctx.func(AB + "calculate_error")
    # `err` is read as a chain of assignments whether or not the yaw wrap writes into it in place
    paths = [p for p in enum_paths(ctx, fi, stateful_extra=frozenset({"err"})) if p.exit == ("return",)]
    lps = loops_of(paths)
    ctx.require(len(lps) >= 1, "calculate_error: column loop not found")
    lp = lps[0]
    col = U(lp.node.target)
    PAIR = "self.get_pair_results(df[df['status'].isin(['TP','FP','TN'])])"
    seen = set()
    for bp in lp.body:
        f = {S(k): v for k, v in bp.facts.items()}
        kind = "distance" if f.get(f"eq:{col}=='distance'") else "nn_plane" if f.get(f"eq:{col}=='nn_plane'") else "yaw" if f.get(f"eq:{col}=='yaw'") else "plain"
        # first definition of err
        errs = [e for e in bp.effects if e.kind == "assign" and e.recv == "err"]
        first = S(errs[0].value) if errs else S(bp.env.get("err")) if bp.env.get("err") is not None else ""
        if not first:
            continue
        seen.add(kind)
        m = re.match(r"^(.*)-(.*)$", first)
        ok = False
        # (when nothing writes into err in place, err is a pure value and `first` is the whole expression that ends up in the column: the difference is then a sub-expression of it)
        if kind in ("plain", "yaw"):
            ok = re.search(rf"np\.array\(self\.get_pair_results\([^()]*(?:\([^()]*\))*[^()]*\)\[0\]\[{col}\]\)-np\.array\(self\.get_pair_results\([^()]*(?:\([^()]*\))*[^()]*\)\[1\]\[{col}\]\)", first) is not None and first.count("[0][") == first.count("[1][")
        elif kind == "distance":
            ok = "np.array(" in first and "[0][['x','y']])-np.array(" in first and "[1][['x','y']])" in first and first.index("[0][['x','y']]") < first.index("[1][['x','y']]")
        else:
            ok = "np.stack((" in first and "[0]['nn_point1']" in first and "[1]['nn_point1']" in first and first.index("[0]['nn_point1']") < first.index("[1]['nn_point1']")
        ctx.check(ok, "C19-errors", "calculate_error", f"gt-minus-est:{kind}",
                  f"the {kind} error is `{first.replace(PAIR, 'PAIR')[:160]}`; reported errors are ground truth minus estimation over the paired rows", fi=fi,
                  expected="gt_arr - est_arr", found=first.replace(PAIR, "PAIR")[:200], sample={"column": kind, "err": "gt - est"})
        ctx.check("isin(['TP','FP','TN'])" in first, "C19-errors", "calculate_error", f"paired-rows:{kind}", "errors are not taken over the paired TP/FP/TN rows", fi=fi)
        if kind == "yaw":
            st = [(S(strip_v(e.recv)), e.kind, e.name, S(e.value)) for e in bp.effects if e.kind in ("store", "aug") and S(strip_v(e.recv)).startswith("err[")]
            want = {("err[np.pi<err]", "-2*np.pi"), ("err[err<-np.pi]", "2*np.pi")}
            got = set()
            F = Formula()
            for recv, knd, nm, val in st:
                m2 = re.match(r"^err\[(err<-np\.pi|np\.pi<err)\]$", recv)
                if not m2:
                    continue
                try:
                    if knd == "aug":
                        delta = F.parse_text(val) if nm == "Add" else -F.parse_text(val)
                    else:
                        delta = F.parse(ast.parse(val.replace(recv, "E"), mode="eval").body) - F.parse_text("E")
                    sh = "-2*np.pi" if delta.equals(F.parse_text("-2*pi")) else "2*np.pi" if delta.equals(F.parse_text("2*pi")) else f"other({val[:40]})"
                except (Unrecognised, SyntaxError):
                    sh = f"other({val[:40]})"
                got.add((recv, sh))
            if not st:
                # no in-place shift: the wrap is a re-assignment of err
                t = " ; ".join(strip_v(S(e.value)) for e in bp.effects if e.kind == "assign" and e.recv == "err" and "np.pi" in S(e.value))
                if "fmod(" in t:
                    ctx.violate("R-ANGLEWRAP", "calculate_error", "yaw-wrap",
                                "the yaw error is wrapped with fmod, which keeps the sign of the dividend: a difference below -pi stays below -pi (only the positive side is wrapped)", fi=fi,
                                expected="shift by -2*pi above pi and by +2*pi below -pi", found=t.replace(PAIR, "PAIR")[:160])
                    continue
                modular = re.fullmatch(r"\(err\+np\.pi\)%\(2\*np\.pi\)-np\.pi|np\.(?:mod|remainder)\(err\+np\.pi,2\*np\.pi\)-np\.pi", t) is not None
                ctx.require(modular, f"calculate_error: the yaw wrap `{t.replace(PAIR, 'PAIR')[:120]}` is neither the two in-place shifts nor (err + pi) % (2*pi) - pi")
                ctx.ok("R-ANGLEWRAP", "calculate_error", "yaw-wrap")
                continue
            ctx.check(got == want, "R-ANGLEWRAP", "calculate_error", "yaw-wrap",
                      f"the yaw error is wrapped by {sorted(got)}; it must be shifted by -2*pi above pi and by +2*pi below -pi (whole turns only)", fi=fi, expected=str(sorted(want)), found=str(sorted(got)))
    ctx.require({"plain", "yaw", "distance", "nn_plane"} <= seen, f"calculate_error: column kinds {sorted(seen)}")
    # after the difference: NaN removal iff asked, the norm of the kind, and the column's errors are kept
    POST = {"distance": ["err.reshape(-1,2)", "np.linalg.norm(err,axis=1)"], "nn_plane": ["err.reshape(-1,2,3)", "np.linalg.norm(err,axis=2)", "np.mean(err,axis=1)"], "yaw": [], "plain": []}
    for bp in lp.body:
        f = {S(k): v for k, v in bp.facts.items()}
        kind = "distance" if f.get(f"eq:{col}=='distance'") else "nn_plane" if f.get(f"eq:{col}=='nn_plane'") else "yaw" if f.get(f"eq:{col}=='yaw'") else "plain"
        rn = f.get("truthy:remove_nan")
        chain = [strip_v(S(e.value)) for e in bp.effects if e.kind == "assign" and e.recv == "err"][1:]
        if kind == "yaw":
            chain = [c for c in chain if "np.pi" not in c]  # the wrap written as a re-assignment is judged by R-ANGLEWRAP above
        want = (["err[~np.isnan(err)]"] if rn else []) + POST[kind]
        kept = [(S(a.recv), strip_v(S(a.args[0]))) for a in appends(bp)]
        if len(kept) == 1 and kept[0][0] == "errors" and kept[0][1] != "err" and "err" in kept[0][1]:
            # the last step handed straight to append (e.g. returned by a helper the post-processing was moved into) instead of being bound to err first
            chain, kept = chain + [kept[0][1]], [("errors", "err")]
        ctx.check(rn is not None and chain == want, "C19-errors", "calculate_error", f"post:{kind}:remove_nan={rn}",
                  f"after the difference the {kind} error goes through {chain}; expected {want} (NaN rows removed iff asked; distance = norm of the (x, y) difference, nn_plane = mean of the two corner distances)",
                  fi=fi, expected=str(want), found=str(chain))
        ctx.check(kept == [("errors", "err")], "C19-errors", "calculate_error", f"kept:{kind}:{rn}", f"the column's errors are kept as {kept}; expected errors.append(err)", fi=fi)
    # no paired rows -> empty result, nothing else returns early
    for p in paths:
        cd = {S(c[0]): c[1] for c in p.conds if isinstance(c, tuple)}
        none_pair = [v for k, v in cd.items() if k.startswith("none:self.get_pair_results(")]
        looped = any(e.kind == "loop" for e in p.effects)
        ctx.check(looped == (bool(none_pair) and not any(none_pair)), "C19-errors", "calculate_error", f"early-return:{int(looped)}:{len(none_pair)}",
                  f"errors are {'computed' if looped else 'not computed'} on a path where the paired tables are {'missing' if any(none_pair) else 'present'}", fi=fi)
    # summaries
    sq = A3 + "summarize_error.<locals>._summarize"
    ctx.require(ctx.index.has_func(sq), "summarize_error: helper _summarize not found")
    fs = ctx.func(sq)
    n = 0
    for p in enum_paths(ctx, fs):
        rv = p.retval
        if not (isinstance(rv, ast.Call) and S(rv.func) == "dict"):
            continue
        kw = {k.arg: S(k.value) for k in rv.keywords}
        if kw.get("average") == "np.nan":
            continue
        n += 1
        E = "self.calculate_error(_column,_df,remove_nan=True)"
        want = {"average": {f"np.average({E})", f"np.mean({E})"}, "rms": {f"np.sqrt(np.square({E}).mean())", f"np.sqrt(np.mean(np.square({E})))", f"np.sqrt(np.mean({E}**2))"},
                "std": {f"np.std({E})"}, "max": {f"np.max(np.abs({E}))"}, "min": {f"np.min(np.abs({E}))"}}
        for k, w in want.items():
            ctx.check(kw.get(k) in w, "C19-errors", "summarize_error._summarize", k, f"summary `{k}` is `{str(kw.get(k))[:120]}`; expected one of {sorted(w)[:1]}", fi=fs, expected=sorted(w)[0], found=str(kw.get(k))[:160])
    ctx.require(n >= 1, "summarize_error._summarize: value path not found")
    # ratios
    fr = ctx.func(AB + "summarize_ratio")
    rp = [p for p in enum_paths(ctx, fr) if p.exit == ("return",)]
    lps = loops_of(rp)
    ctx.require(len(lps) == 1, "summarize_ratio: label loop not found")
    F = Formula()
    done = set()
    for bp in lps[0].body:
        stores = {S(strip_v(e.recv)): e.value for e in bp.effects if e.kind == "store" and S(strip_v(e.recv)).startswith("data[")}
        if not stores:
            continue
        lab = "None" if fact_where(bp, lambda k: S(k).endswith("=='ALL'")) else "label"
        pick = [S(e.value) for e in bp.effects if e.kind in ("assign", "store")]
        dfa = "self.df" if any("df=self.df" in t for t in pick + [S(v) for v in stores.values()]) else "df"
        GT = f"self.get_num_ground_truth(df={dfa},label={lab})"
        TP, FP_, TN, FN = (f"self.get_num_{x}(df={dfa},label={lab})" for x in ("tp", "fp", "tn", "fn"))
        Fr = Formula(rename={GT: "gt", TP: "tp", FP_: "fp", TN: "tn", FN: "fn"})
        det0 = fact_where(bp, lambda k: S(k).startswith("eq:") and S(k).endswith("==0") and "get_num_tp" in S(k))
        spec = {"TP": "tp/gt", "TN": "tn/gt", "FN": "fn/gt", "FP": "0.0" if det0 else "fp/(tp+fp)"}
        for k, w in spec.items():
            key = [s for s in stores if s.startswith(f"data['{k}']")]
            ctx.require(len(key) == 1, f"summarize_ratio: store of the {k} ratio not found")
            try:
                ok = Fr.parse(stores[key[0]]).equals(Fr.parse_text(w))
            except Unrecognised:
                ok = False
            sig = (k, w, lab)
            if sig in done:
                continue
            done.add(sig)
            ctx.check(ok, "C19-errors", "summarize_ratio", f"{k}:{w}:{lab}", f"the {k} rate is `{S(stores[key[0]])[:120]}`; definition {w}", fi=fr, expected=w, found=S(stores[key[0]]).replace(GT, "gt")[:160], sample={"rate": k, "definition": w})
    ctx.require(len(done) >= 4, "summarize_ratio: ratio stores not analysed")
    # confusion matrix
    fc = ctx.func(AB + "get_confusion_matrix")
    for p in enum_paths(ctx, fc):
        if p.exit != ("return",) or S(p.retval) == "None":
            continue
        t = strip_v(S(p.retval))
        ok = "np.bincount(len(target_labels)*self.get_pair_results(df)[0]['label']" in t and "+self.get_pair_results(df)[1]['label']" in t and "minlength=len(target_labels)**2" in t and ".reshape(len(target_labels),len(target_labels))" in t
        ctx.check(ok, "C19-errors", "get_confusion_matrix", "bincount", f"the confusion matrix is `{t[:220]}`; expected bincount(n * gt_index + est_index, minlength=n^2) over the paired rows, reshaped to n x n", fi=fc)
    fpair = ctx.func(AB + "get_pair_results")
    for p in enum_paths(ctx, fpair):
        if p.exit != ("return",) or S(p.retval) == "(None,None)":
            continue
        t = S(p.retval)
        valid = "np.bitwise_and(~df.xs('ground_truth',level=1)['status'].isnull(),~df.xs('estimation',level=1)['status'].isnull())"
        ctx.check(t in (f"(df.xs('ground_truth',level=1)[{valid}],df.xs('estimation',level=1)[{valid}])", f"(self.df.xs('ground_truth',level=1)[{valid.replace('df.xs', 'self.df.xs')}],self.df.xs('estimation',level=1)[{valid.replace('df.xs', 'self.df.xs')}])"),
                  "C19-errors", "get_pair_results", f"paired:{len(p.conds)}", f"paired rows are `{t[:200]}`; expected the ground-truth and estimation rows whose statuses are both set", fi=fpair)


def rule_counts(ctx: Ctx) -> None:
    """Counting API: which side of the row pair and which status literal each count reads."""
    SIDE = {"tp": ("get_estimation", "TP"), "fp": ("get_estimation", "FP"), "tn": ("get_ground_truth", "TN"), "fn": ("get_ground_truth", "FN")}
    for k, (getter, lit) in SIDE.items():
        fi = ctx.func(AB + f"get_num_{k}")
        ps = [p for p in enum_paths(ctx, fi) if p.exit == ("return",)]
        ctx.require(len(ps) == 1, f"get_num_{k}: single return path expected")
        t = S(ps[0].retval)
        ok = t in (f"sum(self.{getter}(df=df,**kwargs)['status']=='{lit}')", f"(self.{getter}(df=df,**kwargs)['status']=='{lit}').sum()", f"int((self.{getter}(df=df,**kwargs)['status']=='{lit}').sum())")
        ctx.check(ok, "C19-counts", f"get_num_{k}", "side+status", f"get_num_{k} returns `{t[:140]}`; a {lit} item is counted on its {getter[4:]} row with status '{lit}' "
                  "(TP/FP items always carry an estimate, TN/FN items always carry a ground truth)", fi=fi, expected=f"sum(self.{getter}(df=df, **kwargs)['status'] == '{lit}')", found=t[:200], sample={"count": k, "side": getter, "status": lit})
    for name, getter in (("get_num_ground_truth", "get_ground_truth"), ("get_num_estimation", "get_estimation")):
        fi = ctx.func(AB + name)
        ps = [p for p in enum_paths(ctx, fi) if p.exit == ("return",)]
        t = S(ps[0].retval) if ps else ""
        ctx.check(len(ps) == 1 and t == f"len(self.{getter}(df=df,**kwargs))", "C19-counts", name, "len", f"{name} returns `{t[:120]}`; expected len(self.{getter}(df=df, **kwargs))", fi=fi)
    fi = ctx.func(AB + "get_status_num")
    seen = set()
    for p in enum_paths(ctx, fi):
        if p.exit != ("return",):
            continue
        st = [S(k).split("MatchingStatus.")[1] for k, v in p.facts.items() if v and S(k).startswith("eq:status==MatchingStatus.")]
        ctx.require(len(st) == 1, "get_status_num: dispatch idiom not recognised")
        seen.add(st[0])
        ctx.check(S(p.retval) in (f"self.get_num_{st[0].lower()}(df,**kwargs)", f"self.get_num_{st[0].lower()}(df=df,**kwargs)"), "C19-counts", "get_status_num", st[0],
                  f"status {st[0]} is counted by `{S(p.retval)}`", fi=fi, expected=f"self.get_num_{st[0].lower()}(df, **kwargs)", found=S(p.retval))
    ctx.check(seen == {"TP", "FP", "TN", "FN"}, "C19-counts", "get_status_num", "covers", f"get_status_num dispatches {sorted(seen)}", fi=fi)
    for getter, side in (("get_ground_truth", "ground_truth"), ("get_estimation", "estimation")):
        fi = ctx.func(AB + getter)
        for p in enum_paths(ctx, fi):
            if p.exit != ("return",):
                continue
            dfnone = any(isinstance(c, tuple) and S(c[0]) == "none:df" and c[1] for c in p.conds)
            lps = [e for e in p.effects if e.kind == "loop"]
            ctx.require(len(lps) == 1 and S(lps[0].text) == "kwargs.items()", f"{getter}: column-filter loop not recognised")
            pre = S(lps[0].pre.get("df")) if lps[0].pre.get("df") is not None else "df"
            base = "self.df" if dfnone else "df"
            want = f"{base}.xs('{side}',level=1)[~{base}.xs('{side}',level=1)['status'].isnull()]"
            ctx.check(pre == want and strip_v(S(p.retval)) == "df", "C19-counts", getter, f"side-rows:{dfnone}",
                      f"{getter} derives its rows by `{pre[:160]}`; expected the '{side}' row of every pair (level 1) with the placeholder rows (status null) removed", fi=fi, expected=want, found=pre[:200])
            kv, iv = [U(x) for x in lps[0].node.target.elts]
            for bp in lps[0].body:
                isn = fact_where(bp, lambda k: S(k) == f"none:{iv}")
                a = S(bp.env.get("df")) if bp.env.get("df") is not None else None
                if isn:
                    ctx.check(a is None, "C19-counts", getter, "filter:none", f"a None selection filters rows by {a}", fi=fi)
                else:
                    multi = fact_where(bp, lambda k: S(k) == f"isinstance:{iv},str") is False and fact_where(bp, lambda k: S(k) == f"isinstance:{iv},Iterable")
                    want2 = f"df[df[{kv}].isin({iv})]" if multi else f"df[df[{kv}]=={iv}]"
                    ctx.check(a == want2, "C19-counts", getter, f"filter:{'multi' if multi else 'single'}", f"selection `{kv}={iv}` keeps rows by `{a}`; expected `{want2}`", fi=fi)
    # placeholder rows: when a side is absent every column (status included) is None, so the side getters drop it
    fd = ctx.func(A3 + "format2dict")
    n = 0
    for p in enum_paths(ctx, fd):
        if p.exit != ("return",):
            continue
        for e in p.effects:
            if e.kind != "loop" or S(e.text) != "self.keys()":
                continue
            kv = U(e.node.target)
            for bp in e.body:
                st = [(strip_v(S(x.recv)), S(x.value)) for x in bp.effects if x.kind == "store"]
                nn = any(v for k, v in bp.facts.items() if S(k) in (f"eq:{kv}=='nn_point1'", f"eq:{kv}=='nn_point2'", f"in:{kv},('nn_point1','nn_point2')"))
                if nn:
                    continue
                n += 1
                ctx.check(len(st) == 1 and st[0][0] in (f"gt_ret[{kv}]", f"est_ret[{kv}]") and st[0][1] == "None", "C19-counts", "PerceptionAnalyzer3D.format2dict", "placeholder-row",
                          f"the placeholder row of an absent side stores {st}; every column (status included) must be None so that the row is not counted", fi=fd)
        if n > 8:
            break
    ctx.require(n >= 2, "format2dict: placeholder rows not found")


def rule_selection(ctx: Ctx) -> None:
    """analyze(scene, area, distance): a selection is applied iff it is given (0 is a valid scene / area index), and every table is computed from the selected rows."""
    fi = ctx.func(A3 + "analyze")
    paths = [p for p in enum_paths(ctx, fi) if p.exit == ("return",)]
    ctx.require(len(paths) >= 8, "analyze: paths")
    n = 0
    for p in paths:
        conds = [(S(c[0]), c[1]) for c in p.conds if isinstance(c, tuple)]
        sel: Dict[str, Optional[bool]] = {}
        for prm in ("scene", "area", "distance"):
            def direct(a: str) -> bool:
                b = a.split(":", 1)[1]
                return b == prm or re.match(rf"^{prm}(==|!=|<=|>=|<|>|is|in)", b) is not None or re.search(rf"(==|!=|<=|>=|<|>){prm}$", b) is not None

            atoms = [(a, v) for a, v in conds if direct(a)]
            bad = [a for a, v in atoms if a != f"none:{prm}"]
            ctx.check(not bad, "C19-selection", "PerceptionAnalyzer3D.analyze", f"{prm}:none-test",
                      f"whether the `{prm}` selection applies is decided by {bad}; it must be decided by `{prm} is not None` only (0 is a valid {prm}; a falsy value must still select)", fi=fi,
                      expected=f"{prm} is not None", found=str(bad), sample={"param": prm})
            sel[prm] = next((not v for a, v in atoms if a == f"none:{prm}"), None)
        ups = {}
        for e in p.effects:
            if e.kind == "call" and e.name == "update" and e.recv is not None and strip_v(S(e.recv)) == "kwargs" and e.args:
                m = re.match(r"^\{'(\w+)':(\w+)\}$", S(e.args[0]))
                if m:
                    ups[m.group(1)] = m.group(2)
            elif e.kind == "store":
                m = re.match(r"^kwargs\['(\w+)'\]$", strip_v(S(e.recv)))
                if m:
                    ups[m.group(1)] = strip_v(S(e.value))
        for prm in ("scene", "area"):
            if sel[prm] is None:
                continue
            ctx.check((ups.get(prm) == prm) == sel[prm], "C19-selection", "PerceptionAnalyzer3D.analyze", f"{prm}:applied:{sel[prm]}",
                      f"`{prm}` {'given' if sel[prm] else 'not given'} but the row filter receives {ups}", fi=fi)
        gets = [e for e in p.effects if e.kind == "call" and e.name == "get" and S(e.recv) == "self"]
        ctx.check(len(gets) == 1 and strip_v(S(gets[0].kwargs.get("**"))) == "kwargs", "C19-selection", "PerceptionAnalyzer3D.analyze", "rows", "the analysed rows are not self.get(**kwargs)", fi=fi)
        if not gets:
            continue
        base = f"self.get(**{S(gets[0].kwargs.get('**'))})"
        rows = f"self.filter_by_distance(distance,{base})" if sel["distance"] else base
        nonempty = next((v for a, v in conds if a in (f"truthy:{rows}", f"cmp:0<len({rows})")), None)
        summ = [e.name for e in p.effects if e.kind == "call" and e.name in ("summarize_ratio", "summarize_error", "get_confusion_matrix", "summarize_score") and S(e.recv) == "self"]
        ctx.check(nonempty is not None and (sorted(summ) == ["get_confusion_matrix", "summarize_error", "summarize_ratio", "summarize_score"]) == bool(nonempty) and (bool(summ) == bool(nonempty)),
                  "C19-selection", "PerceptionAnalyzer3D.analyze", f"tables-iff-rows:{nonempty}", f"with {'some' if nonempty else 'no'} selected rows the tables computed are {summ}; all four exactly when rows exist", fi=fi)
        for e in p.effects:
            if e.kind == "call" and e.name == "summarize_score" and S(e.recv) == "self":
                kws = {k: S(v) for k, v in e.kwargs.items()}
                sc = kws.get("scene", "")
                ctx.check(kws.get("distance") == "distance" and kws.get("area") == "area" and (sc in ("None", "scene") or sc.startswith("kwargs") and "pop('scene'" in sc), "C19-selection", "PerceptionAnalyzer3D.analyze", "score-selection",
                          f"the metric scores are summarised for {kws}; expected the same scene / distance / area selection", fi=fi)
        for e in p.effects:
            if e.kind == "call" and e.name in ("summarize_ratio", "summarize_error", "get_confusion_matrix") and S(e.recv) == "self":
                n += 1
                got = S(e.kwargs.get("df")) if "df" in e.kwargs else (S(e.args[0]) if e.args else "None")
                ctx.check(strip_v(got) == strip_v(rows), "C19-selection", "PerceptionAnalyzer3D.analyze", f"{e.name}:distance={sel['distance']}",
                          f"{e.name} is computed from `{got[:120]}`; expected the selected rows `{rows}`", fi=fi, expected=rows, found=got[:160])
    ctx.require(n >= 6, "analyze: summary calls not found")
    # analyzer-wide: an index-valued optional selection (scene / area number, 0 is valid) is never tested by truthiness
    k = 0
    for qn, f in sorted(ctx.index.functions.items()):
        if not qn.startswith("perception_eval.tool.") or ".<locals>." in qn:
            continue
        prms = {}
        for a in f.node.args.args + f.node.args.kwonlyargs:
            if a.annotation is None:
                continue
            t = ast.unparse(a.annotation).replace(" ", "")
            if t.startswith("Optional[") and re.search(r"\bint\b", t) and not re.search(r"\b(str|bool|float)\b", t) and t not in ("Optional[List[int]]",):
                prms[a.arg] = t
        if not prms:
            continue
        ctx.touch(f)
        for prm, t in prms.items():
            k += 1
            bad = []
            for nd in ast.walk(f.node):
                if isinstance(nd, (ast.If, ast.IfExp, ast.While, ast.Assert)):
                    stack = [nd.test]
                    while stack:
                        x = stack.pop()
                        if isinstance(x, ast.Name) and x.id == prm:
                            bad.append(nd.lineno)
                        elif isinstance(x, ast.UnaryOp) and isinstance(x.op, ast.Not):
                            stack.append(x.operand)
                        elif isinstance(x, ast.BoolOp):
                            stack.extend(x.values)
            ctx.check(not bad, "C19-selection", f.qualname.split("tool.", 1)[1], f"{prm}:none-test",
                      f"the optional index `{prm}: {t}` is tested by truthiness (line(s) {bad}); 0 is a valid index, the test must be `is None` / `is not None`", fi=f)
    ctx.require(k >= 4, f"C19-selection: only {k} optional index parameters found in tool/ (hand-confirmed minimum 4)")
    # the row filter itself: both rows of a pair are kept iff either matches
    ff = ctx.func(AB + "filter")
    for p in enum_paths(ctx, ff):
        if p.exit != ("return",):
            continue
        lps = [e for e in p.effects if e.kind == "loop" and S(e.text) == "kwargs.items()"]
        ctx.require(len(lps) == 1, "filter: selection loop not recognised")
        pre_mask = S(lps[0].pre.get("mask")) if lps[0].pre.get("mask") is not None else [S(e.value) for e in p.effects if e.kind == "assign" and e.recv == "mask"][:1]
        ctx.check(pre_mask in ("np.ones(len(self),dtype=np.bool8)", ["np.ones(len(self),dtype=np.bool8)"], "np.ones(len(self),dtype=bool)", ["np.ones(len(self),dtype=bool)"]), "C19-selection", "filter", "mask-init",
                  f"the row mask starts as {pre_mask}; expected all rows selected", fi=ff)
        rv = strip_v(S(p.retval))
        ctx.check(rv in ("self.df[mask]", "self.df[mask][list(args)]", "df", "df[mask]", "df[mask][list(args)]"), "C19-selection", "filter", f"returns:{rv}", f"filter returns `{rv}`; expected the masked table", fi=ff)
        kv, iv = [U(x) for x in lps[0].node.target.elts]
        for bp in lps[0].body:
            isn = fact_where(bp, lambda k: S(k) == f"none:{iv}")
            augs = [(x.name, S(x.value)) for x in bp.effects if x.kind == "aug" and strip_v(S(x.recv)) == "mask"]
            if isn:
                ctx.check(not augs, "C19-selection", "filter", "none", f"a None selection narrows the mask by {augs}", fi=ff)
                continue
            multi = fact_where(bp, lambda k: S(k) == f"isinstance:{iv},str") is False and fact_where(bp, lambda k: S(k) == f"isinstance:{iv},Iterable")
            cm = f"self.df[{kv}].isin({iv})" if multi else f"(self.df[{kv}]=={iv})"
            want = [("Mult", f"{cm}.groupby(level=0).any().repeat(2).values")]
            ctx.check([(a, strip_v(b)) for a, b in augs] == want, "C19-selection", "filter", "multi" if multi else "single",
                      f"selection `{kv}={iv}` narrows the mask by {augs}; expected {want} (a pair is kept when either of its rows matches)", fi=ff, expected=str(want), found=str(augs))


def rule_summaries(ctx: Ctx) -> None:
    """summarize_error: per label, every state column is summarised over that label's paired rows (ALL: the selected rows), NaN exactly when there is nothing to summarise."""
    for cls, cols in ((A3, ("x", "y", "yaw", "length", "width", "vx", "vy", "speed", "nn_plane")), ("tool.perception_analyzer2d.PerceptionAnalyzer2D.", ("x", "y", "width", "height"))):
        fi = ctx.func(cls + "summarize_error")
        short = cls.split(".")[-2] + ".summarize_error"
        for p in enum_paths(ctx, fi):
            dfn = next((c[1] for c in p.conds if isinstance(c, tuple) and S(c[0]) == "none:df"), None)
            ctx.require(dfn is not None, f"{short}: the `df is None` default was not recognised")
            base = "self.df" if dfn else "df"
            lps = [e for e in p.effects if e.kind == "loop"]
            ctx.require(len(lps) == 1 and S(lps[0].text) == "self.all_labels", f"{short}: the label loop was not recognised")
            lv = U(lps[0].node.target)
            per_label = f"self.df.loc[pd.unique(self.get_ground_truth(df={base},label={lv},status=['TP','FP','TN']).index.get_level_values(level=0))]"
            for bp in lps[0].body:
                cd = {S(c[0]): c[1] for c in bp.conds if isinstance(c, tuple)}
                is_all = cd.get(f"eq:{lv}=='ALL'")
                ctx.require(is_all is not None, f"{short}: the `ALL` test was not recognised")
                has = next((v for k, v in cd.items() if k.startswith("truthy:pd.unique(self.get_ground_truth(")), None)
                rows = base if is_all else per_label if has else "pd.DataFrame()" if has is False else None
                st = [(S(strip_v(e.recv)), S(e.value)) for e in bp.effects if e.kind == "store"]
                want = [(f"data['{c}']", f"_summarize('{c}',{rows})") for c in cols] + [(f"all_data[str({lv})]", "data")]
                tag = "ALL" if is_all else f"label:{'rows' if has else 'empty'}"
                mcomp = re.match(r"^\{(\w+):_summarize\(\1,(.*)\)for\1in[\(\[](.*?),?[\)\]]\}$", st[0][1]) if len(st) == 1 and st[0][0] == f"all_data[str({lv})]" else None
                if mcomp:
                    # the same table written as a dict comprehension over the literal column names
                    ccols = [c.strip("'\"") for c in mcomp.group(3).split(",")]
                    st = [(f"data['{c}']", f"_summarize('{c}',{mcomp.group(2)})") for c in ccols] + [(f"all_data[str({lv})]", "data")]
                elif any(v.startswith("{") and "for" in v for _, v in st):
                    ctx.require(False, f"{short}: the per-label summaries are built by a comprehension that is not recognised ({st[0][1][:80]})")
                ctx.check(rows is not None and st == want, "C19-errors", short, f"columns:{tag}:{int(bool(dfn))}",
                          f"for {tag} the summaries are {[x for x in st if x not in want][:2] or 'missing ' + str([x for x in want if x not in st][:2])}; expected every state column summarised over "
                          f"{'the selected rows' if is_all else 'the pairs whose ground truth has this label'} and stored under the label", fi=fi, expected=str(want[:2]), found=str(st[:2]))
        fq = ctx.func(cls + "summarize_error.<locals>._summarize")
        n = 0
        for p in enum_paths(ctx, fq):
            rv = p.retval
            if not (isinstance(rv, ast.Call) and S(rv.func) == "dict"):
                continue
            kw = {k.arg: S(k.value) for k in rv.keywords}
            cd = {S(c[0]): c[1] for c in p.conds if isinstance(c, tuple)}
            empty = any(v is False for k, v in cd.items() if k.startswith("truthy:")) or any(v for k, v in cd.items() if k.startswith("eq:len(") and k.endswith("==0"))
            odd = [k for k in cd if not (k.startswith("truthy:") or (k.startswith("eq:len(") and k.endswith("==0")))]
            n += 1
            ctx.check(not odd and (set(kw.values()) == {"np.nan"}) == empty and set(kw) == {"average", "rms", "std", "max", "min"}, "C19-errors", short + "._summarize", f"nan-iff-empty:{int(empty)}:{len(cd)}",
                      f"with {'no' if empty else 'some'} rows / errors the summary is {dict(list(kw.items())[:2])} (keys {sorted(kw)}); expected all five statistics, NaN exactly when there is nothing to summarise", fi=fq)
        ctx.require(n >= 3, f"{short}._summarize: only {n} paths")


def rule_status_record(ctx: Ctx) -> None:
    """GroundTruthStatus.add_status: every call records the frame in the total list and in exactly the list of its status (no de-duplication: frame numbers
    restart per scene, the same ground truth is legitimately seen again with the same number)."""
    fi = ctx.func("common.status.GroundTruthStatus.add_status")
    rows = set()
    for p in enum_paths(ctx, fi):
        f = {S(k): v for k, v in p.facts.items()}
        sts = [k.split("MatchingStatus.")[1] for k, v in f.items() if k.startswith("eq:status==MatchingStatus.") and v]
        other = [k for k in f if not k.startswith("eq:status==MatchingStatus.")]
        ctx.check(not other, "C19-status-record", "GroundTruthStatus.add_status", f"depends-on:{other[0][:40] if other else ''}",
                  f"whether a status is recorded depends on `{other[0] if other else ''}`; every call must be recorded (the tally is per evaluated frame, frame numbers are not unique across scenes)", fi=fi)
        if other:
            continue
        ap = [(S(a.recv), S(a.args[0])) for a in appends(p)]
        if not sts:
            rows.add("other")
            ctx.check(bool(p.exit) and p.exit[0] == "raise", "C19-status-record", "GroundTruthStatus.add_status", "unknown-status", "an unknown status is accepted", fi=fi)
            continue
        st = sts[0]
        rows.add(st)
        want = [("self.total_frame_nums", "frame_num"), (f"self.{st.lower()}_frame_nums", "frame_num")]
        ctx.check(sorted(ap) == sorted(want) and p.exit in (("fall",), ("return",), None), "C19-status-record", "GroundTruthStatus.add_status", st, f"status {st} is recorded by {ap}; expected {want}", fi=fi, expected=str(want), found=str(ap))
    ctx.require({"TP", "FP", "TN", "FN"} <= rows, f"GroundTruthStatus.add_status: rows {sorted(rows)}")
    # `df=None` means "the whole table" and nothing else does: an EMPTY selection stays empty
    n = 0
    for qn, f in sorted(ctx.index.functions.items()):
        if not qn.startswith("perception_eval.tool."):
            continue
        for nd in ast.walk(f.node):
            if isinstance(nd, ast.If) and any(isinstance(b, ast.Assign) and S(b.value) == "self.df" and len(b.targets) == 1 and S(b.targets[0]) == "df" for b in nd.body):
                n += 1
                ctx.touch(f)
                ctx.check(S(nd.test) in ("dfisNone", "Noneisdf"), "C19-selection", qn.split("tool.", 1)[1], "df-default", f"the whole table is substituted when `{ast.unparse(nd.test)}`; only `df is None` means `no selection` - an empty selection must stay empty "
                          "(otherwise the summaries of an empty scene / area silently show the other scenes' rows)", fi=f, expected="df is None", found=ast.unparse(nd.test))
    ctx.require(n >= 8, f"C19-selection: only {n} `df = self.df` defaulting sites found in tool/ (hand-confirmed minimum 8)")


def run(ctx: Ctx) -> None:
    from rules import generic as _G
    ctx.run(_G.rule_arity, ("perception_eval.tool",), "R-ARITY", 60)
    ctx.run(rule_emission)
    ctx.run(rule_fields)
    ctx.run(rule_errors)
    ctx.run(rule_counts)
    ctx.run(rule_selection)
    ctx.run(rule_status_record)
    ctx.run(rule_summaries)
    ctx.run(C03.rule_critical)  # the lists tabulated are computed from the CRITICAL ground truth (count = number of critical ground truths)
    ctx.run(G.rule_tf, ("perception_eval.tool",), "R-TF", None, 3)
