"""C04 – AP / APH / mAP equal the interpolated precision-recall area."""
from __future__ import annotations

import ast
import re
from typing import Dict, List, Optional, Tuple

from sa.formula import Formula, Unrecognised
from sa.paths import Path, U, strip_v
from sa.report import Ctx
from rules import generic as G
from rules.common import label_ok, flatten_check, S, appends, enum_paths, fact_where, find_calls, label_source, loops_of

EXPLANATION = (
    "Decides: (1) ranking – the list handed to Ap._calculate_tp_fp is ordered by one stable sort whose key is the estimate's "
    "confidence, descending, with no later reordering; (2) TP/FP marking – per ranked result exactly one of `tp_list[i] = weight` / "
    "`fp_list[i] = 1.0` (or the skip for labels without a threshold), TP iff is_result_correct with the threshold looked up by the ground "
    "truth's label (a mark stored on a path that never asked is_result_correct is reported), both lists cumulated with np.cumsum; (3) formulas – precision_i = tp_i/(i+1), recall_i = tp_i/num_gt (0 without "
    "ground truth), AP = sum p_i (r_i - r_{i+1}) over consecutive envelope points, AP = inf without results, mAP/mAPH = mean over the "
    "finite APs; (4) TP weights lie in [0,1] (constant 1 or an expression clamped by min(1, max(0, .))), hence APH <= AP, the heading "
    "weight is 1 - d/pi; (5) Map aligns labels, thresholds, result buckets and ground-truth counts, and AP and APH of a label receive "
    "identical inputs; divide_objects and divide_objects_to_num select labels by the same table; (6) the precision envelope idiom of "
    "interpolate_precision_recall_list (start at the last point, scan backwards, keep a point iff its precision strictly exceeds the "
    "running maximum, recall of the same index, final point at recall 0); (7) the frame wiring that keeps TP <= GT (R-KW / R-TF on "
    "evaluate_frame). (shared with C03) the decision table of is_result_correct, which is what marks a result as TP. Does not decide: that the running-maximum scan equals 'max precision at any higher recall' for every ranking "
    "(an equivalence over runtime lists), the value bounds [0,1] / AP = 1 / AP = 0 as values."
)

AP = "evaluation.metrics.detection.ap.Ap."
OF = "evaluation.matching.objects_filter."


def rule_ranking(ctx: Ctx) -> None:
    fi = ctx.func(AP + "__init__")
    paths = enum_paths(ctx, fi)
    n = 0
    for p in paths:
        sorts = [(i, e) for i, e in enumerate(p.effects) if e.kind == "call" and e.name in ("sort", "reverse", "shuffle") and e.recv]
        tpfp = [(i, e) for i, e in enumerate(p.effects) if e.kind == "call" and e.name == "_calculate_tp_fp"]
        ctx.require(len(tpfp) == 1, "Ap.__init__: _calculate_tp_fp is not called exactly once")
        ti, te = tpfp[0]
        ranked = te.kwargs.get("object_results") or (te.args[1] if len(te.args) > 1 else None)
        ctx.require(ranked is not None, "Ap.__init__: the list given to _calculate_tp_fp was not found")
        rname = strip_v(S(ranked))
        n += 1
        before = [(i, e) for i, e in sorts if i < ti and e.recv == rname]
        ordered = None
        if isinstance(ranked, ast.Call) and S(ranked.func) == "sorted":
            ordered = ranked
        else:
            asg = [e for i, e in enumerate(p.effects) if i < ti and e.kind == "assign" and e.recv == rname]
            if asg and isinstance(asg[-1].value, ast.Call) and S(asg[-1].value.func) == "sorted" and not before:
                src0 = asg[-1].value.args[0] if asg[-1].value.args else None
                if src0 is not None and strip_v(S(src0)) == rname:
                    ordered = asg[-1].value
        inst = "nested" if p.facts.get("isinstance:object_results[0],list") else "flat"
        if ordered is None:
            ok1 = len(before) == 1 and before[0][1].name == "sort"
            ctx.check(ok1, "C04-ranking", "Ap.__init__", f"sorted-once:{inst}",
                      f"the list handed to _calculate_tp_fp (`{rname}`) is reordered by {[e.name for _, e in before] or 'nothing'} before the call; it must be sorted exactly once by confidence",
                      fi=fi, expected="one list.sort(key=confidence, reverse=True)", found=str([e.text[:60] for _, e in before]))
            if not ok1:
                continue
            call = before[0][1]
            key, rev = call.kwargs.get("key"), call.kwargs.get("reverse")
        else:
            kw = {k.arg: k.value for k in ordered.keywords}
            key, rev = kw.get("key"), kw.get("reverse")
        desc = None
        kt = ""
        if isinstance(key, ast.Lambda) and len(key.args.args) == 1:
            a = key.args.args[0].arg
            kt = S(key.body)
            if kt == f"{a}.estimated_object.semantic_score":
                desc = isinstance(rev, ast.Constant) and rev.value is True
            elif kt == f"-{a}.estimated_object.semantic_score":
                desc = rev is None or (isinstance(rev, ast.Constant) and rev.value is False)
        ctx.check(desc is True, "C04-ranking", "Ap.__init__", f"key:{inst}",
                  f"results are ranked with key `{S(key) if key is not None else None}` reverse={S(rev) if rev is not None else None}; AP needs descending confidence of the estimate (stable sort)",
                  fi=fi, expected="key=lambda x: x.estimated_object.semantic_score, reverse=True", found=f"key={kt or (S(key) if key is not None else None)}, reverse={S(rev) if rev is not None else None}",
                  sample={"key": kt, "reverse": S(rev) if rev is not None else None})
        # the ranked list is what was collected from the input (flat or nested): every frame's list, each result once
        flatten_check(ctx, "C04-ranking", "Ap.__init__", fi, p, ti, rname)
        if inst == "nested":
            lps = [e for i, e in enumerate(p.effects) if i < ti and e.kind == "loop"]
            if lps:
                ctx.check(len(lps) == 1 and S(lps[0].text) == "object_results", "C04-ranking", "Ap.__init__", "collects-all-frames",
                          f"the per-frame lists are collected by iterating `{S(lps[0].text)[:60]}`; expected every list of object_results", fi=fi)
    ctx.require(n >= 2, "Ap.__init__: fewer than two paths analysed")
    # the caller's lists may be reordered (the flat list is sorted in place) but never grow, shrink or be rebound: the same container is scored
    # several times (AP, APH, every threshold) and must hold each result once every time
    from sa.effects import Effects
    ef = Effects(ctx.index, ctx.resolver)
    ef.solve()
    for (prm, path), m in ef.of(fi).mutates.items():
        if prm != "object_results":
            continue
        ctx.check(m.how in (".sort()", ".reverse()") and path == "", "C04-ranking", "Ap.__init__", f"input-membership:{path or 'list'}",
                  f"Ap.__init__ changes its input `object_results{path}` by {m.how} (line {m.line}): the caller's per-frame lists are shared by the AP and APH computations of every threshold, "
                  "growing one makes later scores count results twice", fi=fi, expected="only an in-place reorder of the flat list", found=f"{m.how} on object_results{path}")
    # AP is inf exactly without results
    for p in paths:
        st = [e for e in p.effects if e.kind == "store" and strip_v(e.recv) == "self.ap"]
        ctx.require(len(st) == 1, "Ap.__init__: self.ap is not assigned exactly once per path")
        has = fact_where(p, lambda k: k.startswith("cmp:0 < len(") or strip_v(S(k)) == "truthy:all_object_results")
        if has is None:
            odd = [S(k) for k in p.facts if "len(all_object_results" in strip_v(S(k)) or "len(object_results" in strip_v(S(k))]
            odd = [k for k in odd if k.startswith(("cmp:", "eq:"))]
            if odd:
                ctx.violate("C04-ranking", "Ap.__init__", "ap-guard", f"whether AP is defined is decided by `{odd[0][:80]}`; it must be `0 < len(results)` (AP is undefined exactly when the label has no result)", fi=fi,
                            expected="0 < len(all_object_results)", found=odd[0][:100])
                continue
        ctx.require(has is not None, "Ap.__init__: the `no results` test was not recognised")
        v = S(st[0].value)
        if has:
            ok = v == "self._calculate_ap(self.get_precision_recall_list()[0],self.get_precision_recall_list()[1])"
            ctx.check(ok, "C04-ranking", "Ap.__init__", "ap-source", f"self.ap = `{v[:100]}`; it must be _calculate_ap(precision list, recall list) of get_precision_recall_list()", fi=fi)
        else:
            ctx.check(v == "float('inf')", "C04-ranking", "Ap.__init__", "ap-undefined", f"without results self.ap = `{v[:60]}`; it must be undefined (inf) so that mAP skips the label", fi=fi)


def rule_marking(ctx: Ctx) -> None:
    fi = ctx.func(AP + "_calculate_tp_fp")
    paths = enum_paths(ctx, fi)
    lps = loops_of(paths)
    ctx.require(len(lps) == 1, "Ap._calculate_tp_fp: expected one loop")
    lp = lps[0]
    ctx.require(S(lp.text) == "enumerate(object_results)", f"Ap._calculate_tp_fp iterates `{lp.text}` – the ranked list must be walked in order")
    ivar, rvar = [U(x) for x in lp.node.target.elts]
    kinds = set()
    for bp in lp.body:
        thr_none = fact_where(bp, lambda k: k.startswith("none:get_label_threshold("))
        thr_truthy = fact_where(bp, lambda k: k.startswith(("truthy:get_label_threshold(", "call:get_label_threshold(")))
        if thr_none is None and thr_truthy is not None:
            ctx.violate("C04-marking", "Ap._calculate_tp_fp", "threshold-tested-by-truthiness", "the per-label threshold is tested by truthiness: a threshold of exactly 0 (the loosest IoU threshold, the strictest distance) "
                        "is treated as `no threshold for this label` and the result is skipped; the test must be `is None`", fi=fi, expected="matching_threshold_ is None", found="not matching_threshold_")
            continue
        correct = fact_where(bp, lambda k: k.startswith(f"call:{rvar}.is_result_correct("))
        st = [e for e in bp.effects if e.kind == "store" and re.match(r"^(tp_list|fp_list)\[", strip_v(e.recv))]
        tag = f"thr_none={thr_none},correct={correct}"
        if thr_none is True:
            kinds.add("skip")
            ctx.check(not st, "C04-marking", "Ap._calculate_tp_fp", "skip", "a result whose label has no threshold is marked", fi=fi)
            continue
        if thr_none is False and correct is None and st:
            ctx.violate("C04-marking", "Ap._calculate_tp_fp", "marked-without-judgement",
                        f"on [{bp.cond_text()[:160]}] a ranked result is marked ({', '.join(strip_v(e.recv) + ' = ' + S(e.value) for e in st)}) without is_result_correct having been asked: "
                        "TP / FP is decided by something other than the matching judgement (mode, threshold, label) that the frame-level counts use", fi=fi,
                        expected="tp_list[i] / fp_list[i] stored only after obj_result.is_result_correct(matching_mode, matching_threshold)", found="store on a path without is_result_correct")
            continue
        ctx.require(thr_none is False and correct is not None, f"Ap._calculate_tp_fp: path [{bp.cond_text()[:80]}] not over (threshold None, is_result_correct)")
        ok = len(st) == 1
        ctx.check(ok, "C04-marking", "Ap._calculate_tp_fp", f"once:{tag}", f"a ranked result is marked {len(st)} times ({[strip_v(e.recv) for e in st]}); exactly one of tp_list[i] / fp_list[i]", fi=fi)
        if not ok:
            continue
        e = st[0]
        tgt = S(strip_v(e.recv))
        if correct:
            kinds.add("tp")
            ok = tgt == f"tp_list[{ivar}]" and S(e.value) == f"tp_metrics.get_value({rvar})"
            ctx.check(ok, "C04-marking", "Ap._calculate_tp_fp", "tp", f"a correct result stores `{tgt} = {S(e.value)}`; it must store tp_list[i] = tp_metrics.get_value(result)", fi=fi,
                      expected=f"tp_list[{ivar}] = tp_metrics.get_value({rvar})", found=f"{tgt} = {S(e.value)}")
        else:
            kinds.add("fp")
            ok = tgt == f"fp_list[{ivar}]" and S(e.value) in ("1.0", "1")
            ctx.check(ok, "C04-marking", "Ap._calculate_tp_fp", "fp", f"an incorrect result stores `{tgt} = {S(e.value)}`; it must store fp_list[i] = 1.0", fi=fi)
        for c in find_calls(bp, "get_label_threshold"):
            a = c.kwargs.get("semantic_label") or (c.args[0] if c.args else None)
            ok_l, src = label_ok(ctx, bp, a, rvar) if a is not None else (False, "none")
            ctx.require(ok_l is not None, f"Ap._calculate_tp_fp: the label used for the threshold look-up (`{S(a)[:80]}`) is not recognised")
            ctx.check(ok_l, "R-THRLABEL", "Ap._calculate_tp_fp", "matching-threshold",
                      f"the threshold is looked up with `{S(a) if a is not None else None}` ({src}); it must be the ground truth's label (the estimate's only without ground truth)", fi=fi)
        for c in [x for x in bp.effects if x.kind in ("call", "ccall") and x.name == "is_result_correct"]:
            mm = c.kwargs.get("matching_mode") or (c.args[0] if c.args else None)
            ctx.check(mm is not None and S(mm) == "self.matching_mode", "C04-marking", "Ap._calculate_tp_fp", "mode", f"correctness is judged in mode `{S(mm) if mm is not None else None}`", fi=fi)
        for c in [x for x in bp.effects if x.kind in ("call", "ccall") and x.name == "is_result_correct"]:
            th = c.kwargs.get("matching_threshold") or (c.args[1] if len(c.args) > 1 else None)
            ctx.check(th is not None and S(th).startswith("get_label_threshold("), "C04-marking", "Ap._calculate_tp_fp", "threshold-passed",
                      f"correctness is judged with matching_threshold={S(th) if th is not None else 'the default (None: label agreement only)'}; it must be the threshold looked up for the result's label", fi=fi)
    ctx.require(kinds == {"skip", "tp", "fp"}, f"Ap._calculate_tp_fp: path kinds {sorted(kinds)}")
    # decision rows of the whole function: no results & no GT -> ([], []); no results & GT -> all-zero TP with growing FP (precision 0); results -> the marking loop over zero-initialised lists
    rows = set()
    for p in paths:
        cd = {S(c[0]): c[1] for c in p.conds if isinstance(c, tuple)}
        has = cd.get("truthy:object_results")
        ctx.require(has is not None, "Ap._calculate_tp_fp: the `no results` test was not recognised")
        looped = any(e.kind == "loop" for e in p.effects)
        asg = [(e.recv, e.value) for e in p.effects if e.kind == "assign"]
        if has:
            rows.add("results")
            ctx.check(looped, "C04-marking", "Ap._calculate_tp_fp", "results:marked", "with results present the function returns without marking them", fi=fi)
            first = {}
            for k, v in asg:
                first.setdefault(k, v)
            for name in ("tp_list", "fp_list"):
                v = first.get(name)
                ok = isinstance(v, ast.ListComp) and S(v.elt) in ("0.0", "0") and S(v.generators[0].iter) in ("range(self.objects_results_num)", "range(len(object_results))", "object_results")
                ok = ok or (isinstance(v, ast.BinOp) and isinstance(v.op, ast.Mult) and S(v.left) in ("[0.0]", "[0]") and S(v.right) in ("self.objects_results_num", "len(object_results)"))
                ctx.check(ok, "C04-marking", "Ap._calculate_tp_fp", f"zero-init:{name}", f"{name} starts as `{S(v)[:80] if v is not None else None}`; expected one 0.0 per ranked result (unmarked results count neither as TP nor FP)", fi=fi)
            continue
        ctx.check(not looped, "C04-marking", "Ap._calculate_tp_fp", "no-results:not-marked", "without results the marking loop is entered", fi=fi)
        g0 = cd.get("eq:self.num_ground_truth==0")
        ctx.require(g0 is not None, "Ap._calculate_tp_fp: the `no ground truth` test of the no-results branch was not recognised")
        rv = S(p.retval)
        if g0:
            rows.add("none")
            ctx.check(rv == "([],[])", "C04-marking", "Ap._calculate_tp_fp", "no-results:no-gt", f"returns `{rv[:60]}`; expected ([], [])", fi=fi)
        else:
            rows.add("gt-only")
            d = dict((k, S(v)) for k, v in asg)
            # the two returned lists, whether they are named first or returned as expressions (e.g. from a helper that was inlined)
            rt = p.retval
            ctx.require(isinstance(rt, ast.Tuple) and len(rt.elts) == 2, f"Ap._calculate_tp_fp: the no-results branch returns `{rv[:60]}`, not a pair")
            tpv, fpv = [d.get(strip_v(S(x)), strip_v(S(x))) for x in rt.elts]
            ctx.check(tpv in ("[0.0]*self.num_ground_truth", "[0]*self.num_ground_truth") and fpv.startswith("np.arange(1,self.num_ground_truth+1"),
                      "C04-marking", "Ap._calculate_tp_fp", "no-results:gt", f"without results but with ground truth the lists are tp={tpv[:50]}, fp={fpv[:50]}; expected all-zero TP and FP = 1..GT (precision 0, AP 0)", fi=fi)
    ctx.require(rows == {"results", "none", "gt-only"}, f"Ap._calculate_tp_fp: rows {sorted(rows)}")
    # cumulative sums, in that order, returned as (tp, fp)
    main = [p for p in paths if any(e.kind == "loop" for e in p.effects)]
    for p in main:
        idx = max(i for i, e in enumerate(p.effects) if e.kind == "loop")
        asg = {e.recv: S(e.value) for e in p.effects[idx + 1:] if e.kind == "assign"}
        for name in ("tp_list", "fp_list"):
            ctx.check(asg.get(name) == f"np.cumsum({name}).tolist()", "C04-marking", "Ap._calculate_tp_fp", f"cumsum:{name}",
                      f"{name} after the loop is `{asg.get(name)}`; it must be its own cumulative sum", fi=fi)
        rv = p.retval
        ctx.check(isinstance(rv, ast.Tuple) and [strip_v(S(x)) for x in rv.elts] == ["tp_list", "fp_list"], "C04-marking", "Ap._calculate_tp_fp", "returns", "does not return (tp_list, fp_list)", fi=fi)


def rule_formulas(ctx: Ctx) -> None:
    fi = ctx.func(AP + "get_precision_recall_list")
    paths = enum_paths(ctx, fi)
    lps = loops_of(paths)
    ctx.require(len(lps) == 1, "get_precision_recall_list: expected one loop")
    lp = lps[0]
    ivar = U(lp.node.target)
    ren = {}
    if S(lp.text) == "enumerate(self.tp_list)" and isinstance(lp.node.target, ast.Tuple) and len(lp.node.target.elts) == 2:
        # the same walk over every rank, with the element named
        ivar, ren = U(lp.node.target.elts[0]), {U(lp.node.target.elts[1]): "tp_i"}
    else:
        ctx.require(S(lp.text).startswith("range("), f"get_precision_recall_list: loop header `{S(lp.text)}` not recognised")
        ctx.check(re.match(r"^range\(len\((precisions_list|self\.tp_list|recalls_list)\)\)$", S(lp.text)) is not None or S(lp.text) == "range(len(self.tp_list))", "C04-formula", "get_precision_recall_list", "range",
                  f"the loop runs over `{S(lp.text)}` instead of every rank", fi=fi)
    F = Formula(rename=dict({f"self.tp_list[{ivar}]": "tp_i", ivar: "i", "self.num_ground_truth": "ngt"}, **ren))
    for bp in lp.body:
        gt_pos = fact_where(bp, lambda k: k in ("cmp:0 < self.num_ground_truth", "cmp:1 <= self.num_ground_truth") or k == "truthy:self.num_ground_truth")
        if gt_pos is None:
            z = fact_where(bp, lambda k: k == "eq:self.num_ground_truth==0")
            gt_pos = None if z is None else (not z)
        ctx.require(gt_pos is not None, f"get_precision_recall_list: ground-truth-count test not recognised [{bp.cond_text()}]")
        st = {S(strip_v(e.recv)): e.value for e in bp.effects if e.kind == "store"}
        pr, rc = st.get(f"precisions_list[{ivar}]"), st.get(f"recalls_list[{ivar}]")
        ctx.require(pr is not None and rc is not None, "get_precision_recall_list: stores into precisions_list[i] / recalls_list[i] not found")
        try:
            okp = F.parse(pr).equals(F.parse_text("tp_i / (i + 1)"))
            okr = F.parse(rc).equals(F.parse_text("tp_i / ngt" if gt_pos else "0"))
        except Unrecognised as exc:
            ctx.require(False, f"get_precision_recall_list: {exc}")
        ctx.check(okp, "C04-formula", "get_precision_recall_list", f"precision:gt={int(gt_pos)}", f"precision at rank i is `{S(pr)}`; definition: cumulative TP / (i + 1)", fi=fi,
                  expected="tp_list[i] / (i + 1)", found=S(pr), sample={"precision": S(pr)})
        ctx.check(okr, "C04-formula", "get_precision_recall_list", f"recall:gt={int(gt_pos)}", f"recall at rank i is `{S(rc)}`; definition: cumulative TP / number of ground truths (0 without ground truth)", fi=fi,
                  expected="tp_list[i] / num_ground_truth" if gt_pos else "0.0", found=S(rc))
    for p in paths:
        rv = p.retval
        ctx.check(isinstance(rv, ast.Tuple) and [strip_v(S(x)) for x in rv.elts] == ["precisions_list", "recalls_list"], "C04-formula", "get_precision_recall_list", "returns", "does not return (precisions, recalls)", fi=fi)
    # AP accumulation
    fa = ctx.func(AP + "_calculate_ap")
    paths = enum_paths(ctx, fa)
    seen = False
    for p in paths:
        if p.facts.get("truthy:precision_list") is False:
            ctx.check(p.retval is not None and S(p.retval) in ("0.0", "0"), "C04-formula", "_calculate_ap", "empty", "AP of an empty ranking must be 0", fi=fa)
            continue
        if p.exit and p.exit[0] == "raise" and p.exit[1] == "AssertionError":
            continue  # a defensive assertion added before the loop
        lps = [e for e in p.effects if e.kind == "loop"]
        ctx.require(len(lps) == 1, "_calculate_ap: expected one accumulation loop")
        lp = lps[0]
        ivar = U(lp.node.target)
        env_call = "self.interpolate_precision_recall_list(precision_list,recall_list)"
        if S(lp.text) == f"zip({env_call}[0],{env_call}[1],{env_call}[1][1:])" and isinstance(lp.node.target, ast.Tuple) and len(lp.node.target.elts) == 3:
            # consecutive envelope points paired by zip with the recalls shifted by one: the same len - 1 pairs
            a, b, c = [U(x) for x in lp.node.target.elts]
            F = Formula(rename={a: "p_i", b: "r_i", c: "r_next"})
        else:
            ctx.require(S(lp.text).startswith("range("), f"_calculate_ap: loop header `{S(lp.text)[:80]}` not recognised")
            ctx.check(S(lp.text) == f"range(len({env_call}[0])-1)", "C04-formula", "_calculate_ap", "range",
                      f"the area loop runs over `{S(lp.text)[:100]}`; it must visit every pair of consecutive envelope points (range(len(envelope) - 1))", fi=fa)
            F = Formula(rename={f"{env_call}[0][{ivar}]": "p_i", f"{env_call}[1][{ivar}]": "r_i", f"{env_call}[1][{ivar}+1]": "r_next"})
        for bp in lp.body:
            aug = [e for e in bp.effects if e.kind == "aug" and strip_v(e.recv) == "ap"]
            ctx.require(len(aug) == 1 and aug[0].name == "Add", "_calculate_ap: the loop does not add one term to ap")
            seen = True
            try:
                ok = F.parse(aug[0].value).equals(F.parse_text("p_i * (r_i - r_next)"))
            except Unrecognised as exc:
                ok = False
            ctx.check(ok, "C04-formula", "_calculate_ap", "term", f"AP term is `{S(aug[0].value)[-140:]}`; definition: p[i] * (r[i] - r[i+1]) over the envelope", fi=fa,
                      expected="max_precision[i] * (max_recall[i] - max_recall[i + 1])", found=S(aug[0].value).replace(env_call, "ENV")[:160], sample={"term": S(aug[0].value).replace(env_call, "ENV")})
        init = [S(e.value) for e in p.effects if e.kind == "assign" and e.recv == "ap"]
        ctx.check(init[:1] in (["0.0"], ["0"]), "C04-formula", "_calculate_ap", "init", f"ap starts at {init[:1]}", fi=fa)
        ctx.check(p.retval is not None and strip_v(S(p.retval)) == "ap", "C04-formula", "_calculate_ap", "returns", "does not return ap", fi=fa)
    ctx.require(seen, "_calculate_ap: accumulation not found")


def rule_envelope(ctx: Ctx) -> None:
    fi = ctx.func(AP + "interpolate_precision_recall_list")
    paths = enum_paths(ctx, fi)
    ctx.require(len(paths) == 1, "interpolate_precision_recall_list: expected a single top-level path")
    p = paths[0]
    pl, rl = [a.arg for a in fi.params()][:2]
    asg = {e.recv: S(e.value) for e in p.effects if e.kind == "assign"}
    # names of the two output lists from the return
    rv = p.retval
    ctx.require(isinstance(rv, ast.Tuple) and len(rv.elts) == 2, "interpolate_precision_recall_list: does not return two lists")
    mp, mr = [strip_v(S(x)) for x in rv.elts]
    ctx.check(asg.get(mp) == f"[{pl}[-1]]" and asg.get(mr) == f"[{rl}[-1]]", "C04-envelope", "interpolate_precision_recall_list", "start",
              f"the envelope starts with ({asg.get(mp)}, {asg.get(mr)}); it must start from the last (precision, recall) point", fi=fi,
              expected=f"[{pl}[-1]], [{rl}[-1]]", found=f"{asg.get(mp)}, {asg.get(mr)}")
    lps = [e for e in p.effects if e.kind == "loop"]
    ctx.require(len(lps) == 1, "interpolate_precision_recall_list: expected one scan loop")
    lp = lps[0]
    ivar = U(lp.node.target)
    it = S(lp.text)
    ok_scan = it in (f"reversed(range(len({rl})-1))", f"reversed(range(len({pl})-1))", f"range(len({rl})-2,-1,-1)", f"range(len({pl})-2,-1,-1)")
    ctx.check(ok_scan, "C04-envelope", "interpolate_precision_recall_list", "scan", f"the scan runs over `{it}`; it must visit the remaining indices from the second-to-last down to 0", fi=fi,
              expected=f"reversed(range(len({rl}) - 1))", found=it)
    kept = 0
    for bp in lp.body:
        gt = fact_where(bp, lambda k: S(k) == f"cmp:{mp}[-1]<{pl}[{ivar}]")
        ge = fact_where(bp, lambda k: S(k) == f"cmp:{mp}[-1]<={pl}[{ivar}]")
        ap = appends(bp)
        if gt is None and ge is None:
            other = [k for k in bp.facts if k.startswith("cmp:")]
            if ap and other:
                ctx.violate("C04-envelope", "interpolate_precision_recall_list", "compare",
                            f"a point is kept under `{strip_v(other[0][4:])}`; it must be kept iff its precision strictly exceeds the running maximum ({pl}[i] > {mp}[-1])", fi=fi,
                            expected=f"{pl}[{ivar}] > {mp}[-1]", found=strip_v(other[0][4:]))
                continue
            ctx.require(not ap, "interpolate_precision_recall_list: a point is appended without a recognised comparison")
            continue
        if ge is not None and gt is None:
            ctx.violate("C04-envelope", "interpolate_precision_recall_list", "compare", "a point is kept when its precision merely equals the running maximum; the comparison must be strict", fi=fi,
                        expected=f"{pl}[{ivar}] > {mp}[-1]", found=f"{pl}[{ivar}] >= {mp}[-1]")
            continue
        if gt:
            kept += 1
            got = sorted((a.recv, S(a.args[0])) for a in ap)
            want = sorted([(mp, f"{pl}[{ivar}]"), (mr, f"{rl}[{ivar}]")])
            ctx.check(got == want, "C04-envelope", "interpolate_precision_recall_list", "keep", f"a kept point appends {got}; it must append precision and recall of the same index i", fi=fi,
                      expected=str(want), found=str(got), sample={"kept": got})
        else:
            ctx.check(not ap, "C04-envelope", "interpolate_precision_recall_list", "drop", "a point whose precision does not exceed the running maximum is appended", fi=fi)
    ctx.require(kept == 1, "interpolate_precision_recall_list: the keep-branch of the scan was not recognised")
    idx = p.effects.index(lp)
    tail = [(e.recv, S(e.args[0])) for e in p.effects[idx + 1:] if e.kind == "call" and e.name == "append"]
    ok = sorted(tail) == sorted([(mp, f"{mp}[-1]"), (mr, "0.0")]) or sorted(tail) == sorted([(mp, f"{mp}[-1]"), (mr, "0")])
    ctx.check(ok, "C04-envelope", "interpolate_precision_recall_list", "close", f"after the scan the function appends {tail}; it must close the envelope with (last maximum, recall 0.0)", fi=fi,
              expected=f"[({mp}, {mp}[-1]), ({mr}, 0.0)]", found=str(tail))


def rule_weights(ctx: Ctx) -> None:
    tpm = "evaluation.metrics.detection.tp_metrics."
    for cname in ("TPMetricsAp", "TPMetricsAph"):
        fi = ctx.func(tpm + cname + ".get_value")
        paths = enum_paths(ctx, fi)
        for i, p in enumerate(paths):
            ctx.require(p.exit == ("return",), f"{cname}.get_value: a path does not return")
            rv = p.retval
            ok = False
            txt = S(rv)
            if isinstance(rv, ast.Constant) and isinstance(rv.value, (int, float)) and 0 <= rv.value <= 1:
                ok = True
            elif isinstance(rv, ast.Call) and S(rv.func) == "min" and len(rv.args) == 2:
                a, b = rv.args
                if S(b) in ("1.0", "1"):
                    a, b = b, a
                if S(a) in ("1.0", "1") and isinstance(b, ast.Call) and S(b.func) == "max" and len(b.args) == 2 and any(S(x) in ("0.0", "0") for x in b.args):
                    ok = True
            elif isinstance(rv, ast.Call) and S(rv.func) == "max" and len(rv.args) == 2 and any(S(x) in ("0.0", "0") for x in rv.args):
                inner = [x for x in rv.args if S(x) not in ("0.0", "0")]
                ok = bool(inner) and isinstance(inner[0], ast.Call) and S(inner[0].func) == "min" and any(S(x) in ("1.0", "1") for x in inner[0].args)
            ctx.check(ok, "C04-weight-range", f"{cname}.get_value", f"path{i}:{len(p.conds)}",
                      f"{cname}.get_value returns `{txt[:100]}`, which is not a constant in [0,1] nor clamped by min(1, max(0, .)): APH could exceed AP / leave [0,1]", fi=fi,
                      expected="constant in [0,1] or min(1.0, max(0.0, x))", found=txt[:120])
    # Map instantiates only these two
    mp = ctx.func("evaluation.metrics.detection.map.Map.__init__")
    for p in enum_paths(ctx, mp)[:1]:
        for lp in [e for e in p.effects if e.kind == "loop"][:1]:
            used = set()
            for bp in lp.body:
                for c in [e for e in bp.effects if e.kind == "call" and e.name == "Ap"]:
                    t = c.kwargs.get("tp_metrics")
                    used.add(S(t) if t is not None else "?")
            ctx.check(used <= {"TPMetricsAp()", "TPMetricsAph()"} and "TPMetricsAp()" in used, "C04-weight-range", "Map.__init__", "metrics-used",
                      f"Map instantiates Ap with tp_metrics {sorted(used)}; only TPMetricsAp() / TPMetricsAph() have a verified [0,1] range", fi=mp)


def rule_map(ctx: Ctx) -> None:
    fi = ctx.func("evaluation.metrics.detection.map.Map.__init__")
    paths = enum_paths(ctx, fi)
    ctx.require(bool(paths), "Map.__init__: no path")
    p = paths[0]
    lps = [e for e in p.effects if e.kind == "loop"]
    ctx.require(len(lps) >= 1, "Map.__init__: per-label loop not found")
    lp = lps[0]
    ctx.check(S(lp.text) == "zip(target_labels,matching_threshold_list)", "C04-map", "Map.__init__", "zip", f"labels and thresholds are paired by `{S(lp.text)}`", fi=fi)
    lvar, tvar = [U(x) for x in lp.node.target.elts]
    want = {
        "object_results": f"object_results_dict[{lvar}]",
        "num_ground_truth": f"num_ground_truth_dict[{lvar}]",
        "target_labels": f"[{lvar}]",
        "matching_mode": "matching_mode",
        "matching_threshold_list": f"[{tvar}]",
    }
    saw_aph = False
    params = {a.arg for a in fi.params()}
    self_alias = {}
    for pp in paths[:1]:
        idx_lp = next((i for i, e in enumerate(pp.effects) if e.kind == "loop"), len(pp.effects))
        for e in pp.effects[:idx_lp]:
            if e.kind == "store" and S(e.recv).startswith("self.") and S(e.value) in params:
                self_alias[S(e.recv)] = S(e.value)
    for bp in lp.body:
        aps = [e for e in bp.effects if e.kind == "call" and e.name == "Ap"]
        ctx.require(len(aps) >= 1, "Map.__init__: Ap(...) not constructed in the per-label loop")
        for c in aps:
            kind = S(c.kwargs.get("tp_metrics")) if c.kwargs.get("tp_metrics") is not None else "?"
            saw_aph = saw_aph or kind == "TPMetricsAph()"
            for k, w in want.items():
                got = c.kwargs.get(k)
                if got is not None and S(got).startswith("self.") and S(got) in self_alias:
                    got = ast.parse(self_alias[S(got)], mode="eval").body  # self.x was assigned from the parameter before the loop: the same value
                ctx.check(got is not None and S(got) == w, "C04-map", "Map.__init__", f"{kind}:{k}",
                          f"Ap({kind}) receives {k}=`{S(got) if got is not None else None}`; it must be `{w}` so that label, threshold, results and ground-truth count line up", fi=fi,
                          expected=w, found=S(got) if got is not None else "None")
        two_d = fact_where(bp, lambda k: k == "truthy:self.is_detection_2d")
        ap_app = [a for a in appends(bp) if S(a.recv) in ("self.aps", "self.aphs")]
        kinds = {}
        for a in ap_app:
            v = a.args[0]
            kinds.setdefault(S(a.recv), []).append(S(v.kwargs_tp) if False else (S(next((k.value for k in v.keywords if k.arg == "tp_metrics"), ast.Constant(value=None))) if isinstance(v, ast.Call) else S(v)))
        ctx.check(kinds.get("self.aps") == ["TPMetricsAp()"], "C04-map", "Map.__init__", f"aps:2d={two_d}", f"self.aps receives {kinds.get('self.aps')}; exactly one AP instance per label", fi=fi)
        if two_d is False:
            ctx.check(kinds.get("self.aphs") == ["TPMetricsAph()"], "C04-map", "Map.__init__", "aphs", f"self.aphs receives {kinds.get('self.aphs')}; exactly one APH instance per label", fi=fi)
    ctx.require(saw_aph, "Map.__init__: the APH instance was not found")
    st = {strip_v(e.recv): e.value for e in p.effects if e.kind == "store"}
    for attr, lst in (("self.map", "self.aps"), ("self.maph", "self.aphs")):
        vals = [e.value for pp in paths for e in pp.effects if e.kind == "store" and strip_v(e.recv) == attr]
        ctx.require(bool(vals), f"Map.__init__: {attr} not assigned")
        txts = {S(v) for v in vals}
        v0 = next((t for t in txts if t.startswith("sum(")), None)
        ok = v0 is not None and re.match(r"^sum\(\[(\w+)\.apfor\1in" + re.escape(lst) + r"if\1\.ap!=float\('inf'\)\]\)/len\(\[(\w+)\.apfor\2in" + re.escape(lst) + r"if\2\.ap!=float\('inf'\)\]\)$", v0) is not None
        ctx.check(ok, "C04-map", "Map.__init__", f"mean:{attr}", f"{attr} = `{(v0 or sorted(txts)[0])[:140]}`; it must be the mean of the finite APs of {lst} (sum(valid) / len(valid), valid = ap != inf)", fi=fi,
                  expected="sum(valid) / len(valid) with valid = [a.ap for a in list if a.ap != inf]", found=(v0 or sorted(txts)[0])[:200])
        ctx.check("float('inf')" in txts, "C04-map", "Map.__init__", f"undefined:{attr}", f"{attr} has no `inf` value for the case that no label has a finite AP", fi=fi)
        # ... and which of the two applies: the mean exactly when at least one label has a finite AP
        for pp in paths:
            for e in pp.effects:
                if not (e.kind == "store" and strip_v(e.recv) == attr):
                    continue
                some = None
                for k, v in pp.facts.items():
                    kk = S(k)
                    if lst in kk and (kk.startswith("cmp:0<len([") or kk.startswith("truthy:[")):
                        some = v
                    elif lst in kk and kk.startswith("eq:len([") and kk.endswith("==0"):
                        some = not v
                    elif lst in kk and kk.startswith("cmp:"):
                        some = "other:" + kk[4:60]
                t = S(e.value)
                if some is True or some is False:
                    ctx.check(t.startswith("sum(") == some and (t == "float('inf')") == (not some), "C04-map", "Map.__init__", f"mean-iff-finite:{attr}:{int(some)}",
                              f"with {'at least one' if some else 'no'} finite AP {attr} = `{t[:60]}`; expected {'the mean' if some else 'inf (undefined)'}", fi=fi)
                else:
                    ctx.check(False, "C04-map", "Map.__init__", f"mean-guard:{attr}", f"{attr} is chosen by `{some}`; the guard must be `0 < len(valid)` (mean iff at least one finite AP)", fi=fi)


def _divide_table(ctx: Ctx, fname: str) -> Dict[Tuple, str]:
    fi = ctx.func(OF + fname)
    paths = enum_paths(ctx, fi)
    out: Dict[Tuple, str] = {}
    for p in paths:
        tl_none = p.facts.get("none:target_labels")
        lps = [e for e in p.effects if e.kind == "loop"]
        ctx.require(len(lps) == 1 and S(lps[0].text) == "objects", f"{fname}: loop over objects not recognised")
        ctx.require(tl_none is not None, f"{fname}: the `target_labels is not None` test was not recognised")
        init = next((S(e.value) for e in p.effects if e.kind == "assign" and e.recv == "ret"), S(lps[0].pre.get("ret")) if lps[0].pre.get("ret") is not None else None)
        zero = "0" if fname.endswith("_to_num") else "[]"
        want_init = "{}" if tl_none else f"{{label:{zero}forlabelintarget_labels}}"
        ctx.check(init == want_init or (not tl_none and init is not None and re.match(r"^\{(\w+):" + re.escape(zero) + r"for\1intarget_labels\}$", init) is not None) or (tl_none and init == "dict()"),
                  "C04-divide-table", fname, f"init:targets_none={bool(tl_none)}",
                  f"{fname}: the result starts as `{init}`; expected {'an empty dict' if tl_none else 'one empty bucket (' + zero + ') per target label, so that labels without objects are still scored'}", fi=fi,
                  expected=want_init, found=str(init))
        o = U(lps[0].node.target)
        for bp in lps[0].body:
            f = {S(k): v for k, v in bp.facts.items()}
            is_res = f.get(f"isinstance:{o},DynamicObjectWithPerceptionResult")
            est_l = f"{o}.estimated_object.semantic_label.label"
            obj_l = f"{o}.semantic_label.label"
            gt_l = f"{o}.ground_truth_object.semantic_label.label"
            first = est_l if is_res else obj_l
            in_t = next((v for k, v in f.items() if k == f"in:{first}intarget_labels"), None)
            gt_none = f.get(f"none:{o}.ground_truth_object")
            key = (bool(tl_none), bool(is_res), in_t, gt_none)
            tgt = None
            for e in bp.effects:
                t = None
                if e.kind == "store" and S(strip_v(e.recv)).startswith("ret["):
                    t = S(strip_v(e.recv))[4:-1]
                elif e.kind == "aug" and S(strip_v(e.recv)).startswith("ret["):
                    t = S(strip_v(e.recv))[4:-1]
                elif e.kind == "call" and e.name == "append" and S(e.recv).startswith("ret["):
                    t = S(e.recv)[4:-1]
                if t is not None:
                    tgt = {est_l: "est-label", obj_l: "own-label", gt_l: "gt-label"}.get(t, "other:" + t)
            # how the object is filed: a new bucket starts with exactly this object / count 1, an existing one gains exactly this object / +1
            if tgt is not None:
                lab_t = {"est-label": est_l, "own-label": obj_l, "gt-label": gt_l}.get(tgt)
                known = next((v for k, v in f.items() if lab_t and k in (f"in:{lab_t}inret.keys()", f"in:{lab_t}inret")), None)
                effs = [(e.kind, e.name or None, S(e.value) if e.value is not None else (S(e.args[0]) if e.args else "")) for e in bp.effects
                        if (e.kind in ("store", "aug") and S(strip_v(e.recv)).startswith("ret[")) or (e.kind == "call" and e.name == "append" and S(e.recv).startswith("ret["))]
                is_num = fname.endswith("_to_num")
                if known is False:
                    want = [("store", None, "1")] if is_num else [("store", None, f"[{o}]")]
                elif known is True:
                    want = [("aug", "Add", "1")] if is_num else [("call", "append", o)]
                else:
                    want = None
                if want is not None:
                    ctx.check(effs == want, "C04-divide-table", fname, f"files:{'new' if known is False else 'existing'}:{tgt}",
                              f"{fname}: an object whose bucket {'does not exist yet' if known is False else 'exists'} is filed by {effs}; expected {want} (each object counted exactly once)", fi=fi,
                              expected=str(want), found=str(effs))
                else:
                    ctx.check(False, "C04-divide-table", fname, f"files:unguarded:{tgt}", f"{fname}: the object is filed by {effs} without testing whether its bucket already exists", fi=fi)
            val = tgt if tgt is not None else ("skip" if bp.exit == ("continue",) else "none")
            if key in out and out[key] != val:
                val = out[key] + "|" + val
            out[key] = val
    return out


def rule_divide(ctx: Ctx) -> None:
    a = _divide_table(ctx, "divide_objects")
    b = _divide_table(ctx, "divide_objects_to_num")
    fi = ctx.func(OF + "divide_objects_to_num")
    ctx.table_rows += len(a) + len(b)
    ctx.require(len(a) >= 6, f"divide_objects: only {len(a)} table rows")
    for k in sorted(set(a) | set(b), key=str):
        inst = f"targets_none={k[0]},is_result={k[1]},label_in_targets={k[2]},gt_none={k[3]}"
        ctx.check(a.get(k) == b.get(k), "C04-divide-agree", "divide_objects/divide_objects_to_num", inst,
                  f"for [{inst}] divide_objects files the object under {a.get(k)} but divide_objects_to_num counts it under {b.get(k)}: result buckets and ground-truth counts of a label no longer line up",
                  fi=fi, expected=str(a.get(k)), found=str(b.get(k)), sample={"row": inst, "bucket": a.get(k)})
    # and the table itself: estimate label; if not targeted and a GT exists, GT label; else skipped
    spec = {
        (False, True, True, None): "est-label",
        (False, True, False, False): "gt-label",
        (False, True, False, True): "skip",
        (False, False, True, None): "own-label",
        (False, False, False, None): "skip",
        (True, True, None, None): "est-label",
        (True, False, None, None): "own-label",
    }
    f1 = ctx.func(OF + "divide_objects")
    for k, w in spec.items():
        inst = f"targets_none={k[0]},is_result={k[1]},label_in_targets={k[2]},gt_none={k[3]}"
        ctx.check(a.get(k) == w, "C04-divide-table", "divide_objects", inst, f"[{inst}]: object filed under {a.get(k)}, expected {w}", fi=f1, expected=w, found=str(a.get(k)))


def run(ctx: Ctx) -> None:
    from rules import generic as _G
    ctx.run(_G.rule_arity, ("perception_eval.evaluation.metrics.detection", "perception_eval.evaluation.metrics.metrics", "perception_eval.evaluation.metrics.metrics_score_config"), "R-ARITY", 10)
    ctx.run(rule_ranking)
    ctx.run(rule_marking)
    ctx.run(rule_formulas)
    ctx.run(rule_envelope)
    ctx.run(rule_weights)
    ctx.run(rule_map)
    ctx.run(rule_divide)
    from rules import C03
    ctx.run(C03.rule_correct)  # what _calculate_tp_fp marks as TP: is_result_correct = label-compatible and strictly better than the label's threshold (0 is a threshold)
    scope = ("perception_eval.evaluation.result", "perception_eval.evaluation.metrics", "perception_eval.manager") if ctx.tier == "quick" else G.full_scope(ctx)
    ctx.run(G.rule_kw, scope, "R-KW", 20)
    ctx.run(G.rule_tf, scope, "R-TF", None, 8)
