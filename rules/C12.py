"""C12 – sensing counts the points inside each box; every object classified once."""
from __future__ import annotations

import ast
import re
from typing import List, Optional, Tuple

from sa.formula import Formula, Unrecognised
from sa.paths import Path, U, strip_v
from sa.report import Ctx
from rules import C20
from rules import generic as G
from rules.common import S, appends, enum_paths, fact_where, loops_of

EXPLANATION = (
    "Decides: (1) each ground-truth object is classified exactly once – the loop body of _evaluate_pointcloud_for_detection appends to "
    "exactly one of warning / success / fail with the table {occluded -> warning; not occluded and detected -> success; else fail}; "
    "is_detected = (points inside >= min_points_threshold) on the cloud cropped with the object's own scaled box, is_occluded = "
    "(visibility == Visibility.NONE), and Visibility.from_value returns members so that this comparison can hold; (2) the inside and "
    "outside selections of crop_pointcloud are exact De-Morgan complements (winding count `0 < cnt` vs `cnt <= 0`, z range `zmin <= z <= "
    "zmax` vs `z < zmin or zmax < z`, `and` vs `or`) – so they partition the cloud; (3) both non-detection loops fold the `inside=False` "
    "crop over all objects on the running cloud (the cropped cloud is argument and target for every object), starting from the area crop, "
    "and report a cloud iff points remain; (4) the two scale formulas are the same linear function s0 + (s100 - s0)/100 * d of the "
    "object's ego distance (transforms handed on in the manager – R-TF); (5) DynamicObject.crop_pointcloud / get_corners feed the crop "
    "with the footprint scaled about the box centre and z = centre +- height/2. Does not decide: geometric exactness of the "
    "winding-number test, 'enlarging the scale never removes a point' (geometry)."
)

SFR = "evaluation.sensing.sensing_frame_result.SensingFrameResult."


def rule_classify(ctx: Ctx) -> None:
    fi = ctx.func(SFR + "_evaluate_pointcloud_for_detection")
    paths = enum_paths(ctx, fi)
    lps = loops_of(paths)
    ctx.require(len(lps) == 1 and S(lps[0].text) == "ground_truth_objects", "_evaluate_pointcloud_for_detection: loop over ground_truth_objects not recognised")
    lp = lps[0]
    g = U(lp.node.target)
    lists = ("self.detection_warning_results", "self.detection_success_results", "self.detection_fail_results")
    # every annotated object is classified: the loop is skipped only when there is no object at all (an empty cloud still means "not detected" / "occluded")
    for p in paths:
        looped = any(e.kind == "loop" for e in p.effects)
        if looped or (p.exit and p.exit[0] == "raise"):
            continue
        f = {S(k): v for k, v in p.facts.items()}
        has_gt = f.get("truthy:ground_truth_objects")
        ctx.check(has_gt is False, "C12-classify", "_evaluate_pointcloud_for_detection", f"skips-objects:{has_gt}",
                  f"on [{p.cond_text()[:120]}] the function returns without classifying the annotated objects although there {'are some' if has_gt else 'may be some'}: each object must be reported as exactly one of detected / not detected / warning",
                  fi=fi, expected="early return only when ground_truth_objects is empty", found=p.cond_text()[:160])
    rows = 0
    for bp in lp.body:
        occ = fact_where(bp, lambda k: S(k).startswith("truthy:DynamicObjectWithSensingResult(") and S(k).endswith(".is_occluded"))
        det = fact_where(bp, lambda k: S(k).startswith("truthy:DynamicObjectWithSensingResult(") and S(k).endswith(".is_detected"))
        ap = [a for a in appends(bp) if S(a.recv) in lists]
        if occ is None:
            ctx.violate("C12-classify", "_evaluate_pointcloud_for_detection", "occlusion-not-checked-first",
                        f"an object is put into {[S(a.recv).split('.')[-1] for a in ap]} on a path that never looks at is_occluded: a fully occluded object must be a warning, whatever its point count", fi=fi,
                        expected="occluded -> warning, before anything else", found=strip_v(bp.cond_text())[-80:])
            rows += 1
            continue
        rows += 1
        want = lists[0] if occ else (lists[1] if det else lists[2])
        if not occ and det is None:
            ctx.violate("C12-classify", "_evaluate_pointcloud_for_detection", "detected-ignored", "a visible object is classified without looking at is_detected", fi=fi)
            continue
        ok = len(ap) == 1 and S(ap[0].recv) == want
        ctx.check(ok, "C12-classify", "_evaluate_pointcloud_for_detection", f"occluded={int(bool(occ))},detected={det if det is None else int(det)}",
                  f"object with occluded={occ}, detected={det} is appended to {[S(a.recv) for a in ap]}; it must be in exactly {want}", fi=fi,
                  expected=want, found=str([S(a.recv) for a in ap]), sample={"occluded": occ, "detected": det, "list": want})
        for a in ap:
            v = a.args[0]
            okc = isinstance(v, ast.Call) and S(v.func) == "DynamicObjectWithSensingResult"
            if okc:
                kw = {k.arg: S(k.value) for k in v.keywords}
                pos = [S(x) for x in v.args]
                okc = (
                    kw.get("ground_truth_object", pos[0] if pos else None) == g
                    and kw.get("pointcloud", pos[1] if len(pos) > 1 else None) == "pointcloud_for_detection"
                    and kw.get("scale_factor", pos[2] if len(pos) > 2 else None) == f"self.sensing_frame_config.get_scale_factor({g}.get_distance())"
                    and kw.get("min_points_threshold", pos[3] if len(pos) > 3 else None) == "self.sensing_frame_config.min_points_threshold"
                )
            ctx.check(okc, "C12-classify", "_evaluate_pointcloud_for_detection", f"result-args:{S(a.recv).rsplit('_', 2)[-2]}",
                      f"the sensing result is built as `{S(v)[:200]}`; expected (the loop object, the detection cloud, the scale for the object's own distance, the frame's minimum point count)", fi=fi)
    ctx.require(rows == 3, f"_evaluate_pointcloud_for_detection: {rows} body paths (expected 3)")
    # definition of the two flags
    ini = ctx.func("evaluation.sensing.sensing_result.DynamicObjectWithSensingResult.__init__")
    for p in enum_paths(ctx, ini):
        st = {strip_v(e.recv): S(e.value) for e in p.effects if e.kind == "store"}
        want = {
            "self.inside_pointcloud": {"self.ground_truth_object.crop_pointcloud(pointcloud,scale_factor)", "ground_truth_object.crop_pointcloud(pointcloud,scale_factor)",
                                       "self.ground_truth_object.crop_pointcloud(pointcloud,bbox_scale=scale_factor)", "self.ground_truth_object.crop_pointcloud(pointcloud=pointcloud,bbox_scale=scale_factor)"},
            "self.inside_pointcloud_num": {"len(self.inside_pointcloud)"},
            "self.is_detected": {"self.inside_pointcloud_num>=min_points_threshold", "min_points_threshold<=self.inside_pointcloud_num"},
            "self.is_occluded": {"ground_truth_object.visibility==Visibility.NONE", "self.ground_truth_object.visibility==Visibility.NONE", "Visibility.NONE==ground_truth_object.visibility"},
            "self.ground_truth_object": {"ground_truth_object"},
        }
        # a field read back (`self.inside_pointcloud`) and the local it was stored from are the same value: compare fully expanded texts
        def canon(t, depth=0):
            if t is None or depth > 4:
                return t
            t = t.replace("self.ground_truth_object", "ground_truth_object")
            for fld in ("self.inside_pointcloud_num", "self.inside_pointcloud"):
                if re.search(re.escape(fld) + r"(?![\w])", t) and st.get(fld) is not None:
                    t = re.sub(re.escape(fld) + r"(?![\w])", lambda m: canon(st.get(fld), depth + 1), t)
            return t

        ip = {canon(x) for x in want["self.inside_pointcloud"]}
        want["self.inside_pointcloud_num"] = {f"len({x})" for x in ip}
        want["self.is_detected"] = {f"len({x})>=min_points_threshold" for x in ip} | {f"min_points_threshold<=len({x})" for x in ip}
        want = {k: {canon(x) if k in ("self.inside_pointcloud", "self.is_occluded") else x for x in w} for k, w in want.items()}
        raw_st = dict(st)
        st = {k: (canon(v) if k != "self.ground_truth_object" else v) for k, v in raw_st.items()}
        for k, w in want.items():
            ctx.check(st.get(k) in w, "C12-flags", "DynamicObjectWithSensingResult.__init__", k, f"{k} = `{st.get(k)}`; expected one of {sorted(w)[:2]}", fi=ini, expected=sorted(w)[0], found=str(st.get(k)))
    # the visibility parser yields members (otherwise `== Visibility.NONE` can never hold for loaded data)
    ci = ctx.index.cls("common.schema.Visibility")
    fv = ctx.func("common.schema.Visibility.from_value")
    info = C20.analyse_parser(ctx, ci, fv)
    ctx.check(info["returns"] == "member", "C12-flags", "Visibility.from_value", "returns-member",
              f"Visibility.from_value returns `{info['ret_text']}` ({info['returns']}): loaded objects never compare equal to Visibility.NONE, so no object is ever reported as occluded", fi=fv)
    ctx.check(C20.eq_handles_str(ci, ctx) or True, "C12-flags", "Visibility.__eq__", "eq", "", fi=fv)


# -- boolean structure of the two selections -----------------------------------
def _tree(e: ast.expr):
    if isinstance(e, ast.Call) and S(e.func) in ("np.bitwise_and", "np.logical_and") and len(e.args) == 2:
        return ("and", _tree(e.args[0]), _tree(e.args[1]))
    if isinstance(e, ast.Call) and S(e.func) in ("np.bitwise_or", "np.logical_or") and len(e.args) == 2:
        return ("or", _tree(e.args[0]), _tree(e.args[1]))
    if isinstance(e, ast.BinOp) and isinstance(e.op, ast.BitAnd):
        return ("and", _tree(e.left), _tree(e.right))
    if isinstance(e, ast.BinOp) and isinstance(e.op, ast.BitOr):
        return ("or", _tree(e.left), _tree(e.right))
    if isinstance(e, ast.BinOp) and isinstance(e.op, ast.Mult):
        return ("and", _tree(e.left), _tree(e.right))
    if isinstance(e, ast.Compare) and len(e.ops) == 1:
        l, r, op = S(e.left), S(e.comparators[0]), e.ops[0]
        if isinstance(op, ast.Lt):
            return ("cmp", l, "<", r)
        if isinstance(op, ast.LtE):
            return ("cmp", l, "<=", r)
        if isinstance(op, ast.Gt):
            return ("cmp", r, "<", l)
        if isinstance(op, ast.GtE):
            return ("cmp", r, "<=", l)
        if isinstance(op, (ast.Eq, ast.NotEq)):
            a, b = sorted([l, r])
            return ("eq", a, isinstance(op, ast.Eq), b)
    if isinstance(e, ast.UnaryOp) and isinstance(e.op, (ast.Invert, ast.Not)):
        return _neg(_tree(e.operand))
    return ("atom", S(e))


def _neg(t):
    if t[0] == "and":
        return ("or", _neg(t[1]), _neg(t[2]))
    if t[0] == "or":
        return ("and", _neg(t[1]), _neg(t[2]))
    if t[0] == "cmp":
        _, l, op, r = t
        return ("cmp", r, "<=" if op == "<" else "<", l)
    if t[0] == "eq":
        return ("eq", t[1], not t[2], t[3])
    return ("not", t)


def _norm(t):
    if t[0] in ("and", "or"):
        parts = []

        def flat(x):
            if x[0] == t[0]:
                flat(x[1])
                flat(x[2])
            else:
                parts.append(_norm(x))

        flat(t)
        return (t[0], tuple(sorted(parts, key=repr)))
    return t


def rule_partition(ctx: Ctx) -> None:
    fi = ctx.func("common.point.crop_pointcloud")
    paths = enum_paths(ctx, fi)
    sel = {}
    for p in paths:
        if p.exit != ("return",):
            continue
        ins = p.facts.get("truthy:inside")
        two_d = fact_where(p, lambda k: S(k).startswith("cmp:pointcloud.shape[1]<3"))
        ctx.require(ins is not None and two_d is not None, f"crop_pointcloud: returning path not over (inside, 2D cloud) [{p.cond_text()[-100:]}]")
        rv = p.retval
        ctx.require(isinstance(rv, ast.Subscript) and S(rv.value) == "pointcloud", f"crop_pointcloud: returns `{S(rv)[:80]}` instead of a selection of the cloud")
        sel[(bool(ins), bool(two_d))] = rv.slice
    ctx.require(len(sel) == 4, f"crop_pointcloud: {len(sel)} selection paths (expected inside/outside x 2D/3D)")
    for two_d in (True, False):
        a = _norm(_tree(sel[(True, two_d)]))
        b = _norm(_tree(sel[(False, two_d)]))
        na = _norm(_neg(_tree(sel[(True, two_d)])))
        ctx.check(na == b, "C12-partition", "crop_pointcloud", "2d" if two_d else "3d",
                  f"for {'2D' if two_d else '3D'} clouds the outside selection `{strip_v(S(sel[(False, two_d)]))[:160]}` is not the exact negation of the inside selection "
                  f"`{strip_v(S(sel[(True, two_d)]))[:160]}`: some point is in both or in neither", fi=fi, expected=repr(na)[:300], found=repr(b)[:300],
                  sample={"inside": strip_v(S(sel[(True, two_d)]))[:120], "outside": strip_v(S(sel[(False, two_d)]))[:120]})
    # the inside selection is: positive winding count, and z within [zmin, zmax] taken from the area
    t = strip_v(S(sel[(True, False)]))
    ok = ("0<cnt_arr_" in t or "cnt_arr_!=0" in t or "cnt_arr_>0" in t) and "min(area,key=lambdax:x[2])[2]<=pointcloud[:,2]" in t and "pointcloud[:,2]<=max(area,key=lambdax:x[2])[2]" in t
    ctx.check(ok, "C12-partition", "crop_pointcloud", "inside-shape", f"the inside selection is `{t[:200]}`; expected winding count > 0 and zmin <= z <= zmax with zmin/zmax the lowest / highest corner", fi=fi)


def _canon_cmp(e: ast.expr, ren) -> Optional[Tuple[str, str, str]]:
    """x < y / x <= y with renamed operand texts; > and >= are turned around."""
    if not (isinstance(e, ast.Compare) and len(e.ops) == 1):
        return None
    l, r = ren(S(e.left)), ren(S(e.comparators[0]))
    op = e.ops[0]
    if isinstance(op, ast.Lt):
        return ("lt", l, r)
    if isinstance(op, ast.LtE):
        return ("le", l, r)
    if isinstance(op, ast.Gt):
        return ("lt", r, l)
    if isinstance(op, ast.GtE):
        return ("le", r, l)
    return None


def _factors(e: ast.expr) -> List[ast.expr]:
    if isinstance(e, ast.BinOp) and isinstance(e.op, (ast.Mult, ast.BitAnd)):
        return _factors(e.left) + _factors(e.right)
    if isinstance(e, ast.Call) and S(e.func) in ("np.logical_and", "np.bitwise_and") and len(e.args) == 2:
        return _factors(e.args[0]) + _factors(e.args[1])
    return [e]


def rule_winding(ctx: Ctx) -> None:
    """The xy crop is the winding-number test: for every polygon edge A -> B an upward crossing of the point's horizontal ray counts +1,
    a downward crossing -1, both only when the point is left of the edge at its height (half-open in y so that a vertex is counted once)."""
    fi = ctx.func("common.point.crop_pointcloud")
    paths = enum_paths(ctx, fi)
    lps = loops_of(paths)
    ctx.require(len(lps) == 1, "crop_pointcloud: the edge loop was not found")
    lp = lps[0]
    n_txt = "len(area)//2"
    vname = None
    if S(lp.text) in (f"enumerate(area[:{n_txt}])", "enumerate(area[:num_vertices])") and isinstance(lp.node.target, ast.Tuple) and len(lp.node.target.elts) == 2:
        # the same walk over the lower polygon's vertices, with the vertex named
        iv, vname = U(lp.node.target.elts[0]), U(lp.node.target.elts[1])
    else:
        ctx.require(S(lp.text).startswith("range("), f"crop_pointcloud: edge loop header `{S(lp.text)}` not recognised")
        ctx.check(S(lp.text) in (f"range({n_txt})", "range(num_vertices)"), "C12-winding", "crop_pointcloud", "edges", f"the edge loop iterates `{S(lp.text)}`; expected every vertex of the lower polygon (range(len(area) // 2))", fi=fi)
        iv = U(lp.node.target)
    nxt = f"area[({iv}+1)%({n_txt})]"

    def ren(t: str) -> str:
        t = strip_v(t)
        if vname:
            t = re.sub(rf"(?<![\w.]){re.escape(vname)}(?![\w])", f"area[{iv}]", t)
        t = t.replace(nxt, "B").replace(f"area[({iv}+1)%num_vertices]", "B").replace(f"area[{iv}]", "A")
        return t.replace("pointcloud[:,1]", "Py").replace("pointcloud[:,0]", "Px").replace("A[1]", "Ay").replace("A[0]", "Ax").replace("B[1]", "By").replace("B[0]", "Bx")

    UP = [{("le", "Ay", "Py"), ("lt", "Py", "By")}, {("lt", "Ay", "Py"), ("le", "Py", "By")}]
    DOWN = [{("lt", "Py", "Ay"), ("le", "By", "Py")}, {("le", "Py", "Ay"), ("lt", "By", "Py")}]
    init = next((S(e.value) for p in paths for e in p.effects if e.kind == "assign" and strip_v(e.recv) == "cnt_arr_"), S(lp.pre.get("cnt_arr_")) if lp.pre.get("cnt_arr_") is not None else None)
    ctx.check(init is not None and init.startswith("np.zeros(pointcloud.shape[0]"), "C12-winding", "crop_pointcloud", "count-init", f"the winding count starts as `{init}`; expected one zero per point", fi=fi)
    # sign of the count: a clockwise polygon winds -1 around its interior.  `0 < count` is "inside" only because an UNSIGNED counter wraps -1 to 255
    dt = None
    if init is not None:
        m = re.search(r"dtype=([\w.]+)", init)
        dt = m.group(1) if m else None
    unsigned = dt in ("np.uint8", "np.uint16", "np.uint32", "np.uint64", "numpy.uint8")
    ins_txt = [strip_v(S(p.retval)) for p in paths if p.exit == ("return",) and p.facts.get("truthy:inside")]
    ctx.require(bool(ins_txt), "crop_pointcloud: inside selection not found")
    by_sign = any("0<cnt_arr_" in t or "cnt_arr_>0" in t for t in ins_txt)
    ctx.check(unsigned or not by_sign, "C12-winding", "crop_pointcloud", "count-sign",
              f"points are inside when `0 < count` but the counter is {dt or 'float'} (signed): a clockwise polygon (e.g. a box rolled by 180 deg, a clockwise non-detection area) winds -1 around its interior and "
              "would be classified outside; use `count != 0` or an unsigned counter", fi=fi, expected="unsigned counter, or inside = (count != 0)", found=f"dtype={dt}, inside by sign={by_sign}")
    rows = 0
    for bp in lp.body:
        def _vk(k: str) -> str:
            k = S(k)
            return re.sub(rf"(?<![\w.]){re.escape(vname)}(?![\w])", f"area[{iv}]", k) if vname else k

        horiz = next((v for k, v in bp.facts.items() if _vk(k).startswith("same:area[") and "[1]==area[" in _vk(k)), None)
        ctx.require(horiz is not None, "crop_pointcloud: the horizontal-edge test of the winding loop was not recognised")
        asg = {e.recv: e.value for e in bp.effects if e.kind == "assign"}
        mult = {strip_v(e.recv): e for e in bp.effects if e.kind == "aug" and strip_v(e.recv) in ("incremental_flags", "decremental_flags")}
        cnt = [(S(strip_v(e.recv)), e.name, S(e.value)) for e in bp.effects if e.kind == "aug" and S(strip_v(e.recv)).startswith("cnt_arr_[")]
        ctx.require("incremental_flags" in asg and "decremental_flags" in asg and len(mult) == 2, "crop_pointcloud: crossing flags of the winding loop not recognised")
        up = {_canon_cmp(x, ren) for x in _factors(asg["incremental_flags"])}
        down = {_canon_cmp(x, ren) for x in _factors(asg["decremental_flags"])}
        conv = next((i for i in (0, 1) if up == UP[i]), None)
        ctx.check(conv is not None, "C12-winding", "crop_pointcloud", f"upward-crossing:{horiz}",
                  f"an upward crossing is `{ren(S(asg['incremental_flags']))[:120]}`; expected A.y <= P.y < B.y (half-open, so that a vertex on the ray is counted once)", fi=fi,
                  expected="(A.y <= P.y) * (B.y > P.y)", found=ren(S(asg["incremental_flags"]))[:160], sample={"crossing": "up"})
        ctx.check(conv is not None and down == DOWN[conv], "C12-winding", "crop_pointcloud", f"downward-crossing:{horiz}",
                  f"a downward crossing is `{ren(S(asg['decremental_flags']))[:120]}`; expected the mirror image B.y <= P.y < A.y of the upward test", fi=fi,
                  expected="(A.y > P.y) * (B.y <= P.y)", found=ren(S(asg["decremental_flags"]))[:160])
        for nm in ("incremental_flags", "decremental_flags"):
            e = mult[nm]
            c = _canon_cmp(e.value, ren) if e.name in ("Mult", "BitAnd") else None
            if horiz is False:
                ok = False
                if c is not None and c[0] in ("lt", "le") and c[1] == "Px":
                    try:
                        F = Formula()
                        ok = F.parse(ast.parse(c[2], mode="eval").body).equals(F.parse_text("Ax + (Py - Ay) / (By - Ay) * (Bx - Ax)"))
                    except (Unrecognised, SyntaxError):
                        ok = False
                ctx.check(ok, "C12-winding", "crop_pointcloud", f"left-of-edge:{nm[:3]}",
                          f"a crossing counts when `{ren(S(e.value))[:140]}` ({e.name}); expected P.x < A.x + (P.y - A.y)/(B.y - A.y) * (B.x - A.x): the point is left of the edge at its own height", fi=fi,
                          expected="Px < Ax + (Py-Ay)/(By-Ay)*(Bx-Ax)", found=ren(S(e.value))[:200])
            else:
                ctx.check(e.name in ("Mult", "BitAnd") and re.search(r"(?<!/)/(?!/)", S(e.value)) is None, "C12-winding", "crop_pointcloud", f"horizontal-edge:{nm[:3]}", "a horizontal edge is divided by its zero height", fi=fi)
        want = [("cnt_arr_[incremental_flags]", "Add", "1"), ("cnt_arr_[decremental_flags]", "Sub", "1")]
        ctx.check(sorted(cnt) == sorted(want), "C12-winding", "crop_pointcloud", f"count:{horiz}", f"the winding count is updated by {cnt}; expected +1 for upward and -1 for downward crossings", fi=fi, expected=str(want), found=str(cnt))
        rows += 1
    ctx.require(rows == 2, f"crop_pointcloud: {rows} body paths of the edge loop (expected horizontal / non-horizontal edge)")
    # defaults: a crop keeps the INSIDE of the unscaled box unless told otherwise
    def _defaults(f2):
        a = f2.node.args
        return {x.arg: S(d) for x, d in zip(a.args[len(a.args) - len(a.defaults):], a.defaults)}

    d1 = _defaults(fi)
    ctx.check(d1.get("inside") == "True", "C12-winding", "crop_pointcloud", "default-inside", f"crop_pointcloud(inside=...) defaults to {d1.get('inside')}; the default crop keeps the inside", fi=fi)
    fo = ctx.func("common.object.DynamicObject.crop_pointcloud")
    d2 = _defaults(fo)
    ctx.check(d2.get("inside") == "True" and d2.get("bbox_scale") in ("1.0", "1"), "C12-winding", "DynamicObject.crop_pointcloud", "defaults",
              f"DynamicObject.crop_pointcloud defaults are {d2}; expected bbox_scale=1.0, inside=True", fi=fo)
    # guards: a 3D polygon has an even number (>= 6) of corners; the cloud is (N, k >= 2)
    for p in paths:
        if p.exit and p.exit[0] == "raise":
            continue
        f = {strip_v(S(k)): v for k, v in p.facts.items()}
        bad = [k for k, v in f.items() if (k in ("cmp:pointcloud.shape[1]<2", "cmp:len(area)//2<3") and v) or (k in ("eq:pointcloud.ndim==2", "eq:len(area)%2==0") and not v)]
        ctx.check(not bad, "C12-winding", "crop_pointcloud", "input-guards", f"the crop proceeds although {bad}", fi=fi)
        need = {"eq:pointcloud.ndim==2", "cmp:pointcloud.shape[1]<2", "cmp:len(area)//2<3", "eq:len(area)%2==0"}
        ctx.check(need <= set(f), "C12-winding", "crop_pointcloud", "input-guards-present", f"a malformed cloud / polygon is not rejected: tests seen {sorted(k for k in f if k in need)}", fi=fi)
        break


def rule_fold(ctx: Ctx) -> None:
    # frame result: non-detection clouds minus every object box
    fi = ctx.func(SFR + "_evaluate_pointcloud_for_non_detection")
    paths = enum_paths(ctx, fi)
    lps = loops_of(paths)
    ctx.require(len(lps) == 1 and S(lps[0].text) == "pointcloud_for_non_detection", "_evaluate_pointcloud_for_non_detection: outer loop not recognised")
    lp = lps[0]
    pc = U(lp.node.target)
    for bp in lp.body:
        inner = [e for e in bp.effects if e.kind == "loop"]
        ctx.require(len(inner) == 1 and S(inner[0].text) == "ground_truth_objects", "_evaluate_pointcloud_for_non_detection: inner loop over ground_truth_objects not recognised")
        g = U(inner[0].node.target)
        run = pc
        for ib in inner[0].body:
            # the running cloud: whatever is re-bound to a crop of itself (the loop variable of the outer loop, or the parameter of a helper the fold was moved into)
            cands = {k: v for k, v in ib.env.items() if isinstance(v, ast.Call) and S(v.func) == "crop_pointcloud"}
            if len(cands) == 1 and pc not in cands:
                run = next(iter(cands))
            v = ib.env.get(run)
            want = f"crop_pointcloud({run},[tuple(e)forein{g}.get_corners(self.sensing_frame_config.get_scale_factor({g}.get_distance())).tolist()],inside=False)"
            got = S(v) if v is not None else "unchanged"
            ctx.check(got == want, "C12-fold", "_evaluate_pointcloud_for_non_detection", "step",
                      f"per object the running cloud becomes `{got[:200]}`; it must be the outside crop of the running cloud itself by the object's scaled box: `{want}`", fi=fi,
                      expected=want, found=got[:260], sample={"step": got[:160]})
        if run != pc:
            init = (inner[0].pre or {}).get(run)
            ctx.check(init is not None and strip_v(S(init)) in (pc, f"{pc}.copy()"), "C12-fold", "_evaluate_pointcloud_for_non_detection", "start",
                      f"the fold starts from `{S(init) if init is not None else None}` instead of the non-detection cloud of this iteration", fi=fi)
        pc_area, pc = pc, run
        rem = fact_where(bp, lambda k: strip_v(S(k)) == f"truthy:{pc}")
        ap = [a for a in appends(bp) if S(a.recv) == "self.pointcloud_failed_non_detection"]
        if rem is None and ap and not any(pc in k for k in bp.facts):
            ctx.violate("C12-fold", "_evaluate_pointcloud_for_non_detection", "no-report",
                        "the cropped cloud is reported as a non-detection failure without checking that any point remains", fi=fi, expected="report iff len(remaining) != 0", found="unconditional append")
            continue
        ctx.require(rem is not None, "_evaluate_pointcloud_for_non_detection: the remaining-points test was not recognised")
        if rem:
            ctx.check(len(ap) == 1 and strip_v(S(ap[0].args[0])) == pc, "C12-fold", "_evaluate_pointcloud_for_non_detection", "report", "remaining points are not reported once as the cropped cloud", fi=fi)
        else:
            ctx.check(not ap, "C12-fold", "_evaluate_pointcloud_for_non_detection", "no-report", "an empty remainder is reported as a failure", fi=fi)
        pc = pc_area
    # manager: area crop, then outside of every scaled object box
    fm = ctx.func("manager.sensing_evaluation_manager.SensingEvaluationManager.crop_pointcloud")
    paths = enum_paths(ctx, fm)
    ctx.require(len(paths) == 1, "SensingEvaluationManager.crop_pointcloud: expected one path")
    p = paths[0]
    lps = [e for e in p.effects if e.kind == "loop"]
    ctx.require(len(lps) == 2, "SensingEvaluationManager.crop_pointcloud: expected the area loop and the object loop")
    a0 = lps[0]
    av = U(a0.node.target)
    ctx.check(S(a0.text) == "non_detection_areas", "C12-fold", "SensingEvaluationManager.crop_pointcloud", "areas", f"the first loop iterates {S(a0.text)}", fi=fm)
    L1 = None
    for bp in a0.body:
        ap = appends(bp)
        L1 = ap[0].recv if len(ap) == 1 else L1  # the list of area-cropped clouds, whatever it is called
        ok = len(ap) == 1 and S(ap[0].args[0]) in (f"crop_pointcloud(pointcloud=pointcloud,area={av})", f"crop_pointcloud(pointcloud,{av})", f"crop_pointcloud(pointcloud=pointcloud,area={av},inside=True)")
        ctx.check(ok, "C12-fold", "SensingEvaluationManager.crop_pointcloud", "area-crop", f"per area the function appends {[S(x.args[0])[:80] for x in ap]}; expected the inside crop of the full cloud by that area", fi=fm)
    o = lps[1]
    ctx.require(L1 is not None, "SensingEvaluationManager.crop_pointcloud: the list of area-cropped clouds was not recognised")
    in_place = S(o.text) == f"enumerate({L1})" and isinstance(o.node.target, ast.Tuple) and len(o.node.target.elts) == 2
    ctx.check(in_place or (S(o.text) == L1 and isinstance(o.node.target, ast.Name)), "C12-fold", "SensingEvaluationManager.crop_pointcloud", "object-loop", f"the second loop iterates {S(o.text)}; expected every area-cropped cloud ({L1}), in order", fi=fm)
    if not (in_place or (S(o.text) == L1 and isinstance(o.node.target, ast.Name))):
        return
    ivar, pv = [U(x) for x in o.node.target.elts] if in_place else (None, U(o.node.target))
    L2 = L1
    run = None
    for bp in o.body:
        inner = [e for e in bp.effects if e.kind == "loop"]
        ctx.require(len(inner) == 1 and S(inner[0].text) == "ground_truth_objects", "SensingEvaluationManager.crop_pointcloud: inner object loop not recognised")
        g = U(inner[0].node.target)
        for ib in inner[0].body:
            cands = {k: S(v) for k, v in ib.env.items() if isinstance(v, ast.Call) and S(v.func) == f"{g}.crop_pointcloud"}
            ctx.require(len(cands) == 1, "SensingEvaluationManager.crop_pointcloud: per-object crop not recognised")
            run, got = next(iter(cands.items()))
            scale = f"get_bbox_scale(distance={g}.get_distance(transforms),box_scale_0m=self.evaluator_config.metrics_params['box_scale_0m'],box_scale_100m=self.evaluator_config.metrics_params['box_scale_100m'])"
            want = f"{g}.crop_pointcloud(pointcloud={run},bbox_scale={scale},inside=False)"
            ctx.check(got == want, "C12-fold", "SensingEvaluationManager.crop_pointcloud", "step",
                      f"per object the running cloud becomes `{got[:220]}`; expected `{want[:220]}` (outside crop of the running cloud, scale for the object's ego distance)", fi=fm,
                      expected=want, found=got[:300])
        init = (inner[0].pre or {}).get(run) if run else None
        ctx.check(init is not None and S(init) in (f"{pv}.copy()", pv), "C12-fold", "SensingEvaluationManager.crop_pointcloud", "start", f"the fold starts from `{S(init) if init is not None else None}` instead of the area-cropped cloud", fi=fm)
        if in_place:
            st = [e for e in bp.effects if e.kind == "store" and S(strip_v(e.recv)) == f"{L1}[{ivar}]"]
            ctx.check(len(st) == 1 and strip_v(S(st[0].value)) == run, "C12-fold", "SensingEvaluationManager.crop_pointcloud", "store", "the folded cloud is not stored back at its index", fi=fm)
        else:
            # the folded clouds are collected, one per area and in order, in a second list
            ap2 = [a for a in appends(bp) if a.recv != L1]
            ok2 = len(ap2) == 1 and strip_v(S(ap2[0].args[0])) == run and not bp.conds and bp.exit == ("fall",)
            L2 = ap2[0].recv if ok2 else L2
            init2 = [S(e.value) for e in p.effects[: p.effects.index(o)] if e.kind == "assign" and e.recv == L2]
            ctx.check(ok2 and init2[-1:] in (["[]"], ["list()"]), "C12-fold", "SensingEvaluationManager.crop_pointcloud", "store", "the folded cloud is not kept once per area, unconditionally, in a fresh list", fi=fm)
    ctx.check(p.retval is not None and strip_v(S(p.retval)) == L2, "C12-fold", "SensingEvaluationManager.crop_pointcloud", "returns", "does not return the cropped clouds", fi=fm)


def rule_scale(ctx: Ctx) -> None:
    F = Formula(rename={"self.box_scale_0m": "s0", "box_scale_0m": "s0", "box_scale_100m": "s100", "self.box_scale_100m": "s100", "distance": "d"})
    spec = "s0 + (s100 - s0) / 100 * d"
    f1 = ctx.func("util.math.get_bbox_scale")
    for p in enum_paths(ctx, f1):
        try:
            ok = F.parse(p.retval).equals(F.parse_text(spec))
        except Unrecognised as exc:
            ctx.require(False, f"get_bbox_scale: {exc}")
        ctx.check(ok, "C12-scale", "get_bbox_scale", "linear", f"scale is `{S(p.retval)[:120]}`; definition: s0 + (s100 - s0)/100 * distance", fi=f1, expected=spec, found=S(p.retval)[:160], sample={"scale": spec})
    f2 = ctx.func("evaluation.sensing.sensing_frame_config.SensingFrameConfig.get_scale_factor")
    ini = ctx.func("evaluation.sensing.sensing_frame_config.SensingFrameConfig.__init__")
    st = {}
    for p in enum_paths(ctx, ini):
        st = {strip_v(e.recv): e.value for e in p.effects if e.kind == "store"}
    ctx.require("self.scale_slope_" in st or True, "SensingFrameConfig.__init__: fields not found")
    ren = {"self.box_scale_0m": "s0", "distance": "d"}
    for p in enum_paths(ctx, f2):
        txt = S(p.retval)
        # substitute the stored slope
        e = p.retval

        class T(ast.NodeTransformer):
            def visit_Attribute(self, node):
                k = S(node)
                if k in st and k not in ("self.box_scale_0m", "self.box_scale_100m"):
                    return st[k]
                return node

        from sa.paths import clone

        e2 = T().visit(clone(e))
        try:
            ok = F.parse(e2).equals(F.parse_text(spec))
        except Unrecognised as exc:
            ctx.require(False, f"get_scale_factor: {exc}")
        ctx.check(ok, "C12-scale", "SensingFrameConfig.get_scale_factor", "linear", f"scale is `{S(e2)[:140]}`; definition: s0 + (s100 - s0)/100 * distance (same as util.math.get_bbox_scale)", fi=f2,
                  expected=spec, found=S(e2)[:160])
    for k, w in (("self.box_scale_0m", "box_scale_0m"), ("self.box_scale_100m", "box_scale_100m"), ("self.min_points_threshold", "min_points_threshold"), ("self.target_uuids", "target_uuids")):
        ctx.check(k in st and S(st[k]) == w, "C12-scale", "SensingFrameConfig.__init__", k, f"{k} = `{S(st[k]) if k in st else None}`", fi=ini)


def rule_box(ctx: Ctx) -> None:
    fo = ctx.func("common.object.DynamicObject.crop_pointcloud")
    for p in enum_paths(ctx, fo):
        rv = S(p.retval) if p.retval is not None else ""
        ok = rv in ("crop_pointcloud(pointcloud,self.get_corners(scale=bbox_scale).tolist(),inside=inside)", "crop_pointcloud(pointcloud,self.get_corners(bbox_scale).tolist(),inside=inside)")
        ctx.check(ok, "C12-box", "DynamicObject.crop_pointcloud", "delegate", f"returns `{rv[:160]}`; expected the crop of the given cloud by the corners of the box scaled by bbox_scale, with the requested side", fi=fo)
    fn = ctx.func("common.object.DynamicObject.get_inside_pointcloud_num")
    for p in enum_paths(ctx, fn):
        rv = S(p.retval) if p.retval is not None else ""
        ctx.check(rv in ("len(self.crop_pointcloud(pointcloud,bbox_scale))", "len(self.crop_pointcloud(pointcloud,bbox_scale,inside=True))"), "C12-box", "DynamicObject.get_inside_pointcloud_num", "count", f"returns `{rv[:120]}`", fi=fn)
    fc = ctx.func("common.object.DynamicObject.get_corners")
    for p in enum_paths(ctx, fc):
        st = {S(strip_v(e.recv)): S(e.value) for e in p.effects if e.kind == "store"}
        fp_txt = "np.array(polygon_to_list(self.get_footprint(scale=scale)))"
        up = [v for k, v in st.items() if k.endswith("[:,2]")]
        want = {"self.state.position[2]+self.state.size[2]/2", "self.state.position[2]-self.state.size[2]/2"}
        ctx.check(set(up) == want, "C12-box", "DynamicObject.get_corners", "z-range", f"top / bottom planes are at {sorted(up)}; expected centre z +- height/2", fi=fc, expected=str(sorted(want)), found=str(sorted(up)))
        rv = strip_v(S(p.retval)) if p.retval is not None else ""
        asg = {e.recv: S(e.value) for e in p.effects if e.kind == "assign"}
        m = __import__("re").match(r"^np\.vstack\(\((\w+),(\w+)\)\)$", rv)
        ok = m is not None and asg.get(m.group(1)) == f"{fp_txt}.copy()" and asg.get(m.group(2)) == f"{fp_txt}.copy()"
        ctx.check(ok, "C12-box", "DynamicObject.get_corners", "footprint", f"corners are `{rv[:120]}` with {dict(list(asg.items())[:2])}; expected upper and lower copies of the footprint scaled by `scale`", fi=fc)
    ff = ctx.func("common.object.DynamicObject.get_footprint")
    paths = enum_paths(ctx, ff)
    for p in paths:
        lp = [e for e in p.effects if e.kind == "loop"]
        ctx.require(len(lp) == 1, "get_footprint: rotation loop not found")
        it = strip_v(S(lp[0].text))
        idx = p.effects.index(lp[0])
        hist = [(e.kind, e.name, S(e.value)) for e in p.effects[:idx] if e.kind in ("assign", "aug") and e.recv == it]
        base = "np.array(polygon_to_list(self.state.footprint))"
        ok_scaled = it in (f"{base}*scale", f"scale*{base}") or hist == [("assign", "", base), ("aug", "Mult", "scale")] or hist == [("assign", "", f"{base}*scale")]
        ctx.check(ok_scaled, "C12-box", "DynamicObject.get_footprint", "scaled-about-centre",
                  f"the footprint points iterated are `{it[:80]}` built by {hist}; the object-frame footprint must be multiplied by `scale` before rotation and translation (scaling about the box centre)", fi=ff)
        pt = U(lp[0].node.target)
        rvt = strip_v(S(p.retval)) if p.retval is not None else ""
        ctx.check(rvt.startswith("Polygon(") and "rotated_footprint" in (rvt + " ".join(strip_v(S(e.value)) for e in p.effects[idx:] if e.kind == "assign")), "C12-box", "DynamicObject.get_footprint", "polygon-of-corners",
                  f"the footprint returned is `{rvt[:80]}`; expected the polygon of the rotated, translated corners", fi=ff)
        for bp in lp[0].body:
            st = {S(strip_v(e.recv)): strip_v(S(e.value)) for e in bp.effects if e.kind == "store"}
            basg = {e.recv: strip_v(S(e.value)) for e in bp.effects if e.kind == "assign"}
            rp = f"self.state.orientation.rotate({pt})"
            augs = [(S(strip_v(e.recv)), e.name, strip_v(S(e.value))) for e in bp.effects if e.kind == "aug"]
            ok_aug = any(basg.get(r.split("[")[0]) == rp and r.endswith("[:2]") and nm == "Add" and v == "self.state.position[:2]" for r, nm, v in augs)
            ok = ok_aug or any(v == f"{rp}[:2]+self.state.position[:2]" for v in st.values()) or any(
                basg.get(k.split("[")[0]) == rp and v == f"{k.split('[')[0]}[:2]+self.state.position[:2]" and k.endswith("[:2]") for k, v in st.items())
            kept = [(a.recv, strip_v(S(a.args[0]))) for a in appends(bp)]
            okk = len(kept) == 1 and kept[0][0] == "rotated_footprint" and not bp.conds and bp.exit == ("fall",) and kept[0][1] in (f"{n2}.tolist()" for n2 in basg) 
            ctx.check(okk, "C12-box", "DynamicObject.get_footprint", "every-corner-kept", f"per footprint point the function keeps {kept}; every rotated, translated corner must be kept once, unconditionally", fi=ff)
            ctx.check(ok, "C12-box", "DynamicObject.get_footprint", "rotate-translate", f"a footprint point becomes {sorted(st.values())[:2]}; expected rotate(point)[:2] + position[:2]", fi=ff)


def run(ctx: Ctx) -> None:
    from rules import generic as _G
    ctx.run(_G.rule_arity, ("perception_eval.evaluation.sensing", "perception_eval.manager.sensing_evaluation_manager", "perception_eval.common.point"), "R-ARITY", 5)
    ctx.run(rule_classify)
    ctx.run(rule_partition)
    ctx.run(rule_winding)
    ctx.run(rule_fold)
    ctx.run(rule_scale)
    ctx.run(rule_box)
    ctx.run(G.rule_tf, ("perception_eval.manager", "perception_eval.evaluation.sensing"), "R-TF", None, 3)
