"""C10 – object filtering keeps exactly the objects satisfying the configured criteria."""
from __future__ import annotations

import ast
import re
from typing import Dict, List, Optional, Tuple

from sa.effects import Effects
from sa.paths import Path, U, strip_v
from sa.report import Ctx
from rules.common import S, appends, enum_paths, fact_where, loops_of

EXPLANATION = (
    "Decides: (1) the complete path table of _is_target_object (about 2*10^4 paths over the None-ness of the eight optional lists, "
    "FP / unknown label, GT flag, frame branch and the opaque comparison atoms) against the spec B7 with three-valued evaluation: the "
    "returned value is the conjunction of exactly the criteria the property lists (label in targets, no ignored attribute, confidence, "
    "|x|, |y|, max / min distance, point count and uuid for ground truth), FP-labelled objects always pass, unknown estimates are relaxed "
    "when unknown is not targeted; no criterion is skipped and none is invented; (2) every comparison atom: strictness and side "
    "(`<` / `>` strict, point count `>=`), the compared quantity (ego-frame x, y, BEV distance – R-FRAME: raw position only under "
    "frame_id == BASE_LINK, otherwise transforms.transform((frame_id, BASE_LINK), position)), and the bound (per-label lookup with the "
    "object's own label in that very list, or mean / 0.0 / 0 when relaxed) – each bound occurs only on the permissive side, so widening "
    "never removes a kept object; (3) get_label_threshold's lookup table - the bound of a label is the entry at the label's (first) index in target_labels; a dict built from zip(target_labels, thresholds), where the last duplicate wins, is reported; Label.contains / contains_any; (4) filter idiom: both filters "
    "append the loop element itself iff the predicate holds, in order, into a fresh list; the predicate and the filters mutate nothing "
    "(mutation summaries) – hence order-preserving sub-list and idempotence. Does not decide: the truth of the opaque atoms on concrete "
    "objects."
)

OF = "evaluation.matching.objects_filter."
OBJ = "dynamic_object"
LISTS = {
    "x": "max_x_position_list",
    "y": "max_y_position_list",
    "maxd": "max_distance_list",
    "mind": "min_distance_list",
    "conf": "confidence_threshold_list",
    "pts": "min_point_numbers",
}
RELAXED_BOUND = {"x": "np.mean({L})", "y": "np.mean({L})", "maxd": "np.mean({L})", "mind": "np.mean({L})", "conf": "0.0", "pts": "0"}
LOOKUP = f"LabelThreshold(semantic_label={OBJ}.semantic_label,target_labels=target_labels).get_label_threshold({{L}})"
EGO_RAW = f"{OBJ}.state.position"
EGO_TF = f"transforms.transform(({OBJ}.frame_id,FrameID.BASE_LINK),{OBJ}.state.position)"
BEV_RAW = f"{OBJ}.get_distance_bev()"
BEV_TF = f"{OBJ}.get_distance_bev(transforms)"
BEV_TF_KW = f"{OBJ}.get_distance_bev(transforms=transforms)"


def AND3(terms: List[Optional[bool]]) -> Optional[bool]:
    if any(t is False for t in terms):
        return False
    if any(t is None for t in terms):
        return None
    return True


def classify_cmp(key: str) -> Optional[Tuple[str, str, str, str]]:
    """cmp atom -> (criterion, operator as written value-vs-bound, value text, bound text)."""
    m = re.match(r"^cmp:(.*?) (<=|<) (.*)$", strip_v(key))
    if not m:
        return None
    l, op, r = S(m.group(1)), m.group(2), S(m.group(3))
    if "semantic_score" in r and "semantic_score" not in l:
        return ("conf", ">" if op == "<" else ">=", r, l)
    if "semantic_score" in l:
        return ("conf", "<" if op == "<" else "<=", l, r)
    if l.startswith("abs(") and l.endswith("[0])"):
        return ("x", op, l, r)
    if l.startswith("abs(") and l.endswith("[1])"):
        return ("y", op, l, r)
    if r.startswith("abs(") and (r.endswith("[0])") or r.endswith("[1])")):
        return ("x" if r.endswith("[0])") else "y", ">" if op == "<" else ">=", r, l)
    if "pointcloud_num" in r:
        return ("pts", ">" if op == "<" else ">=", r, l)
    if "pointcloud_num" in l:
        return ("pts", op, l, r)
    if "get_distance_bev" in l and "get_distance_bev" not in r:
        return ("maxd" if "max_distance_list" in r else "mind" if "min_distance_list" in r else "maxd?", op, l, r)
    if "get_distance_bev" in r and "get_distance_bev" not in l:
        return ("mind" if "min_distance_list" in l else "maxd" if "max_distance_list" in l else "mind?", ">" if op == "<" else ">=", r, l)
    return None


WANT_OP = {"conf": ">", "x": "<", "y": "<", "maxd": "<", "mind": ">", "pts": ">="}


def rule_predicate(ctx: Ctx) -> None:
    fi = ctx.func(OF + "_is_target_object")
    paths = enum_paths(ctx, fi, bool_returns=True)
    ctx.require(len(paths) >= 500, f"_is_target_object: only {len(paths)} paths")
    atom_checked: Dict[Tuple[str, bool, str], bool] = {}
    bad_rows = 0
    n_rows = 0
    unknown_keys = set()
    for p in paths:
        if p.exit and p.exit[0] == "raise":
            ok_assert = p.exit[1] == "AssertionError" and any((not v) and ("target_uuids" in k) for k, v in p.facts.items())
            ctx.require(ok_assert, f"_is_target_object: unexpected raising path [{p.cond_text()[-160:]}]")
            continue
        ctx.require(p.exit == ("return",) and isinstance(p.retval, ast.Constant), f"_is_target_object: undecided return on a path")
        val = bool(p.retval.value)
        f = {strip_v(k): v for k, v in p.facts.items()}
        fs = {S(k): v for k, v in f.items()}
        fp = fs.get(f"call:{OBJ}.semantic_label.is_fp()")
        if fp is None:
            if not any(f"{OBJ}.semantic_label.is_fp()" in S(k) for q in paths for k in q.facts):
                ctx.violate("C10-predicate", "_is_target_object", "fp-label-always-passes",
                            "the predicate never looks at the false-positive label: FP-labelled objects are filtered like ordinary ones, they must always pass", fi=fi)
                return
            ctx.require(False, "_is_target_object: the FP-label test is not the first decision")
        n_rows += 1
        if fp:
            if not val:
                bad_rows += 1
                ctx.violate("C10-predicate", "_is_target_object", "fp-label-always-passes", "a false-positive-labelled object is filtered out; it must always pass", fi=fi)
            continue
        unk = fs.get(f"call:{OBJ}.semantic_label.is_unknown()")
        is_gt = fs.get("truthy:is_gt")
        tl_none = fs.get("none:target_labels")
        cont = next((v for k, v in fs.items() if k.startswith("call:any([") and "CommonLabel.UNKNOWN" in k), None)
        for k in fs:
            if k.startswith("call:any([") and "CommonLabel.UNKNOWN" in k and ("unk-def", k) not in atom_checked:
                atom_checked[("unk-def", k)] = True
                okd = re.match(r"^call:any\(\[(\w+)==CommonLabel\.UNKNOWNfor\1intarget_labels\]\)$", k) is not None or re.match(r"^call:any\(\[CommonLabel\.UNKNOWN==(\w+)for\1intarget_labels\]\)$", k) is not None
                ctx.check(okd, "C10-predicate", "_is_target_object", "unknown-targeted-test", f"whether `unknown` is a target label is decided by `{k[5:][:100]}`; expected any(label == CommonLabel.UNKNOWN for label in target_labels) "
                          "(the relaxed bounds apply to unknown-labelled estimates only when unknown is NOT itself a target)", fi=fi, expected="any([label == CommonLabel.UNKNOWN for label in target_labels])", found=k[5:][:120])
        contained = False if tl_none else cont
        if unk is False or is_gt is True:
            relaxed = False
        elif unk and is_gt is False:
            relaxed = None if contained is None else (not contained)
        else:
            relaxed = None
        terms: List[Optional[bool]] = []
        # label
        tl_truthy = fs.get("truthy:target_labels")
        if tl_none:
            tl_truthy = False
        if tl_truthy is None:
            terms.append(None)
        elif tl_truthy and relaxed is None:
            terms.append(None)
        elif tl_truthy and not relaxed:
            terms.append(fs.get(f"in:{OBJ}.semantic_label.labelintarget_labels"))
        # ignore attributes
        ig_none = fs.get("none:ignore_attributes")
        if ig_none is None:
            terms.append(None)
        elif not ig_none and relaxed is None:
            terms.append(None)
        elif not ig_none and not relaxed:
            c = fs.get(f"call:{OBJ}.semantic_label.contains_any(ignore_attributes)")
            terms.append(None if c is None else (not c))
        # comparison atoms on this path
        cmps: Dict[str, Tuple[bool, str, str, str]] = {}
        for k, v in f.items():
            if k.startswith("cmp:"):
                c = classify_cmp(k)
                if c is None or c[0].endswith("?"):
                    unknown_keys.add(k)
                    continue
                cmps[c[0]] = (v, c[1], c[2], c[3])
        # frame branch / availability of an ego position
        tf_none = fs.get("none:transforms")
        base = fs.get(f"eq:{OBJ}.frame_id==FrameID.BASE_LINK")
        pos_none = fs.get(f"none:{OBJ}.state.position")
        if tf_none and base:
            branch = "raw"
        elif tf_none is False and pos_none is False:
            branch = "tf"
        elif (tf_none and base is False) or (tf_none is False and pos_none) or (tf_none and base is None and False):
            branch = "none"
        else:
            branch = None
        art_pos = next((v for k, v in fs.items() if k.startswith("none:") and (k[5:] == EGO_RAW and branch == "raw" or k[5:] == EGO_TF)), None)
        art_bev = next((v for k, v in fs.items() if k.startswith("none:") and k[5:] in (BEV_RAW, BEV_TF, BEV_TF_KW)), None)
        pos_av = None if branch is None else (False if branch == "none" else (art_pos is not True))
        bev_av = None if branch is None else (False if branch == "none" else (art_bev is not True))

        def crit(name: str, guard_extra: Optional[bool] = True):
            ln = fs.get(f"none:{LISTS[name]}")
            if ln is None or (ln is False and guard_extra is None):
                terms.append(None)
                return
            if ln or not guard_extra:
                if name in cmps:
                    pass
                return
            terms.append(cmps[name][0] if name in cmps else None)

        crit("conf")
        if pos_av is None:
            terms.append(None)
        elif pos_av:
            crit("x")
            crit("y")
        if bev_av is None:
            terms.append(None)
        elif bev_av:
            crit("maxd")
            crit("mind")
            crit("pts", is_gt)
        uu_none = fs.get("none:target_uuids")
        if uu_none is None or (uu_none is False and is_gt is None):
            terms.append(None)
        elif uu_none is False and is_gt:
            a1 = fs.get("isinstance:target_uuids,list")
            a2 = next((v for k, v in fs.items() if k.startswith("call:all([isinstance(")), None)
            if a1 is False or a2 is False:
                continue  # assertion error path
            terms.append(fs.get(f"in:{OBJ}.uuidintarget_uuids"))
        want = AND3(terms)
        if want is None:
            # the code decided although a criterion the spec needs was not evaluated
            if val:
                bad_rows += 1
                ctx.violate("C10-predicate", "_is_target_object", "kept-without-checking",
                            f"an object is kept on a path that does not evaluate every configured criterion: [{p.cond_text()[:300]}]", fi=fi)
            else:
                bad_rows += 1
                ctx.violate("C10-predicate", "_is_target_object", "dropped-without-failing",
                            f"an object is dropped on a path where no configured criterion fails: [{p.cond_text()[:300]}]", fi=fi)
        elif want != val:
            bad_rows += 1
            failing = "a configured criterion fails" if not want else "every configured criterion holds"
            ctx.violate("C10-predicate", "_is_target_object", "kept-although-failing" if val else "dropped-although-passing",
                        f"_is_target_object returns {val} although {failing} on [{p.cond_text()[:300]}]", fi=fi, expected=str(want), found=str(val))
        # --- operand checks of every comparison atom seen on this path
        for name, (v, op, value_t, bound_t) in cmps.items():
            if relaxed is None:
                ctx.violate("C10-bound", "_is_target_object", f"{name}:relaxation-ignored",
                            f"criterion {name}: the bound `{bound_t[:100]}` is chosen without deciding whether the unknown-label relaxation applies; ordinary objects need the per-label bound, relaxed ones the mean / zero bound",
                            fi=fi, expected=LOOKUP.format(L=LISTS[name]), found=bound_t[:160])
                continue
            keyk = (name, bool(relaxed), branch or "?")
            sig = (op, value_t, bound_t)
            if atom_checked.get(keyk + (sig,)) is not None:  # type: ignore
                continue
            atom_checked[keyk + (sig,)] = True  # type: ignore
            L = LISTS[name]
            ctx.check(op == WANT_OP[name], "C10-strictness", "_is_target_object", f"{name}:{op}:relaxed={int(bool(relaxed))}",
                      f"criterion {name}: the object is kept iff value {op} bound; the property requires `{WANT_OP[name]}` (strictly inside the range; point count >=)",
                      fi=fi, expected=f"value {WANT_OP[name]} bound", found=f"{value_t} {op} {bound_t}"[:200], sample={"criterion": name, "op": op})
            wb = (RELAXED_BOUND[name] if relaxed else LOOKUP).format(L=L)
            ctx.check(bound_t == wb, "C10-bound", "_is_target_object", f"{name}:relaxed={int(bool(relaxed))}:{bound_t[:50]}",
                      f"criterion {name} ({'relaxed' if relaxed else 'per label'}): the bound is `{bound_t[:140]}`; expected `{wb}`", fi=fi, expected=wb, found=bound_t[:200])
            if name in ("x", "y"):
                i = "0" if name == "x" else "1"
                wv = {"raw": f"abs({EGO_RAW}[{i}])", "tf": f"abs({EGO_TF}[{i}])"}.get(branch or "")
                ctx.check(wv is not None and value_t == wv, "R-FRAME", "_is_target_object", f"{name}:{branch}",
                          f"criterion {name}: the compared coordinate is `{value_t[:140]}`; with {'an ego-frame object' if branch == 'raw' else 'transforms'} it must be `{wv}` (ego-relative)",
                          fi=fi, expected=str(wv), found=value_t[:200])
            elif name in ("maxd", "mind"):
                wv = {"raw": BEV_RAW, "tf": BEV_TF}.get(branch or "")
                if branch == "tf" and value_t == BEV_TF_KW:
                    value_t = BEV_TF
                ctx.check(wv is not None and value_t == wv, "R-FRAME", "_is_target_object", f"{name}:{branch}",
                          f"criterion {name}: the compared distance is `{value_t[:140]}`; expected `{wv}` (ego-relative BEV distance)", fi=fi, expected=str(wv), found=value_t[:200])
            elif name == "conf":
                ctx.check(value_t == f"{OBJ}.semantic_score", "C10-bound", "_is_target_object", "conf:value", f"confidence criterion compares `{value_t}`", fi=fi)
            elif name == "pts":
                ctx.check(value_t == f"{OBJ}.pointcloud_num", "C10-bound", "_is_target_object", "pts:value", f"point-count criterion compares `{value_t}`", fi=fi)
    ctx.table_rows += n_rows
    ctx.extra["predicate_paths"] = n_rows
    if unknown_keys:
        k0 = sorted(unknown_keys)[0]
        ctx.require(False, f"_is_target_object: comparison `{k0[:160]}` is not one of the known criteria")
    if bad_rows == 0:
        ctx.ok("C10-predicate", "_is_target_object", f"all-{n_rows}-paths-agree-with-spec-B7", sample={"paths": n_rows})
    seen = {k[0] for k in atom_checked}
    ctx.require(seen >= set(LISTS), f"_is_target_object: criteria {sorted(set(LISTS) - seen)} never compared")


def rule_lookup(ctx: Ctx) -> None:
    fi = ctx.func("common.threshold.get_label_threshold")
    paths = enum_paths(ctx, fi)
    rows = 0
    for p in paths:
        fs = {S(k): v for k, v in p.facts.items()}
        tl = fs.get("none:target_labels")
        th = fs.get("none:threshold_list")
        inn = fs.get("in:semantic_label.labelintarget_labels")
        rv = S(p.retval) if p.retval is not None else "None"
        rows += 1
        if tl or th or inn is False:
            ctx.check(rv == "None", "C10-lookup", "get_label_threshold", f"none:{int(bool(tl))}{int(bool(th))}{int(inn is False)}", f"returns `{rv}` where no threshold applies (must be None)", fi=fi)
        elif inn:
            ctx.check(rv == "threshold_list[target_labels.index(semantic_label.label)]", "C10-lookup", "get_label_threshold", "hit",
                      f"returns `{rv}`; the bound of a label is the entry of the list at the label's index in target_labels", fi=fi,
                      expected="threshold_list[target_labels.index(semantic_label.label)]", found=rv)
        elif re.search(r"dict\(zip\(target_labels,threshold_list\)\)|\{\w+:\w+for\(?\w+,\w+\)?inzip\(target_labels,threshold_list\)\}", rv + "".join(S(e.value) for e in p.effects if e.kind == "assign" and e.value is not None)):
            ctx.violate("C10-lookup", "get_label_threshold", "hit",
                        f"returns `{rv}`: a dict built from zip(target_labels, threshold_list) keeps the LAST entry of a label that occurs more than once in target_labels "
                        "(merge_similar_labels maps car/bus/truck ... onto one label); the bound of a label is the entry at the label's (first) index", fi=fi,
                        expected="threshold_list[target_labels.index(semantic_label.label)]", found=rv)
        else:
            ctx.require(False, f"get_label_threshold: path not over the expected atoms [{p.cond_text()}]")
    ctx.require(rows >= 4, "get_label_threshold: table incomplete")
    # LabelThreshold.get_label_threshold forwards its own label / targets
    lt = ctx.func("common.threshold.LabelThreshold.get_label_threshold")
    for p in enum_paths(ctx, lt):
        rv = S(p.retval) if p.retval is not None else ""
        ok = rv == "get_label_threshold(semantic_label=self.semantic_label,target_labels=self.target_labels,threshold_list=threshold_list)" or rv == "get_label_threshold(self.semantic_label,self.target_labels,threshold_list)"
        ctx.check(ok, "C10-lookup", "LabelThreshold.get_label_threshold", "forward", f"forwards `{rv}`", fi=lt)
    li = ctx.func("common.threshold.LabelThreshold.__init__")
    for p in enum_paths(ctx, li):
        st = {strip_v(e.recv): S(e.value) for e in p.effects if e.kind == "store"}
        ctx.check(st.get("self.semantic_label") == "semantic_label" and st.get("self.target_labels") == "target_labels", "C10-lookup", "LabelThreshold.__init__", "fields", f"stores {st}", fi=li)
    # Label.contains / contains_any
    c1 = ctx.func("common.label.Label.contains")
    for p in enum_paths(ctx, c1, bool_returns=True):
        if p.exit and p.exit[0] == "raise":
            continue
        fs = {S(k): v for k, v in p.facts.items()}
        a = fs.get("in:keyinself.name")
        b = fs.get("in:keyinself.attributes")
        val = bool(p.retval.value)
        want = bool(a) or bool(b)
        ctx.check(val == want and (a is not None) and not (a is False and b is None), "C10-lookup", "Label.contains", f"name={a},attr={b}",
                  f"Label.contains returns {val} for (key in name={a}, key in attributes={b}); it must hold iff the key occurs in the name or in the attributes", fi=c1)
    c2 = ctx.func("common.label.Label.contains_any")
    for p in enum_paths(ctx, c2):
        if p.exit and p.exit[0] == "raise":
            continue
        rv = S(p.retval) if p.retval is not None else ""
        ctx.check(rv in ("any([self.contains(key)forkeyinkeys])", "any(self.contains(key)forkeyinkeys)"), "C10-lookup", "Label.contains_any", "any", f"contains_any returns `{rv}`", fi=c2)


def rule_filter_idiom(ctx: Ctx) -> None:
    fi = ctx.func(OF + "filter_objects")
    paths = enum_paths(ctx, fi)
    lps = loops_of(paths)
    CRIT = ["is_gt", "target_labels", "ignore_attributes", "max_x_position_list", "max_y_position_list", "max_distance_list", "min_distance_list", "min_point_numbers",
            "confidence_threshold_list", "target_uuids", "transforms"]
    if not lps:
        # the same filter written as a comprehension: [o for o in objects if _is_target_object(o, <every criterion under its own name>)]
        done = False
        for p in paths:
            rv = p.retval
            if rv is not None and not isinstance(rv, ast.ListComp):
                rv = p.env.get(strip_v(S(rv))) or next((e.value for e in reversed(p.effects) if e.kind == "assign" and e.recv == strip_v(S(p.retval))), None)
            if not (isinstance(rv, ast.ListComp) and len(rv.generators) == 1 and S(rv.generators[0].iter) == "objects" and len(rv.generators[0].ifs) == 1):
                continue
            v = U(rv.generators[0].target)
            t = rv.generators[0].ifs[0]
            ok = S(rv.elt) == v and isinstance(t, ast.Call) and S(t.func) == "_is_target_object"
            ctx.check(ok, "C10-filter-idiom", "filter_objects", "keep", "the comprehension does not keep exactly the elements that pass _is_target_object", fi=fi)
            if ok:
                kw = {k.arg: S(k.value) for k in t.keywords}
                ctx.check(kw.get("dynamic_object", S(t.args[0]) if t.args else None) == v, "C10-filter-idiom", "filter_objects", "subject", "the predicate is not applied to the element", fi=fi)
                for k in CRIT:
                    ctx.check(kw.get(k) == k, "C10-filter-idiom", "filter_objects", f"forward:{k}", f"`{k}` reaches the predicate as `{kw.get(k)}`", fi=fi, expected=k, found=str(kw.get(k)))
            done = True
        ctx.require(done, "filter_objects: neither the filter loop nor an equivalent comprehension over objects was recognised")
    else:
        _filter_loop_form(ctx, fi, paths, lps, CRIT)
    _filter_results_form(ctx)


def _filter_loop_form(ctx: Ctx, fi, paths, lps, CRIT) -> None:
    ctx.require(len(lps) == 1 and S(lps[0].text) == "objects", "filter_objects: loop over objects not recognised")
    lp = lps[0]
    o = U(lp.node.target)
    names = [a.arg for a in fi.params()]
    for bp in lp.body:
        pred = fact_where(bp, lambda k: k.startswith("call:_is_target_object("))
        ctx.require(pred is not None, "filter_objects: the loop body does not branch on _is_target_object")
        ap = appends(bp)
        if pred:
            ok = len(ap) == 1 and ap[0].recv == "filtered_objects" and S(ap[0].args[0]) == o
            ctx.check(ok, "C10-filter-idiom", "filter_objects", "keep", f"an object passing the predicate is appended as {[S(a.args[0]) for a in ap]}; it must be the element itself, once", fi=fi)
        else:
            ctx.check(not ap, "C10-filter-idiom", "filter_objects", "drop", "an object failing the predicate is kept", fi=fi)
    # every criterion parameter is forwarded under its own name
    calls = [e for bp in lp.body for e in bp.effects if e.kind in ("call", "ccall") and e.name == "_is_target_object"]
    ctx.require(bool(calls), "filter_objects: predicate call not found")
    c = calls[0]
    ctx.check(S(c.kwargs.get("dynamic_object")) == o, "C10-filter-idiom", "filter_objects", "subject", "the predicate is not applied to the loop element", fi=fi)
    for k in ["is_gt", "target_labels", "ignore_attributes", "max_x_position_list", "max_y_position_list", "max_distance_list", "min_distance_list", "min_point_numbers",
              "confidence_threshold_list", "target_uuids", "transforms"]:
        a = c.kwargs.get(k)
        ctx.check(a is not None and S(a) == k, "C10-filter-idiom", "filter_objects", f"forward:{k}", f"`{k}` reaches the predicate as `{S(a) if a is not None else None}`", fi=fi, expected=k, found=S(a) if a is not None else "None")
    for p in paths:
        init = [S(e.value) for e in p.effects if e.kind == "assign" and e.recv == "filtered_objects"]
        ctx.check(init == ["[]"], "C10-filter-idiom", "filter_objects", "fresh", f"the output list is initialised as {init}; it must be a fresh empty list", fi=fi)
        ctx.check(p.retval is not None and strip_v(S(p.retval)) == "filtered_objects", "C10-filter-idiom", "filter_objects", "returns", "does not return the list it built", fi=fi)


def _filter_results_form(ctx: Ctx) -> None:
    # filter_object_results: same idiom (details of the two-sided check are in C03)
    fr = ctx.func(OF + "filter_object_results")
    pr = enum_paths(ctx, fr)
    l2 = loops_of(pr)
    ctx.require(len(l2) == 1 and S(l2[0].text) == "object_results", "filter_object_results: loop not recognised")
    r = U(l2[0].node.target)
    for bp in l2[0].body:
        for a in appends(bp):
            ctx.check(a.recv == "filtered_object_results" and S(a.args[0]) == r, "C10-filter-idiom", "filter_object_results", "keep", "appends something else than the loop element", fi=fr)
    for p in pr:
        init = [S(e.value) for e in p.effects if e.kind == "assign" and e.recv == "filtered_object_results"]
        ctx.check(init == ["[]"] and p.retval is not None and strip_v(S(p.retval)) == "filtered_object_results", "C10-filter-idiom", "filter_object_results", "fresh", "output list is not a fresh list that is returned", fi=fr)


def rule_manager(ctx: Ctx) -> None:
    """PerceptionEvaluationManager._filter_objects: both sides are filtered with the configured criteria (estimates as estimates, ground truth as ground truth, same
    transforms), the FILTERED lists are matched with the configured options, and the uuid selection is applied iff configured."""
    fi = ctx.func("manager.perception_evaluation_manager.PerceptionEvaluationManager._filter_objects")
    paths = enum_paths(ctx, fi)
    ctx.require(len(paths) == 2, f"_filter_objects: {len(paths)} paths (expected with / without target_uuids)")
    for p in paths:
        f = {S(k): v for k, v in p.facts.items()}
        uu = next((v for k, v in f.items() if "target_uuids" in k and k.startswith(("call:", "truthy:"))), None)
        ctx.require(uu is not None, "_filter_objects: the target_uuids test was not recognised")
        fo = [e for e in p.effects if e.kind == "call" and e.name == "filter_objects"]
        ctx.check(len(fo) == 2, "C10-manager", "_filter_objects", "filters-both", f"filter_objects is applied {len(fo)}x; estimates and ground truth must each be filtered once", fi=fi)
        if len(fo) != 2:
            continue
        e_est = next((e for e in fo if S(e.kwargs.get("is_gt")) == "False"), None)
        e_gt = next((e for e in fo if S(e.kwargs.get("is_gt")) == "True"), None)
        ctx.check(e_est is not None and e_gt is not None, "C10-manager", "_filter_objects", "is_gt-flags", f"the two filter calls carry is_gt={[S(e.kwargs.get('is_gt')) for e in fo]}; expected one False (estimates) and one True (ground truth)", fi=fi)
        if e_est is None or e_gt is None:
            continue
        GT = S(e_gt.kwargs.get("objects"))[: -len(".objects")] if S(e_gt.kwargs.get("objects")).endswith(".objects") else "?"
        ctx.check(S(e_est.kwargs.get("objects")) == "estimated_objects", "C10-manager", "_filter_objects", "est:objects", f"the estimate filter receives `{S(e_est.kwargs.get('objects'))[:60]}`", fi=fi)
        ctx.check(GT == "frame_ground_truth" or re.match(r"^(\w+\.)?copy\(frame_ground_truth\)$", GT) is not None, "C10-manager", "_filter_objects", "gt:objects",
                  f"the ground-truth filter receives `{S(e_gt.kwargs.get('objects'))[:60]}`; expected the frame's objects", fi=fi)
        for e, side in ((e_est, "est"), (e_gt, "gt")):
            ctx.check(S(e.kwargs.get("**")) == "self.filtering_params", "C10-manager", "_filter_objects", f"{side}:criteria", f"the {side} filter is configured by `{S(e.kwargs.get('**'))}`; expected **self.filtering_params", fi=fi)
            ctx.check(S(e.kwargs.get("transforms")).endswith("frame_ground_truth).transforms") or S(e.kwargs.get("transforms")) == "frame_ground_truth.transforms", "R-TF", "_filter_objects", f"{side}:transforms",
                      f"the {side} filter receives transforms=`{S(e.kwargs.get('transforms'))}`; expected the frame's transforms", fi=fi)
        sto = [e for e in p.effects if e.kind == "store" and S(e.recv).endswith(".objects")]
        ctx.check(len(sto) == 1 and S(sto[0].recv) == GT + ".objects" and S(sto[0].value).startswith("filter_objects(") and "is_gt=True" in S(sto[0].value), "C10-manager", "_filter_objects", "gt:stored",
                  f"the filtered ground truth is stored by {[(S(e.recv), S(e.value)[:40]) for e in sto]}; expected <frame copy>.objects = filter_objects(..., is_gt=True, ...)", fi=fi)
        go = [e for e in p.effects if e.kind == "call" and e.name == "get_object_results"]
        ctx.require(len(go) == 1, "_filter_objects: get_object_results is not called exactly once")
        kw = {k: S(v) for k, v in go[0].kwargs.items()}
        want = {"evaluation_task": "self.evaluation_task", "ground_truth_objects": GT + ".objects", "target_labels": "self.target_labels",
                "matching_label_policy": "self.evaluator_config.label_params['matching_label_policy']", "matchable_thresholds": "self.filtering_params['max_matchable_radii']",
                "transforms": GT + ".transforms", "uuid_matching_first": "self.filtering_params['uuid_matching_first']"}
        for k, w in want.items():
            ctx.check(kw.get(k) == w, "C10-manager", "_filter_objects", f"match:{k}", f"get_object_results({k}=`{str(kw.get(k))[:80]}`); expected `{w}`", fi=fi, expected=w, found=str(kw.get(k))[:120])
        ctx.check(kw.get("estimated_objects", "").startswith("filter_objects(objects=estimated_objects,is_gt=False"), "C10-manager", "_filter_objects", "match:estimated_objects",
                  f"the matcher receives estimated_objects=`{kw.get('estimated_objects', '')[:80]}`; expected the FILTERED estimates", fi=fi)
        fr = [e for e in p.effects if e.kind == "call" and e.name == "filter_object_results"]
        ctx.check((len(fr) == 1) == bool(uu), "C10-manager", "_filter_objects", f"uuid-selection:{int(bool(uu))}", f"target_uuids {'configured' if uu else 'not configured'} but filter_object_results is applied {len(fr)}x", fi=fi)
        if fr:
            k2 = {k: S(v) for k, v in fr[0].kwargs.items()}
            ctx.check(k2.get("target_uuids") == "self.filtering_params['target_uuids']" and k2.get("object_results", "").startswith("get_object_results(") and k2.get("transforms") == GT + ".transforms",
                      "C10-manager", "_filter_objects", "uuid-selection:args", f"filter_object_results receives {dict((k, v[:40]) for k, v in k2.items())}", fi=fi)
        rv = p.retval
        ctx.check(isinstance(rv, ast.Tuple) and len(rv.elts) == 2 and S(rv.elts[1]) == GT and S(rv.elts[0]).startswith("filter_object_results(" if uu else "get_object_results("), "C10-manager", "_filter_objects",
                  f"returns:{int(bool(uu))}", f"returns `{S(rv)[:100]}`; expected (object results, the narrowed copy of the frame)", fi=fi)


def rule_pure(ctx: Ctx) -> None:
    ef = Effects(ctx.index, ctx.resolver)
    ef.solve()
    n = 0
    for fn in ("_is_target_object", "filter_objects", "filter_object_results"):
        fi = ctx.func(OF + fn)
        summ = ef.of(fi)
        for (param, path), m in list(summ.mutates.items()) or [(("", ""), None)]:
            n += 1
            ctx.check(m is None, "C10-pure", fn, f"{param}{path}" if m else "no-mutation",
                      f"{fn} may mutate its argument `{param}{path}` ({m.how} at line {m.line}{' via ' + m.via if m and m.via else ''}): filtering must not change its input" if m else "", fi=fi)
    for fn in ("common.threshold.get_label_threshold", "common.label.Label.contains_any", "common.object.DynamicObject.get_distance_bev"):
        fi = ctx.func(fn)
        summ = ef.of(fi)
        n += 1
        ctx.check(not summ.mutates, "C10-pure", fn.rsplit(".", 1)[-1], "no-mutation", f"{fn} mutates {list(summ.mutates)[:2]}", fi=fi)
    ctx.require(n >= 6, "purity summaries: fewer than 6 instances")


def run(ctx: Ctx) -> None:
    from rules import frames as FR

    ctx.run(FR.rule_accessors)  # the ego-distance accessor the predicate relies on (R-FRAME)
    ctx.run(rule_predicate)
    ctx.run(rule_lookup)
    ctx.run(rule_filter_idiom)
    ctx.run(rule_pure)
    ctx.run(rule_manager)
    from rules import C03
    ctx.run(C03.rule_filter_both)  # a paired result is kept iff its estimate AND its ground truth pass the same filter (GT-less: iff no uuid selection)
