"""Frame discipline and angle rules shared by C07 / C09 (R-FRAME accessors, R-SIGNEDYAW, R-ANGLEWRAP)."""
from __future__ import annotations

import ast
from fractions import Fraction
from typing import List, Optional, Tuple

from sa.formula import Formula, Rat, Unrecognised, p_sym
from sa.index import walk_own
from sa.paths import Path, U, strip_v
from sa.report import Ctx
from sa.source import parent_of
from rules import generic as G
from rules.common import S, enum_paths, fact_where, find_calls

OBJQ = "common.object.DynamicObject."
KEY = "(self.frame_id,FrameID.BASE_LINK)"


# ----------------------------------------------------------------------------
# frame-dispatching accessors
# ----------------------------------------------------------------------------
def _strip_float(e: ast.expr) -> ast.expr:
    while isinstance(e, ast.Call) and S(e.func) == "float" and len(e.args) == 1:
        e = e.args[0]
    return e


def _where(e: ast.expr) -> Optional[Tuple[ast.expr, ast.expr, ast.expr]]:
    e = _strip_float(e)
    if isinstance(e, ast.Call) and S(e.func) in ("np.where", "numpy.where") and len(e.args) == 3:
        return e.args[0], e.args[1], e.args[2]
    if isinstance(e, ast.IfExp):
        return e.test, e.body, e.orelse
    return None


def check_wrap(ctx: Ctx, rule: str, construct: str, expr: ast.expr, fi, depth: int = 0) -> ast.expr:
    """Peel a chain of `where(I ? bound, I +- 2*pi*k, I)` nodes; returns the innermost input."""
    w = _where(expr)
    if w is None:
        return _strip_float(expr)
    c, a, b = w
    F = Formula()
    ctx.require(isinstance(c, ast.Compare) and len(c.ops) == 1, f"{construct}: wrap condition `{S(c)[:80]}` is not a single comparison")
    l, op, r = c.left, c.ops[0], c.comparators[0]

    def pi_coeff(x) -> Optional[Fraction]:
        try:
            q = F.parse(x)
        except Unrecognised:
            return None
        if q.equals(F.parse_text("pi")):
            return Fraction(1)
        if q.equals(F.parse_text("-pi")):
            return Fraction(-1)
        return None

    cl, cr = pi_coeff(l), pi_coeff(r)
    ctx.require((cl is None) != (cr is None), f"{construct}: wrap condition `{S(c)[:80]}` does not compare an angle with +-pi")
    I = r if cl is not None else l
    bound = cl if cl is not None else cr
    gt = isinstance(op, (ast.Gt, ast.GtE)) if cr is not None else isinstance(op, (ast.Lt, ast.LtE))
    lt = isinstance(op, (ast.Lt, ast.LtE)) if cr is not None else isinstance(op, (ast.Gt, ast.GtE))
    kind = "hi" if (gt and bound == 1) else "lo" if (lt and bound == -1) else None
    inst = f"wrap{depth}:{kind}"
    ctx.check(kind is not None, rule, construct, f"wrap{depth}:condition",
              f"wrap condition `{S(c)[:100]}` is neither `angle > pi` nor `angle < -pi`", fi=fi, expected="angle > pi / angle < -pi", found=S(c)[:120])
    if kind is None:
        return _strip_float(I)
    try:
        fI, fa, fb = F.parse(_strip_float(I)), F.parse(_strip_float(a)), F.parse(_strip_float(b))
    except Unrecognised as exc:
        ctx.require(False, f"{construct}: {exc}")
    want = "-2*pi" if kind == "hi" else "2*pi"
    ok = (fa - fI).equals(F.parse_text(want)) and fb.equals(fI)
    delta = fa - fI
    ctx.check(ok, rule, construct, inst,
              f"an angle {'above pi' if kind == 'hi' else 'below -pi'} is adjusted by `{S(a)[-60:]}` (other branch `{S(b)[-40:]}`); it must be shifted by exactly {want.replace('*', '')} (a full turn) and left unchanged otherwise",
              fi=fi, expected=f"angle {'-' if kind == 'hi' else '+'} 2*pi", found=f"delta = {delta!r}"[:160], sample={"wrap": kind, "shift": want})
    return check_wrap(ctx, rule, construct, I, fi, depth + 1)


def rule_accessors(ctx: Ctx, rule: str = "R-FRAME") -> None:
    specs = [
        (OBJQ + "get_distance", "np.linalg.norm({P})", False),
        (OBJQ + "get_distance_bev", "math.hypot({P}[0],{P}[1])", False),
        ("common.object2d.DynamicObject2D.get_distance_bev", "math.hypot({P}[0],{P}[1])", False),
        (OBJQ + "get_heading_bev", None, True),
    ]
    from sa.effects import Effects
    ef = Effects(ctx.index, ctx.resolver)
    ef.solve()
    for fq, shape, heading in specs:
        fi = ctx.func(fq)
        short = fq.split(".", 2)[-1]
        muts = [(prm, path, m) for (prm, path), m in ef.of(fi).mutates.items() if prm == "self"]
        if muts:
            prm, path, m = muts[0]
            ctx.violate(rule, short, f"memoised:{path}", f"{short} stores into self{path} ({m.how}, line {m.line}): the value depends on `transforms`, `frame_id` and the object's state, all of which change "
                        "between calls (objects are deep-copied and re-expressed in another frame, the same object is asked with different ego poses); a remembered value is returned for the wrong frame", fi=fi,
                        expected="a pure function of (state, frame_id, transforms)", found=f"{m.how} on self{path}")
            continue
        paths = enum_paths(ctx, fi, fork_ifexp=not heading)
        rows = set()
        for p in paths:
            if p.exit and p.exit[0] == "raise" and p.exit[1] == "AssertionError":
                continue
            if fact_where(p, lambda k: S(k) == "none:self.state.position") and not (p.exit and p.exit[0] == "raise"):
                ctx.violate(rule, short, "position-none-accepted", f"{short}: continues on [{p.cond_text()[:80]}] although the object has no position (and rejects objects that have one)", fi=fi)
                continue
            base = fact_where(p, lambda k: S(k) == "eq:self.frame_id==FrameID.BASE_LINK")
            tfn = fact_where(p, lambda k: k == "none:transforms")
            ctx.require(base is not None, f"{short}: no dispatch on self.frame_id == FrameID.BASE_LINK [{p.cond_text()[:80]}]")
            if base:
                rows.add("ego")
                P = "self.state.position"
                Q = "self.state.orientation"
            elif tfn is None:
                ctx.violate(rule, short, "non-ego:transforms-unchecked",
                            f"{short}: for an object that is not in the ego frame the function does not check that transforms are given", fi=fi)
                continue
            elif tfn:
                rows.add("raise")
                ctx.check(bool(p.exit) and p.exit[0] == "raise", rule, short, "non-ego:no-transforms",
                          f"{short}: a non-ego object without transforms must raise; found {p.exit} `{S(p.retval)[:60] if p.retval is not None else ''}` (a map-frame position would be treated as ego-relative)", fi=fi)
                continue
            else:
                rows.add("tf")
                P = f"transforms.transform({KEY},self.state.position)"
                Q = f"transforms.transform({KEY},self.state.position,self.state.orientation)[1]"
            if p.exit and p.exit[0] == "raise":
                ctx.violate(rule, short, "ego:raises" if base else "transformed:raises",
                            f"{short}: raises {p.exit[1]} on [{p.cond_text()[:80]}] - " + ("an ego-frame object needs no transforms and must return its raw value" if base else "with transforms given a non-ego object must be transformed, not rejected"),
                            fi=fi, expected="return", found=f"raise {p.exit[1]}")
                continue
            ctx.require(p.exit == ("return",) and p.retval is not None, f"{short}: path [{p.cond_text()[:60]}] does not return")
            if not heading:
                want = shape.format(P=P)
                ctx.check(S(p.retval) == want, rule, short, "ego" if base else "transformed",
                          f"{short} ({'ego frame' if base else 'other frame'}): returns `{S(p.retval)[:140]}`; expected `{want}`", fi=fi, expected=want, found=S(p.retval)[:200],
                          sample={"branch": "ego" if base else "transformed", "returns": S(p.retval)[:120]})
            else:
                inner = check_wrap(ctx, "R-ANGLEWRAP", short, p.retval, fi)
                F = Formula()
                want = f"-{Q}.yaw_pitch_roll[0] - pi/2"
                try:
                    ok = F.parse(inner).equals(F.parse(ast.parse(want, mode='eval').body))
                except Unrecognised as exc:
                    ok = False
                txt = S(inner)
                uses_mag = any(a in txt for a in (".radians", ".angle", ".degrees"))
                if uses_mag:
                    ctx.violate("R-SIGNEDYAW", short, "ego" if base else "transformed",
                                f"{short}: the heading is derived from `{txt[:100]}` – Quaternion.radians/.angle is the unsigned rotation magnitude (sign and q/-q dependent), not the yaw", fi=fi,
                                expected=f"-{Q}.yaw_pitch_roll[0] - pi/2", found=txt[:160])
                else:
                    ctx.check(ok, rule, short, "ego" if base else "transformed",
                              f"{short} ({'ego frame' if base else 'other frame'}): heading is `{txt[:140]}` before wrapping; expected `{want}` (signed yaw of the ego-frame orientation)", fi=fi,
                              expected=want, found=txt[:200], sample={"branch": "ego" if base else "transformed", "heading": txt[:120]})
        ctx.require(rows >= {"ego", "tf"}, f"{short}: dispatch rows {sorted(rows)} – expected ego / transformed / raise")
        ctx.check("raise" in rows, rule, short, "raise-row", f"{short}: no path raises for a non-ego object without transforms", fi=fi)


# ----------------------------------------------------------------------------
# R-SIGNEDYAW (package-wide scan)
# ----------------------------------------------------------------------------
def rule_signed_yaw(ctx: Ctx, scope, rule: str = "R-SIGNEDYAW") -> None:
    n = 0
    for fi in G.scope_functions(ctx, scope):
        for node in walk_own(fi.node):
            if not (isinstance(node, ast.Attribute) and node.attr in ("radians", "angle", "degrees")):
                continue
            base = S(node.value)
            t = ctx.resolver.type_of(node.value, fi)
            looks_quat = base.endswith("orientation") or base.endswith("rotation") or "quat" in base.lower() or base.endswith("Quaternion") or ".orientation" in base
            if not looks_quat:
                continue
            n += 1
            # allowed: axis-angle pair Quaternion(axis=q.axis, radians=q.radians) / angle=...
            par = parent_of(node)
            ok = False
            while par is not None and not isinstance(par, (ast.stmt,)):
                if isinstance(par, ast.Call):
                    kws = {k.arg: S(k.value) for k in par.keywords}
                    if kws.get("axis") == f"{base}.axis":
                        ok = True
                par = parent_of(par)
            # also allowed when the statement's other operand carries the same quaternion's axis
            st = node
            while st is not None and not isinstance(st, ast.stmt):
                st = parent_of(st)
            if st is not None and f"{base}.axis" in S(st):
                ok = True
            ctx.check(ok, rule, G.short(fi.qualname), f"{base}.{node.attr}",
                      f"`{base}.{node.attr}` is the unsigned rotation magnitude of a quaternion; used without the quaternion's axis it is not a yaw/heading (depends on the sign convention of q)",
                      fi=fi, node=node, expected="yaw_pitch_roll[0] (signed yaw) or an (axis, angle) pair", found=f"{base}.{node.attr}")
    ctx.extra["signed_yaw_sites"] = n


# ----------------------------------------------------------------------------
# get_heading_error and its clip helper
# ----------------------------------------------------------------------------
def rule_heading_error(ctx: Ctx) -> None:
    fi = ctx.func(OBJQ + "get_heading_error")
    clipq = OBJQ + "get_heading_error.<locals>._clip"
    if not ctx.index.has_func(clipq):
        # the wrap helper may have been renamed / moved: it is whatever function the three differences are passed to
        names = set()
        for n in ast.walk(fi.node):
            if isinstance(n, ast.Return) and isinstance(n.value, ast.Tuple):
                for e in n.value.elts:
                    if isinstance(e, ast.Call) and isinstance(e.func, ast.Name):
                        names.add(e.func.id)
            if isinstance(n, (ast.Assign, ast.AnnAssign)) and isinstance(n.value, ast.Call) and isinstance(n.value.func, ast.Name) and n.value.args and isinstance(n.value.args[0], ast.BinOp) and isinstance(n.value.args[0].op, ast.Sub):
                names.add(n.value.func.id)
        cands = [q for nm in names for q in (OBJQ + f"get_heading_error.<locals>.{nm}", "common.object." + nm) if ctx.index.has_func(q)]
        ctx.require(len(cands) == 1, "get_heading_error: the wrap helper _clip was not found")
        clipq = cands[0]
    HELPER = clipq.rsplit(".", 1)[1]
    cf = ctx.func(clipq)
    arg = cf.node.args.args[0].arg
    paths = enum_paths(ctx, cf)
    F = Formula()
    rows = set()
    for p in paths:
        ctx.require(p.exit == ("return",), "_clip: a path does not return")
        lo = fact_where(p, lambda k: S(k) in (f"cmp:{arg}<-np.pi", f"cmp:{arg}<-math.pi", f"cmp:{arg}<-pi", f"cmp:{arg}<=-np.pi"))
        hi = fact_where(p, lambda k: S(k) in (f"cmp:np.pi<{arg}", f"cmp:math.pi<{arg}", f"cmp:pi<{arg}", f"cmp:np.pi<={arg}"))
        other = [k for k in p.facts if S(k).startswith("cmp:") and S(k) not in (f"cmp:{arg}<-np.pi", f"cmp:np.pi<{arg}", f"cmp:{arg}<-math.pi", f"cmp:math.pi<{arg}", f"cmp:{arg}<-pi", f"cmp:pi<{arg}", f"cmp:{arg}<=-np.pi", f"cmp:np.pi<={arg}")]
        # total adjustment on this path
        total = F.parse_text("0")
        for e in p.effects:
            if e.kind == "aug" and strip_v(e.recv) == arg:
                try:
                    v = F.parse(e.value)
                except Unrecognised as exc:
                    ctx.require(False, f"_clip: {exc}")
                total = total + v if e.name == "Add" else total - v if e.name == "Sub" else None
                ctx.require(total is not None, "_clip: unsupported augmented operator")
        if isinstance(p.retval, ast.Name) is False and p.retval is not None and S(p.retval) != arg:
            try:
                total = F.parse(p.retval) - F.parse_text(arg)
            except Unrecognised as exc:
                ctx.require(False, f"_clip: {exc}")
        which = "lo" if lo else "hi" if hi else "mid"
        if other:
            ctx.violate("R-ANGLEWRAP", "get_heading_error._clip", "condition",
                        f"_clip branches on `{strip_v(other[0])[4:]}`; a yaw error must be wrapped only when it is below -pi or above pi", fi=cf,
                        expected="err < -pi / err > pi", found=strip_v(other[0])[4:])
            continue
        rows.add(which)
        want = {"lo": "2*pi", "hi": "-2*pi", "mid": "0"}[which]
        ok = total.equals(F.parse_text(want))
        ctx.check(ok, "R-ANGLEWRAP", "get_heading_error._clip", which,
                  f"_clip shifts an error {'below -pi' if which == 'lo' else 'above pi' if which == 'hi' else 'inside [-pi, pi]'} by {total!r}; it must be shifted by {want} (whole turns only)",
                  fi=cf, expected=want, found=repr(total)[:120], sample={"range": which, "shift": want})
    ctx.require(rows == {"lo", "hi", "mid"}, f"_clip: ranges {sorted(rows)} – expected below -pi / above pi / inside")
    # the three components are other - self, through the same helper, in (roll, pitch, yaw) order
    paths = enum_paths(ctx, fi, inline_new=False)  # the helper itself was analysed above: keep its calls as calls
    for p in paths:
        if p.facts.get("none:other"):
            ctx.check(p.retval is not None and S(p.retval) == "None", "C09-heading-error", "get_heading_error", "no-other", "without a counterpart the error must be None", fi=fi)
            continue
        rv = p.retval
        if p.exit == ("return",) and (rv is None or S(rv) == "None"):
            ctx.violate("C09-heading-error", "get_heading_error", "with-other:none", "with a counterpart given the heading error is None (it must be the three wrapped differences)", fi=fi)
            continue
        ctx.require(isinstance(rv, ast.Tuple) and len(rv.elts) == 3, "get_heading_error: does not return a 3-tuple")
        for axis, idx, e in zip(("roll", "pitch", "yaw"), (2, 1, 0), rv.elts):
            want = f"{HELPER}(other.state.orientation.yaw_pitch_roll[{idx}]-self.state.orientation.yaw_pitch_roll[{idx}])"
            ctx.check(S(e) == want, "C09-heading-error", "get_heading_error", axis,
                      f"{axis} error is `{S(e)[:120]}`; expected `{want}` (other minus self, wrapped by the same helper)", fi=fi, expected=want, found=S(e)[:160])


# ----------------------------------------------------------------------------
# APH heading weight
# ----------------------------------------------------------------------------
def rule_aph_weight(ctx: Ctx, rule: str = "C09-aph-weight") -> None:
    fi = ctx.func("evaluation.metrics.detection.tp_metrics.TPMetricsAph.get_value")
    paths = enum_paths(ctx, fi)
    res = fi.params()[0].arg
    rows = 0
    for p in paths:
        if fact_where(p, lambda k: k == f"none:{res}.ground_truth_object"):
            ctx.check(p.retval is not None and S(p.retval) in ("0.0", "0"), rule, "TPMetricsAph.get_value", "no-gt", "without ground truth the weight must be 0", fi=fi)
            continue
        rv = p.retval
        ctx.require(rv is not None, "TPMetricsAph.get_value: no return value")
        # strip the clamp
        x = rv
        for _ in range(2):
            if isinstance(x, ast.Call) and S(x.func) in ("min", "max") and len(x.args) == 2:
                consts = [a for a in x.args if isinstance(a, ast.Constant) and isinstance(a.value, (int, float)) and not isinstance(a.value, bool)]
                rest = [a for a in x.args if a not in consts]
                ctx.require(len(rest) == 1 and len(consts) == 1, "TPMetricsAph.get_value: clamp shape not recognised")
                bound = 1.0 if S(x.func) == "min" else 0.0
                ctx.check(float(consts[0].value) == bound, rule, "TPMetricsAph.get_value", f"clamp:{S(x.func)}",
                          f"the weight is clamped by {S(x.func)}({consts[0].value}, .); the clamp only absorbs rounding: it must be min(1.0, .) and max(0.0, .) (any other bound changes weights inside [0, 1])",
                          fi=fi, expected=f"{S(x.func)}({bound}, .)", found=f"{S(x.func)}({consts[0].value}, .)")
                x = rest[0]
        heads = [n for n in ast.walk(x) if isinstance(n, ast.Call) and isinstance(n.func, ast.Attribute) and n.func.attr == "get_heading_bev"]
        recvs = sorted({S(h.func.value) for h in heads})
        args = {tuple(S(a) for a in h.args) + tuple(f"{k.arg}={S(k.value)}" for k in h.keywords) for h in heads}
        ok_pair = recvs == sorted([f"{res}.estimated_object", f"{res}.ground_truth_object"]) and len(args) == 1
        ctx.check(ok_pair, rule, "TPMetricsAph.get_value", f"same-accessor:{len(p.conds)}",
                  f"the two headings are taken from {recvs} with arguments {sorted(args)}; estimate and ground truth must use the same accessor with the same transforms argument", fi=fi)
        if not ok_pair:
            continue
        est = next(h for h in heads if S(h.func.value) == f"{res}.estimated_object")
        gt = next(h for h in heads if S(h.func.value) == f"{res}.ground_truth_object")
        F = Formula(rename={S(est): "he", S(gt): "hg"})
        acos = [n for n in ast.walk(x) if isinstance(n, ast.Call) and S(n.func) in ("np.arccos", "math.acos", "numpy.arccos", "np.arcsin", "math.asin") and n.args]
        unclipped = [n for n in acos if not (isinstance(n.args[0], ast.Call) and S(n.args[0].func) in ("np.clip", "numpy.clip", "min", "max"))]
        if unclipped:
            ctx.violate(rule, "TPMetricsAph.get_value", "unclipped-arccos",
                        f"the heading difference is `{S(unclipped[0])[:120]}`: the dot product of two unit vectors can round to 1.0000000000000002, arccos then returns NaN and the clamp turns "
                        "the weight of two IDENTICAL headings into 0; clip the argument to [-1, 1] or use the folded absolute difference", fi=fi, expected="d = |h_est - h_gt| folded by 2*pi - d", found=S(unclipped[0])[:160])
            continue
        fold = fact_where(p, lambda k: S(k).startswith("cmp:pi<abs(") or S(k).startswith("cmp:math.pi<abs(") or S(k).startswith("cmp:np.pi<abs("))
        if fold is None:
            signed = [k for k in p.facts if S(k).startswith(("cmp:pi<", "cmp:math.pi<", "cmp:np.pi<")) and "get_heading_bev" in k]
            if signed:
                ctx.violate(rule, "TPMetricsAph.get_value", "fold-on-signed-difference",
                            f"the fold `2*pi - d` is decided on `{strip_v(signed[0])[4:][:100]}`, a signed difference: d must be the absolute difference (otherwise the weight depends on which object has the larger yaw)",
                            fi=fi, expected="d = abs(h_est - h_gt); if d > pi: d = 2*pi - d", found=strip_v(signed[0])[4:][:140])
                continue
            try:
                fx0 = F.parse(x)
                unfolded = fx0.equals(F.parse_text("1 - abs(he - hg)/pi")) or fx0.equals(F.parse_text("1 - abs(hg - he)/pi"))
            except Unrecognised:
                unfolded = False
            if unfolded:
                ctx.violate(rule, "TPMetricsAph.get_value", "fold-missing",
                            "the absolute heading difference is not folded to [0, pi] (no `d > pi -> 2*pi - d`): headings of +179 deg and -179 deg would get weight ~0 instead of ~1", fi=fi,
                            expected="d = 2*pi - d when d > pi", found=S(x).replace(S(est), "he").replace(S(gt), "hg")[:120])
                continue
        ctx.require(fold is not None, f"TPMetricsAph.get_value: fold test `d > pi` on the absolute difference not recognised [{p.cond_text()[:100]}]")
        rows += 1
        want = "1 - (2*pi - abs(he - hg))/pi" if fold else "1 - abs(he - hg)/pi"
        want2 = "1 - (2*pi - abs(hg - he))/pi" if fold else "1 - abs(hg - he)/pi"
        try:
            fx = F.parse(x)
            ok = fx.equals(F.parse_text(want)) or fx.equals(F.parse_text(want2))
        except Unrecognised as exc:
            ok = False
        ctx.check(ok, rule, "TPMetricsAph.get_value", f"formula:fold={int(fold)}:{'ego' if 'None' in str(args) else 'other'}",
                  f"heading weight is `{S(x).replace(S(est), 'h_est').replace(S(gt), 'h_gt')[:120]}`; definition: 1 - d/pi with d = |h_est - h_gt| folded to [0, pi] by 2*pi - d",
                  fi=fi, expected=want, found=S(x).replace(S(est), "he").replace(S(gt), "hg")[:160], sample={"fold": bool(fold), "weight": want})
        # identity transform only because a difference of two headings under the same transform is taken
        ego = fact_where(p, lambda k: S(k) == f"eq:{res}.estimated_object.frame_id==FrameID.BASE_LINK")
        for h in heads:
            for a in h.args:
                t = S(a)
                if ego is False:
                    ctx.check(t != "None", rule, "TPMetricsAph.get_value", "non-ego:transforms-given",
                              "for objects that are not in the ego frame the headings are requested without transforms: the accessor raises for every map-frame object", fi=fi)
                if t not in ("None", "transforms") and "TransformDict(" in t:
                    ctx.check("np.eye(4)" in t and f"{res}.estimated_object.frame_id,FrameID.BASE_LINK" in t, rule, "TPMetricsAph.get_value", "identity-transform",
                              f"a locally built transform `{t[:100]}` is not the identity from the object's frame to BASE_LINK", fi=fi)
    ctx.require(rows >= 2, "TPMetricsAph.get_value: fewer than two weight formulas analysed")
