"""C20 – configuration strings parse to the enum member they name (finite, exhaustive)."""
from __future__ import annotations

import ast
import re
from typing import Dict, List, Optional, Tuple

from sa.index import ClassInfo, FuncInfo
from sa.paths import Enumerator, Options, Path, U, strip_v
from sa.report import Ctx
from sa.source import AnalysisError
from sa.tables import enum_members

EXPLANATION = (
    "Decides, for each of the six documented string constructors (EvaluationTask.from_value, FrameID.from_value, "
    "Visibility.from_value/from_alias, SensorModality.from_value, ShapeType.from_value, MatchingLabelPolicy.from_str) and "
    "for every member of the enum (exhaustive): the parser's lookup idiom is recognised from its path table and the object "
    "returned on the matching path is the member itself (not the key string, not None); when the parser normalises case, "
    "every member value (or name) is a fixed point of that normalisation; a member-vs-str comparison is backed by an "
    "__eq__ with a str branch on .value; member values are unique; every non-member path raises or ends in the "
    "documented fallback (Visibility.from_alias -> alias table / UNAVAILABLE) – never an implicit None. The string-or-enum "
    "call sites (Shape, TransformKey, HomogeneousMatrix, LabelConverter, FrameID.from_task, _EvaluationConfigBase) route "
    "str through the parser and use a member unchanged, and the decision is made on the type of that very parameter (not of a neighbouring one); `__members__.get(key, default)` is read as a lookup whose default is the non-member outcome. set_task* helpers are held to the member/fixed-point laws and set_task_lists must follow the order of its input (a walk over the enum with a membership test is reported). "
    "Does not decide: Enum metaclass semantics (trusted), behaviour of str.lower/upper on non-ASCII input."
)

PARSERS = [
    ("common.evaluation_task.EvaluationTask", "from_value"),
    ("common.schema.FrameID", "from_value"),
    ("common.schema.Visibility", "from_value"),
    ("common.schema.SensorModality", "from_value"),
    ("common.shape.ShapeType", "from_value"),
    ("evaluation.matching.object_matching.MatchingLabelPolicy", "from_str"),
]

ALIAS_SPEC = {"v0-40": "NONE", "v40-60": "PARTIAL", "v60-80": "MOST", "v80-100": "FULL"}


def _norm_of(text: str, param: str) -> Optional[str]:
    t = strip_v(text).replace(" ", "")
    if t == param:
        return "none"
    if t == f"{param}.lower()":
        return "lower"
    if t == f"{param}.upper()":
        return "upper"
    if t in (f"{param}.strip().lower()", f"{param}.lower().strip()"):
        return "lower"
    return None


def eq_handles_str(ci: ClassInfo, ctx: Ctx) -> bool:
    """The class (or a repo base) defines __eq__ with `isinstance(o, str)` -> `self.value == o`."""
    m = ci.find_method("__eq__")
    if m is None:
        return False
    ctx.touch(m)
    other = m.node.args.args[1].arg if len(m.node.args.args) > 1 else None
    if other is None:
        return False
    en = Enumerator(ctx.index, ctx.resolver, Options())
    for p in en.function(m):
        if p.facts.get(f"isinstance:{other},str") is True and p.exit == ("return",) and p.retval is not None:
            t = strip_v(U(p.retval)).replace(" ", "")
            if t in (f"self.value=={other}", f"{other}==self.value"):
                return True
    return False


def analyse_parser(ctx: Ctx, ci: ClassInfo, fi: FuncInfo) -> Dict[str, object]:
    ps = fi.params()
    if fi.is_classmethod:
        pass
    ctx.require(len(ps) >= 1, f"{fi.qualname}: parser has no string parameter")
    param = ps[0].arg
    clsname = fi.node.args.args[0].arg if fi.is_classmethod else ci.name
    en = Enumerator(ctx.index, ctx.resolver, Options())
    paths = en.function(fi)
    ctx.paths_enumerated += len(paths)
    info: Dict[str, object] = {"param": param, "paths": len(paths)}
    loops = [e for p in paths for e in p.effects if e.kind == "loop"]
    if loops:
        lp = loops[0]
        it = strip_v(lp.text).replace(" ", "")
        node = lp.node
        if it in (f"{clsname}.__members__.items()", f"{ci.name}.__members__.items()"):
            ctx.require(isinstance(node.target, ast.Tuple) and len(node.target.elts) == 2, f"{fi.qualname}: items() loop target is not a pair")
            keyvar, valvar = [U(x) for x in node.target.elts]
        elif it in (clsname, ci.name, f"{clsname}.__members__.values()", f"list({clsname})"):
            keyvar, valvar = None, U(node.target)
        else:
            raise AnalysisError(f"{fi.qualname}: lookup loop iterates over `{it}` – idiom not recognised")
        hit = [bp for bp in (lp.body or []) if bp.exit and bp.exit[0] == "return"]
        ctx.require(len(hit) >= 1, f"{fi.qualname}: lookup loop has no returning path")
        bp = hit[0]
        sames = [k for k, v in bp.conds if v and k.startswith("same:")]
        if not sames:
            # a recognised NON-exact predicate (prefix / substring / regex) accepts strings that name no member
            loose = [k for k, v in bp.conds if v and (k.startswith(("call:re.match(", "call:re.search(", "call:re.fullmatch(")) or ".startswith(" in k or ".endswith(" in k or k.startswith("in:"))]
            if loose and not any(k.startswith("call:re.fullmatch(") for k in loose):
                ctx.violate("C20-exact-match", f"{ci.name}.{fi.name}", "match-test",
                            f"{ci.name}.{fi.name} selects a member with `{strip_v(loose[0]).split(':', 1)[1][:100]}` – a prefix / substring / regular-expression test, not equality with the member's value: "
                            f"a member whose value extends another member's value parses to the wrong member and non-member strings are accepted", fi=fi,
                            expected="<normalised input> == member value", found=strip_v(loose[0])[:140])
                info.update({"lookup": "value", "needs_eq": False, "normalise": "none", "returns": "member", "ret_text": "?", "nonmember": ["raise"]})
                return info
        if not sames:
            neg = [k for k, v in bp.conds if (not v) and k.startswith("same:")]
            if len(neg) == 1 and len(bp.conds) == 1:
                ctx.violate("C20-exact-match", f"{ci.name}.{fi.name}", "match-test-inverted", f"{ci.name}.{fi.name} returns a member when `{strip_v(neg[0])[5:]}` is FALSE: the first member that differs from the query is returned", fi=fi,
                            expected="return the member that equals the query", found="!" + strip_v(neg[0])[5:])
                info.update({"lookup": "value", "needs_eq": False, "normalise": "none", "returns": "member", "ret_text": "?", "nonmember": ["raise"]})
                return info
        ctx.require(len(sames) == 1, f"{fi.qualname}: the match test is not a single equality ({bp.cond_text()})")
        a, b = strip_v(sames[0][5:]).split("==")
        a, b = a.strip(), b.strip()
        sides = {a, b}
        member_side = [s for s in sides if s == valvar or s == f"{valvar}.value" or s == f"{valvar}.name" or (keyvar and s == keyvar)]
        ctx.require(len(member_side) == 1, f"{fi.qualname}: cannot tell the member side of `{sames[0][5:]}`")
        q = (sides - set(member_side)).pop()
        info["lookup"] = "value" if member_side[0] in (valvar, f"{valvar}.value") else "name"
        info["needs_eq"] = member_side[0] == valvar
        info["normalise"] = _norm_of(q, param)
        if info["normalise"] is None:
            m_strip = re.search(r"\.(rstrip|lstrip|strip)\('([^']{2,})'\)", strip_v(q).replace(" ", ""))
            if m_strip:
                ctx.violate("C20-exact-match", short(fi.qualname) if "short" in globals() else fi.qualname.split("schema.", 1)[-1], "query-strips-character-set",
                            f"the query is normalised by `{q}`: str.{m_strip.group(1)}('{m_strip.group(2)}') removes any of the CHARACTERS {sorted(set(m_strip.group(2)))} from the end/start, not the suffix; "
                            "member values that end in those letters no longer parse back to themselves (or parse to another member)", fi=fi, expected="name.lower()", found=q)
                info.update({"lookup": "value", "needs_eq": member_side[0] == valvar, "normalise": "lower", "returns": "member", "ret_text": "?", "nonmember": ["raise"], "broken": True})
                return info
        ctx.require(info["normalise"] is not None, f"{fi.qualname}: query side `{q}` is not a recognised normalisation of `{param}`")
        rv = strip_v(U(bp.retval)) if bp.retval is not None else "None"
        info["returns"] = "member" if rv == valvar else "key" if keyvar and rv == keyvar else f"other:{rv}"
        info["ret_text"] = rv
        after = [p for p in paths if not (p.exit and p.exit[0] in ("return", "raise") and any(k.startswith("loop-exit:") for k, _ in p.conds))]
    else:
        # no loop: cls.__members__[norm(name)]  or  cls(norm(name))
        rets = [p for p in paths if p.exit == ("return",)]
        ctx.require(len(rets) == 1, f"{fi.qualname}: no lookup loop and not exactly one returning path")
        rv = rets[0].retval
        if isinstance(rv, ast.Subscript) and strip_v(U(rv.value)).replace(" ", "") in (f"{clsname}.__members__", f"{ci.name}.__members__"):
            info["lookup"] = "name"
            info["normalise"] = _norm_of(U(rv.slice), param)
            info["returns"] = "member"
        elif isinstance(rv, ast.Call) and strip_v(U(rv.func)) in (clsname, ci.name) and len(rv.args) == 1:
            info["lookup"] = "value"
            info["normalise"] = _norm_of(U(rv.args[0]), param)
            info["returns"] = "member"
        elif (isinstance(rv, ast.Call) and isinstance(rv.func, ast.Attribute) and rv.func.attr == "get" and strip_v(U(rv.func.value)).replace(" ", "") in (f"{clsname}.__members__", f"{ci.name}.__members__")
              and 1 <= len(rv.args) <= 2 and not rv.keywords):
            # dict.get never raises: a string that names no member silently becomes the default
            info["lookup"] = "name"
            info["normalise"] = _norm_of(U(rv.args[0]), param)
            info["returns"] = "member"
            dflt = strip_v(U(rv.args[1])) if len(rv.args) == 2 else "None"
            info["nonmember_override"] = ["none" if dflt == "None" else f"fallback:{dflt}"]
        else:
            raise AnalysisError(f"{fi.qualname}: return `{U(rv)}` is not a recognised lookup idiom")
        ctx.require(info["normalise"] is not None, f"{fi.qualname}: lookup key is not a recognised normalisation of `{param}`")
        info["needs_eq"] = False
        info["ret_text"] = strip_v(U(rv))
        # a dict / constructor lookup raises KeyError / ValueError by itself for non-members
        info["nonmember"] = info.pop("nonmember_override", ["raise"])
        after = []
    nm: List[str] = list(info.get("nonmember", []))
    for p in after:
        if p.exit and p.exit[0] == "raise":
            nm.append("raise")
        elif p.exit == ("return",):
            rv = p.retval
            if rv is None or (isinstance(rv, ast.Constant) and rv.value is None):
                nm.append("none")
            elif isinstance(rv, ast.Call):
                nm.append("fallback:" + strip_v(U(rv)))
            else:
                nm.append("value:" + strip_v(U(rv)))
    info["nonmember"] = nm
    return info


def rule_parsers(ctx: Ctx) -> None:
    for cq, fn in PARSERS:
        ci = ctx.index.cls(cq)
        fi = ctx.func(f"{cq}.{fn}")
        name = f"{ci.name}.{fn}"
        info = analyse_parser(ctx, ci, fi)
        members = enum_members(ci)
        ctx.require(len(members) >= 2, f"{ci.name}: fewer than two members found")
        ctx.table_rows += len(members)
        # law 1: returns the member
        ok1 = info["returns"] == "member"
        # law 3: member-vs-str comparison needs __eq__
        ok3 = (not info["needs_eq"]) or eq_handles_str(ci, ctx)
        vals = [v for _, v in members]
        for m, v in members:
            ctx.check(ok1, "C20-member", name, m,
                      f"{name}({v!r}) returns `{info['ret_text']}` ({info['returns']}) instead of the member {ci.name}.{m}",
                      fi=fi, expected=f"{ci.name}.{m}", found=str(info["ret_text"]), sample={"parser": name, "input": v, "returns": f"{ci.name}.{m}"})
            key = v if info["lookup"] == "value" else m
            if not isinstance(key, str):
                ctx.violate("C20-fixedpoint", name, m, f"member {m} has a non-string lookup key {key!r}", fi=fi)
                continue
            norm = {"none": key, "lower": key.lower(), "upper": key.upper()}[info["normalise"]]
            ctx.check(norm == key, "C20-fixedpoint", name, m,
                      f"{name} applies .{info['normalise']}() to its input but {ci.name}.{m}'s {info['lookup']} {key!r} is not a fixed point: {name}({key!r}) cannot return the member",
                      fi=fi, expected=norm, found=key)
            ctx.check(ok3, "C20-eq", name, m, f"{name} compares a member with a str but {ci.name}.__eq__ has no `isinstance(o, str) -> self.value == o` branch", fi=fi)
            if info["lookup"] == "value":
                ctx.check(vals.count(v) == 1, "C20-unique", name, m, f"value {v!r} is shared by several members of {ci.name}: the first one wins", fi=fi)
        # law 4: non-member path
        nm = info["nonmember"]
        ctx.require(bool(nm), f"{name}: no non-member path found")
        for k in nm:
            if k == "raise":
                ctx.ok("C20-nonmember", name, "raise")
            elif k.startswith("fallback:") and ci.name == "Visibility" and "from_alias(" in k:
                ctx.ok("C20-nonmember", name, "fallback:from_alias")
            else:
                ctx.violate("C20-nonmember", name, k.split(":")[0],
                            f"{name}: a string that names no member ends in `{k}` instead of raising (or the documented fallback)", fi=fi,
                            expected="raise ValueError / documented fallback", found=k)
    ctx.exhaustive = True


def rule_alias(ctx: Ctx) -> None:
    fi = ctx.func("common.schema.Visibility.from_alias")
    ci = ctx.index.cls("common.schema.Visibility")
    mem = {m for m, _ in enum_members(ci)}
    en = Enumerator(ctx.index, ctx.resolver, Options())
    paths = en.function(fi)
    got: Dict[str, str] = {}
    fallback = None
    for p in paths:
        ctx.check(p.exit == ("return",), "C20-alias", "Visibility.from_alias", f"exit:{p.cond_text()[:40]}", f"from_alias does not return on [{p.cond_text()}]", fi=fi)
        rv = strip_v(U(p.retval)) if p.retval is not None else "None"
        pos = [k for k, v in p.conds if v and k.startswith("eq:name==")]
        if pos:
            got[ast.literal_eval(pos[0].split("==", 1)[1])] = rv
        else:
            fallback = rv
    for a, m in ALIAS_SPEC.items():
        ctx.check(got.get(a) == f"Visibility.{m}", "C20-alias", "Visibility.from_alias", a,
                  f"alias {a!r} maps to {got.get(a)} instead of Visibility.{m}", fi=fi, expected=f"Visibility.{m}", found=str(got.get(a)))
    for a, rv in got.items():
        if a not in ALIAS_SPEC:
            ctx.check(rv.startswith("Visibility.") and rv.split(".")[1] in mem, "C20-alias", "Visibility.from_alias", a, f"alias {a!r} returns {rv}, not a member", fi=fi)
    ctx.check(fallback == "Visibility.UNAVAILABLE", "C20-alias", "Visibility.from_alias", "fallback",
              f"unknown level falls back to {fallback} instead of Visibility.UNAVAILABLE", fi=fi)


def rule_set_task(ctx: Ctx) -> None:
    ci = ctx.index.cls("common.evaluation_task.EvaluationTask")
    members = enum_members(ci)
    for fn in ("set_task", "set_task_lists", "set_task_dict"):
        fi = ctx.func("common.evaluation_task." + fn)
        en = Enumerator(ctx.index, ctx.resolver, Options())
        paths = en.function(fi)

        def inner_loops(ps):
            for p in ps:
                for e in p.effects:
                    if e.kind == "loop":
                        if strip_v(e.text) == "EvaluationTask":
                            yield e
                        else:
                            yield from inner_loops(e.body or [])

        lps = list(inner_loops(paths))
        if not lps:
            # the same conversion written as a comprehension
            prm = fi.params()[0].arg
            verdict = None
            for c in [n for n in ast.walk(fi.node) if isinstance(n, (ast.ListComp, ast.GeneratorExp, ast.DictComp))]:
                its = [strip_v(U(g.iter)).replace(" ", "") for g in c.generators]
                enum_its = ("EvaluationTask", "list(EvaluationTask)", "EvaluationTask.__members__.values()")
                if len(its) == 1 and its[0] in enum_its:
                    v = U(c.generators[0].target)
                    tests = [strip_v(U(t)).replace(" ", "") for t in c.generators[0].ifs]
                    if any(t in (f"{v}.valuein{prm}", f"{v}in{prm}") for t in tests):
                        verdict = ("order", f"[... for {v} in EvaluationTask if {v}.value in {prm}]")
                elif len(its) == 2 and its[0] in (prm, f"{prm}.items()", f"{prm}.keys()") and its[1] in enum_its and not c.generators[0].ifs and len(c.generators[1].ifs) == 1:
                    v = U(c.generators[1].target)
                    sv = U(c.generators[0].target.elts[0] if isinstance(c.generators[0].target, ast.Tuple) else c.generators[0].target)
                    t = strip_v(U(c.generators[1].ifs[0])).replace(" ", "")
                    okc = t in (f"{sv}=={v}.value", f"{v}.value=={sv}") or (t in (f"{sv}=={v}", f"{v}=={sv}") and eq_handles_str(ci, ctx))
                    elt = c.key if isinstance(c, ast.DictComp) else c.elt
                    verdict = ("ok" if okc and U(elt) == v else "bad", t)
            if verdict is not None and verdict[0] == "order":
                ctx.violate("C20-settask", fn, "follows-input-order",
                            f"{fn}: the result is built by walking EvaluationTask and keeping the members whose value occurs in `{prm}` ({verdict[1]}): the tasks come out in the order of the enum "
                            f"definition and once each, not position by position as the strings were given", fi=fi, expected=f"for s in {prm}: for task in EvaluationTask: if s == task.value: ...", found=verdict[1])
                continue
            if verdict is not None:
                for m, v in members:
                    ctx.check(verdict[0] == "ok", "C20-settask", fn, m, f"{fn}: the comprehension selects with `{verdict[1]}` / yields something other than the member", fi=fi)
                continue
        ctx.require(bool(lps), f"{fn}: loop over EvaluationTask not found")
        lp = lps[0]
        var = U(lp.node.target)
        hits = [bp for bp in lp.body if any(v and k.startswith("same:") for k, v in bp.conds)]
        if not hits:
            prm = fi.params()[0].arg
            memb = [k for bp in lp.body for k, v in bp.conds if v and k.startswith("in:") and strip_v(k[3:]).replace(" ", "") in (f"{var}.valuein{prm}", f"{var}in{prm}")]
            if memb:
                ctx.violate("C20-settask", fn, "follows-input-order",
                            f"{fn}: the result is built by walking EvaluationTask and keeping the members for which `{strip_v(memb[0][3:])}`: the tasks come out in the order of the enum "
                            f"definition and once each, not position by position as the strings were given", fi=fi, expected=f"for s in {prm}: for task in EvaluationTask: if s == task.value: ...", found=strip_v(memb[0][3:]))
                continue
        ctx.require(bool(hits), f"{fn}: no equality test in the loop over EvaluationTask")
        bp = hits[0]
        k = [k for k, v in bp.conds if v and k.startswith("same:")][0]
        sides = [s.strip() for s in strip_v(k[5:]).split("==")]
        ok_cmp = f"{var}.value" in sides or (var in sides and eq_handles_str(ci, ctx))
        used: List[str] = []
        if bp.exit and bp.exit[0] == "return" and bp.retval is not None:
            used.append(strip_v(U(bp.retval)))
        for e in bp.effects:
            if e.kind == "call" and e.name == "append":
                used += [strip_v(U(a)) for a in e.args]
            if e.kind == "store":
                used.append(strip_v(e.recv))
        okm = any(u == var or f"[{var}]" in u for u in used)
        for m, v in members:
            ctx.check(ok_cmp and okm, "C20-settask", fn, m, f"{fn}: on a match with `{k[5:]}` the function uses {used} instead of the member `{var}`", fi=fi)
        fall = [p for p in paths if p.exit == ("return",) and isinstance(p.retval, ast.Constant) and p.retval.value is None]
        if fn == "set_task" and fall:
            ctx.info("C20: set_task returns None for an unknown task name; unreachable through a configuration (gated by _check_tasks / _support_tasks, see C15)")


from rules.common import enum_paths as _enum_paths

SITES = [
    # (function, parameter, parser call text prefix, stored attribute or None)
    ("common.shape.Shape.__init__", "shape_type", "ShapeType.from_value", "self.type"),
    ("common.transform.TransformKey.__init__", "src", "FrameID.from_value", "self.src"),
    ("common.transform.TransformKey.__init__", "dst", "FrameID.from_value", "self.dst"),
    ("common.transform.HomogeneousMatrix.__init__", "src", "FrameID.from_value", "self.src"),
    ("common.transform.HomogeneousMatrix.__init__", "dst", "FrameID.from_value", "self.dst"),
    ("common.label.LabelConverter.__init__", "evaluation_task", "EvaluationTask.from_value", "self.evaluation_task"),
    ("common.schema.FrameID.from_task", "task", "EvaluationTask.from_value", None),
]


def rule_sites(ctx: Ctx) -> None:
    for fq, param, parser, attr in SITES:
        fi = ctx.func(fq)
        paths = _enum_paths(ctx, fi)  # a conversion helper introduced by an edit is inlined, so the dispatch is seen where it used to be
        call_txt = f"{parser}({param})"
        seen_str = seen_mem = False
        short = fq.split(".", 2)[-1]
        for p in paths:
            isstr = p.facts.get(f"isinstance:{param},str")
            ismem = p.facts.get(f"isinstance:{param},{parser.split('.')[0]}")
            if isstr is None and ismem is None:
                continue
            as_str = isstr is True or ismem is False
            calls = [e for e in p.effects if e.kind in ("call", "ccall") and strip_v(e.text).replace(" ", "") == call_txt]
            stores = [e for e in p.effects if e.kind == "store" and attr and strip_v(e.recv) == attr]
            if as_str:
                seen_str = True
                okc = bool(calls)
                if stores:
                    okc = okc and strip_v(U(stores[-1].value)).replace(" ", "") == call_txt
                ctx.check(okc, "C20-site", short, f"{param}:str",
                          f"{short}: a str `{param}` is not routed through {parser} (stored: {[U(s.value) for s in stores]})", fi=fi,
                          expected=call_txt, found=str([strip_v(U(s.value)) for s in stores]))
            else:
                seen_mem = True
                okc = not calls
                if stores:
                    okc = okc and strip_v(U(stores[-1].value)) == param
                ctx.check(okc, "C20-site", short, f"{param}:enum",
                          f"{short}: an enum `{param}` is not used unchanged (stored: {[U(s.value) for s in stores]})", fi=fi)
        if not seen_str and not seen_mem and attr:
            # the conversion of this parameter is decided by the type of ANOTHER value
            by_other = {}
            for p in paths:
                other = sorted(strip_v(k) for k in p.facts if k.startswith("isinstance:") and not strip_v(k).startswith(f"isinstance:{param},"))
                st = [e for e in p.effects if e.kind == "store" and strip_v(e.recv) == attr]
                if other and st:
                    by_other.setdefault(strip_v(U(st[-1].value)).replace(" ", ""), other)
            if call_txt in by_other and param in by_other and len(by_other) == 2:
                ctx.violate("C20-site", short, f"{param}:dispatch-on-other",
                            f"{short}: whether `{param}` goes through {parser} is decided by {by_other[call_txt][:2]}, not by the type of `{param}` itself: a str `{param}` next to an enum in the other "
                            f"position is stored raw (and an enum next to a str is handed to {parser})", fi=fi, expected=f"{call_txt} if isinstance({param}, str) else {param}", found=str(by_other[call_txt][:2]))
                continue
        if not seen_str and not seen_mem:
            # no dispatch at all: positively recognised only when the raw parameter is what gets stored / used
            raw = [e for p in paths for e in p.effects if e.kind == "store" and attr and strip_v(e.recv) == attr]
            anycall = any(strip_v(e.text).replace(" ", "") == call_txt for p in paths for e in p.effects if e.kind in ("call", "ccall"))
            if raw and all(strip_v(U(e.value)) == param for e in raw) and not anycall:
                ctx.violate("C20-site", short, f"{param}:str", f"{short}: `{param}` (str or enum) is stored into {attr} without going through {parser}", fi=fi,
                            expected=call_txt, found=param)
                continue
        ctx.require(seen_str and seen_mem, f"{short}: isinstance dispatch on `{param}` not recognised")
    # _EvaluationConfigBase.__init__: every frame id goes through FrameID.from_value
    fi = ctx.func("config._evaluation_config_base._EvaluationConfigBase.__init__")
    paths = Enumerator(ctx.index, ctx.resolver, Options()).function(fi)
    n = 0
    for p in paths:
        for e in p.effects:
            if e.kind == "store" and strip_v(e.recv) == "self.frame_ids":
                n += 1
                t = strip_v(U(e.value)).replace(" ", "")
                ok = t in ("[FrameID.from_value(frame_id)]", "[FrameID.from_value(f)forfinframe_id]")
                ctx.check(ok, "C20-site", "_EvaluationConfigBase.__init__", f"frame_ids:{'str' if p.facts.get('isinstance:frame_id,str') else 'seq'}",
                          f"frame ids stored as `{U(e.value)}` – not parsed with FrameID.from_value", fi=fi)
    ctx.require(n >= 2, "_EvaluationConfigBase.__init__: frame_ids stores not recognised")


def run(ctx: Ctx) -> None:
    ctx.run(rule_parsers)
    ctx.run(rule_alias)
    ctx.run(rule_set_task)
    ctx.run(rule_sites)
    from rules import C18

    ctx.run(C18.rule_keys)  # transform keys behave identically for both spellings
    ctx.run(C18.rule_registry)  # ... including the X-to-X shortcut, which must compare NORMALISED keys
