"""Shared analysis of the geometric matcher (get_object_results and friends) for C01 / C02 / C08."""
from __future__ import annotations

import ast
import re
from typing import Dict, List, Optional, Tuple

from sa.paths import Effect, Path, U, strip_v
from sa.report import Ctx
from sa.source import AnalysisError
from rules.common import S, appends, enum_paths, fact_where, find_calls, loops_of

ORQ = "evaluation.result.object_result."
OMQ = "evaluation.matching.object_matching."


class Greedy:
    """One greedy selection loop of get_object_results."""

    def __init__(self, eff: Effect):
        self.eff = eff
        self.node = eff.node
        self.sel: Optional[str] = None  # selection table name
        self.sel_pre: Optional[ast.expr] = None  # value of the selection table at loop entry
        self.arms: Dict[bool, str] = {}  # maximize truth -> nanargmax / nanargmin
        self.bodies: List[Path] = []
        self.break_ok = False


_SEL = re.compile(r"^np\.unravel_index\(np\.(nanargmax|nanargmin|argmax|argmin)\((\w+)\),\2\.shape\)$")


def index_parts(p: Path) -> Optional[Tuple[str, str, str]]:
    """(selection function, table, IDX text) from the env of a body path."""
    for name in ("est_idx", "gt_idx"):
        pass
    for v in p.env.values():
        t = S(v)
        if t.endswith("[0]") or t.endswith("[1]"):
            m = _SEL.match(t[:-3])
            if m:
                return m.group(1), m.group(2), t[:-3]
    return None


def delete_chain(e: ast.expr) -> Tuple[str, List[Tuple[str, str]]]:
    """np.delete(np.delete(T, i, axis=0), j, axis=1) -> ('T', [(i,'0'), (j,'1')])."""
    ops: List[Tuple[str, str]] = []
    while isinstance(e, ast.Call) and S(e.func) in ("np.delete", "numpy.delete"):
        args = list(e.args)
        kw = {k.arg: k.value for k in e.keywords}
        arr = args[0] if args else kw.get("arr")
        idx = args[1] if len(args) > 1 else kw.get("obj")
        axis = args[2] if len(args) > 2 else kw.get("axis")
        if arr is None or idx is None:
            break
        ops.append((S(idx), S(axis) if axis is not None else "None"))
        e = arr
    return S(e), list(reversed(ops))


def analyse_get_object_results(ctx: Ctx):
    fi = ctx.func(ORQ + "get_object_results")
    # helpers of the same module that are called inside the greedy loops are part of the selection / removal logic: inline them
    helpers = set()
    local_fns = {n.name for n in fi.module.tree.body if isinstance(n, ast.FunctionDef)}
    for lp in ast.walk(fi.node):
        if isinstance(lp, (ast.While, ast.For)):
            for c in ast.walk(lp):
                if isinstance(c, ast.Call) and isinstance(c.func, ast.Name) and c.func.id in local_fns:
                    helpers.add(c.func.id)
    paths = enum_paths(ctx, fi, inline=sorted(helpers))
    main = [p for p in paths if any(e.kind == "loop" for e in p.effects)]
    ctx.require(bool(main), "get_object_results: no path with the greedy loops")
    loops = loops_of(main)
    ctx.require(len(loops) == 2, f"get_object_results: expected two greedy loops, found {len(loops)}")
    loops.sort(key=lambda e: e.node.lineno)
    return fi, paths, main, loops


def loop_info(ctx: Ctx, eff: Effect) -> Greedy:
    g = Greedy(eff)
    for bp in eff.body:
        if bp.exit == ("break",):
            k = [k for k, v in bp.conds if v]
            if len(bp.conds) == 1 and k and re.match(r"^call:np\.isnan\((\w+)(@\d+)?\)\.all\(\)$", k[0]):
                g.break_ok = True
            continue
        if bp.exit and bp.exit[0] in ("fall", "continue"):
            g.bodies.append(bp)
    return g


# ----------------------------------------------------------------------------
# C01.1 index-space consistency of the greedy loops
# ----------------------------------------------------------------------------
def _working_copies(main: List[Path], fi) -> Tuple[Dict[str, str], List[str]]:
    """name -> 'est' | 'gt' for locals that are copies of the two input lists."""
    ps = [a.arg for a in fi.params()]
    est_p, gt_p = "estimated_objects", "ground_truth_objects"
    out: Dict[str, str] = {}
    for p in main:
        for e in p.effects:
            if e.kind == "assign" and e.value is not None:
                t = S(e.value)
                for param, tag in ((est_p, "est"), (gt_p, "gt")):
                    if t in (f"{param}.copy()", f"list({param})", f"{param}[:]", f"copy({param})", f"copy.copy({param})"):
                        out[e.recv] = tag
    return out, [est_p, gt_p]


def _names_loaded_after(fi, loop_node: ast.AST) -> set:
    end = getattr(loop_node, "end_lineno", loop_node.lineno)
    out = set()
    for n in ast.walk(fi.node):
        if isinstance(n, ast.Name) and isinstance(n.ctx, ast.Load) and getattr(n, "lineno", 0) > end:
            out.add(n.id)
    return out


def rule_index_space(ctx: Ctx, rule: str = "C01-index-space") -> None:
    fi, paths, main, loops = analyse_get_object_results(ctx)
    copies, params = _working_copies(main, fi)
    ctx.require("est" in copies.values() and "gt" in copies.values(), "get_object_results: working copies of the two input lists not found")
    n_shrink = 0
    for si, eff in enumerate(loops, 1):
        g = loop_info(ctx, eff)
        ctx.require(bool(g.bodies), f"get_object_results: stage {si} loop has no matching path")
        after = _names_loaded_after(fi, eff.node)
        for bp in g.bodies:
            parts = index_parts(bp)
            ctx.require(parts is not None, f"get_object_results: stage {si}: greedy selection idiom (np.unravel_index(np.nanarg*(T), T.shape)) not recognised")
            fn, sel, IDX = parts
            arm = "max" if "max" in fn else "min"
            est_i, gt_i = IDX + "[0]", IDX + "[1]"
            # --- list pops
            pops = [e for e in bp.effects if e.kind == "call" and e.name == "pop"]
            by = {"est": [], "gt": []}
            for e in pops:
                tag = copies.get(e.recv)
                if tag is None and e.recv in params:
                    ctx.violate(rule, "get_object_results", f"stage{si}:{arm}:pop-on-input:{e.recv}",
                                f"stage {si} pops from the caller's list `{e.recv}` instead of the working copy: the input is mutated and indices no longer line up with the score table",
                                fi=fi, node=e.node)
                    continue
                if tag is not None:
                    by[tag].append(S(e.args[0]) if e.args else "")
            for tag, want in (("est", est_i), ("gt", gt_i)):
                got = by[tag]
                n_shrink += len(got)
                ok = got == [want]
                ctx.check(ok, rule, "get_object_results", f"stage{si}:{arm}:pop-{tag}",
                          f"stage {si}: the {tag} working list is popped with {got or 'nothing'}; it must be popped exactly once with the {'row' if tag == 'est' else 'column'} index {want[-3:]} of the selected cell – otherwise an object can be paired twice",
                          fi=fi, expected=want, found=str(got), sample={"stage": si, "list": tag, "index": want[-3:]})
            # --- tables that stay in use must lose exactly that row and that column
            tables = {k for k, v in bp.env.items() if isinstance(v, ast.Call) and S(v.func) in ("np.delete", "numpy.delete")}
            required = {sel} | {t for t in tables if t in after}
            later_sel = set()
            for other in loops:
                if other.node.lineno > eff.node.lineno:
                    og = loop_info(ctx, other)
                    for obp in og.bodies:
                        op_ = index_parts(obp)
                        if op_ is None:
                            continue
                        pre_v = (other.pre or {}).get(op_[1])
                        if pre_v is None:
                            continue
                        names = set(re.findall(r"[A-Za-z_]\w*", strip_v(U(pre_v))))
                        later_sel |= names
                        derived = names & tables
                        if "_get_score_table" in names or not derived:
                            ctx.violate(rule, "get_object_results", f"stage{si}:{arm}:next-stage-table-stale",
                                        f"stage {si} removes the matched pair from `{sel}` only; the next stage selects from `{S(pre_v)[:80]}`, which still holds the matched rows/columns: objects can be paired twice",
                                        fi=fi, node=other.node, expected="a table shrunk by this stage", found=S(pre_v)[:120])
            for t in sorted(required | (tables & later_sel)):
                v = bp.env.get(t)
                if v is None:
                    ctx.violate(rule, "get_object_results", f"stage{si}:{arm}:table:{t}:not-shrunk",
                                f"stage {si}: the table `{t}` it selects from is not shrunk after a match: the same cell is selected again", fi=fi, node=eff.node)
                    continue
                base, ops = delete_chain(v)
                n_shrink += len(ops)
                want = sorted([(est_i, "0"), (gt_i, "1")])
                ok = base == t and sorted(ops) == want
                ctx.check(ok, rule, "get_object_results", f"stage{si}:{arm}:table:{t}",
                          f"stage {si}: table `{t}` is updated to {S(v)[:160]}; it must lose exactly row [0] (axis=0) and column [1] (axis=1) of the selected cell",
                          fi=fi, expected="np.delete(np.delete(T, IDX[0], axis=0), IDX[1], axis=1)", found=f"base={base} ops={[(o[0][-3:], o[1]) for o in ops]}",
                          sample={"stage": si, "table": t, "ops": [(o[0][-3:], o[1]) for o in ops]})
            # --- the appended result is built from the two popped objects
            ap = [e for e in appends(bp) if e.recv == "object_results"]
            ok = False
            found = ""
            if len(ap) == 1 and ap[0].args and isinstance(ap[0].args[0], ast.Call):
                c = ap[0].args[0]
                found = S(c)[:200]
                a = list(c.args)
                kw = {k.arg: k.value for k in c.keywords}
                e0 = a[0] if a else kw.get("estimated_object")
                g0 = a[1] if len(a) > 1 else kw.get("ground_truth_object")
                est_names = [k for k, v in copies.items() if v == "est"]
                gt_names = [k for k, v in copies.items() if v == "gt"]
                ok = (
                    S(c.func) == "DynamicObjectWithPerceptionResult"
                    and e0 is not None and g0 is not None
                    and any(S(e0) == f"{n}.pop({est_i})" for n in est_names)
                    and any(S(g0) == f"{n}.pop({gt_i})" for n in gt_names)
                )
            ctx.check(ok, rule, "get_object_results", f"stage{si}:{arm}:result",
                      f"stage {si}: the appended result is not DynamicObjectWithPerceptionResult(<popped estimate>, <popped ground truth>, ...): {found or [e.text[:80] for e in ap]}",
                      fi=fi, expected="DynamicObjectWithPerceptionResult(est_list.pop(IDX[0]), gt_list.pop(IDX[1]), ...)", found=found)
    ctx.require(n_shrink >= 10, f"get_object_results: only {n_shrink} shrink operations recognised (hand-confirmed minimum 10)")


# ----------------------------------------------------------------------------
# C02.1 stage structure
# ----------------------------------------------------------------------------
def _sign_and_core(e: ast.expr, mx: bool, mx_text: str):
    """(sign, core expression) of a score expression for a given value of the maximize flag."""
    sign = 1
    while True:
        if isinstance(e, ast.UnaryOp) and isinstance(e.op, ast.USub):
            sign, e = -sign, e.operand
        elif isinstance(e, ast.UnaryOp) and isinstance(e.op, ast.UAdd):
            e = e.operand
        elif isinstance(e, ast.IfExp):
            t = S(e.test)
            if t == mx_text:
                e = e.body if mx else e.orelse
            elif t == "not" + mx_text:
                e = e.orelse if mx else e.body
            else:
                return None, e
        elif isinstance(e, ast.Call) and S(e.func) in ("np.negative", "numpy.negative") and len(e.args) == 1:
            sign, e = -sign, e.args[0]
        elif isinstance(e, ast.BinOp) and isinstance(e.op, ast.Mult) and S(e.left) in ("-1", "-1.0"):
            sign, e = -sign, e.right
        elif isinstance(e, ast.BinOp) and isinstance(e.op, ast.Mult) and S(e.right) in ("-1", "-1.0"):
            sign, e = -sign, e.left
        else:
            return sign, e


def rule_stage_structure(ctx: Ctx, rule: str = "C02-stages") -> None:
    fi, paths, main, loops_all = analyse_get_object_results(ctx)
    done = set()
    for p in main:
        loops = sorted([e for e in p.effects if e.kind == "loop"], key=lambda e: e.node.lineno)
        if len(loops) != 2:
            continue
        sig = tuple(S((e.pre or {}).get(k)) for e in loops for k in sorted(e.pre or {}) if "score" in k or k == "maximize")
        fixed = None
        for k, v in p.facts.items():
            if S(k) in ("truthy:maximize", "truthy:_get_matching_module(matching_mode)[1]"):
                fixed = v
        if (sig, fixed) in done:
            continue
        done.add((sig, fixed))
        _stage_structure_on(ctx, rule, fi, loops, [fixed] if fixed is not None else [True, False])
    ctx.require(bool(done), "get_object_results: no path with both greedy loops")


def _stage_structure_on(ctx: Ctx, rule: str, fi, loops, mx_values) -> None:
    infos = []
    for si, eff in enumerate(loops, 1):
        g = loop_info(ctx, eff)
        arms: Dict[object, Tuple[str, str]] = {}
        mx_text = S((eff.pre or {}).get("maximize")) if (eff.pre or {}).get("maximize") is not None else "maximize"
        for bp in g.bodies:
            parts = index_parts(bp)
            ctx.require(parts is not None, f"get_object_results: stage {si}: greedy selection idiom not recognised")
            fn, sel, IDX = parts
            mk = [(k, v) for k, v in bp.conds if S(k) == "truthy:" + mx_text or S(k) == "truthy:maximize"]
            key = mk[0][1] if mk else None
            ctx.require(len(mk) <= 1 and key not in arms, f"get_object_results: stage {si}: selection arms not recognised ({bp.cond_text()[:100]})")
            arms[key] = (fn, sel)
        ctx.require(set(arms) in ({True, False}, {None}) or (len(mx_values) == 1 and set(arms) == {mx_values[0]}), f"get_object_results: stage {si}: selection arms {sorted(map(str, arms))} not recognised")
        sel = next(iter(arms.values()))[1]
        ctx.check(all(v[1] == sel for v in arms.values()), rule, "get_object_results", f"stage{si}:same-table", f"stage {si}: the two arms select from different tables", fi=fi)
        pre = (eff.pre or {}).get(sel)
        ctx.require(pre is not None, f"get_object_results: stage {si}: the selection table `{sel}` has no definition before the loop")
        cores = {}
        for mx in mx_values:
            fn = arms.get(mx, arms.get(None))[0]
            ctx.require(fn in ("nanargmax", "nanargmin", "argmax", "argmin"), f"get_object_results: stage {si}: unknown selector {fn}")
            score_expr = pre
            w = pre if isinstance(pre, ast.Call) and S(pre.func) in ("np.where", "numpy.where") and len(pre.args) == 3 else None
            outer_sign = 1
            if w is None:
                outer_sign, inner = _sign_and_core(pre, mx, mx_text)
                ctx.require(outer_sign is not None, f"get_object_results: stage {si}: cannot determine the sign of `{S(pre)[:80]}`")
                w = inner if isinstance(inner, ast.Call) and S(inner.func) in ("np.where", "numpy.where") and len(inner.args) == 3 else None
                score_expr = inner
            if w is not None:
                s2, core = _sign_and_core(w.args[1], mx, mx_text)
                ctx.require(s2 is not None, f"get_object_results: stage {si}: cannot determine the sign of `{S(w.args[1])[:80]}`")
                sign = outer_sign * s2
                cores[mx] = ("where", w.args[0], core, w.args[2])
            else:
                sign = outer_sign
                cores[mx] = ("raw", None, score_expr, None)
            op = "max" if "max" in fn else "min"
            eff_op = op if sign > 0 else ("min" if op == "max" else "max")
            want = "max" if mx else "min"
            ctx.check(eff_op == want and fn.startswith("nan"), rule, "get_object_results", f"stage{si}:arg-best:maximize={int(mx)}",
                      f"stage {si}, {'larger' if mx else 'smaller'}-is-better modes: the pair is selected with {fn} on {'the negated' if sign < 0 else 'the'} scores, i.e. the "
                      f"{'largest' if eff_op == 'max' else 'smallest'} score first; the best available pair ({'largest' if mx else 'smallest'} score) must be taken first (NaN-aware)",
                      fi=fi, node=eff.node, expected=f"arg{want} of the scores", found=f"{fn} of {'-' if sign < 0 else ''}scores",
                      sample={"stage": si, "maximize": mx, "selector": fn, "sign": sign})
        ctx.check(mx_text.startswith("_get_matching_module(matching_mode)[1]") or mx_text == "maximize", rule, "get_object_results", f"stage{si}:maximize-source",
                  f"stage {si}: the maximize flag is `{mx_text}`, not the flag returned by _get_matching_module(matching_mode)", fi=fi)
        ctx.check(g.break_ok, rule, "get_object_results", f"stage{si}:stop-on-all-nan",
                  f"stage {si} does not stop when its selection table holds no candidate (np.isnan(T).all()): nanarg* would raise / pick an unmatchable cell", fi=fi, node=eff.node)
        infos.append((eff, sel, cores))
    # stage 1 selects on the label-compatible mask, stage 2 on the raw scores left after stage 1
    eff1, sel1, cores1 = infos[0]
    eff2, sel2, cores2 = infos[1]
    for mx in mx_values:
        kind, c, a, b = cores1[mx]
        found = S((eff1.pre or {}).get(sel1))
        ok = kind == "where" and isinstance(c, ast.Subscript) and isinstance(a, ast.Subscript) and S(b) in ("np.nan", "numpy.nan", "float('nan')", "math.nan")
        if ok:
            ok = S(c.value) == S(a.value) and S(c.value).startswith("_get_score_table(") and S(c.slice) in ("(...,1)", "(Ellipsis,1)") and S(a.slice) in ("(...,0)", "(Ellipsis,0)")
        ctx.check(ok, rule, "get_object_results", f"stage1:mask:maximize={int(mx)}",
                  f"stage 1 selects from `{found[:140]}`; it must be the scores (column 0 of the score table) masked to NaN wherever the label-compatibility column (column 1) is false",
                  fi=fi, node=eff1.node, expected="np.where(table[..., 1], table[..., 0], np.nan)", found=found[:200])
    shrunk_in_1 = set()
    for bp in loop_info(ctx, eff1).bodies:
        for k, v in bp.env.items():
            if isinstance(v, ast.Call) and S(v.func) == "np.delete":
                shrunk_in_1.add(k)
    for mx in mx_values:
        kind, c, core, b = cores2[mx]
        found2 = S((eff2.pre or {}).get(sel2))
        ok2 = kind == "raw" and isinstance(core, ast.Subscript) and S(core.slice) in ("(...,0)", "(Ellipsis,0)") and isinstance(core.value, ast.Name)
        base2 = strip_v(core.value.id) if ok2 else ""
        pre_tab = (eff1.pre or {}).get(base2)
        ok2 = ok2 and base2 in shrunk_in_1 and pre_tab is not None and S(pre_tab).startswith("_get_score_table(")
        ctx.check(ok2, rule, "get_object_results", f"stage2:raw-rest:maximize={int(mx)}",
                  f"stage 2 selects from `{found2[:140]}`; it must be the raw scores (column 0) of the score table as left by stage 1 (matched rows/columns removed)",
                  fi=fi, node=eff2.node, expected="score_table[..., 0] after the stage-1 deletions", found=found2[:200])
    ctx.check(eff1.node.lineno < eff2.node.lineno, rule, "get_object_results", "order", "the label-compatible stage must run before the label-agnostic stage", fi=fi)


# ----------------------------------------------------------------------------
# C01.2 / C02.1: the score table
# ----------------------------------------------------------------------------
def rule_score_table(ctx: Ctx, rule: str = "C01-score-table") -> None:
    fi = ctx.func(ORQ + "_get_score_table")
    # the call that builds the table: estimates are the rows, ground truths the columns, every option reaches its parameter
    from sa.binder import bind
    from sa.index import calls_in
    caller = ctx.func(ORQ + "get_object_results")
    sites = [c for c in calls_in(caller.node) if isinstance(c.func, ast.Name) and c.func.id == "_get_score_table"]
    ctx.require(len(sites) == 1, "get_object_results: the call that builds the score table was not found")
    bnd = bind(sites[0], fi)
    want_args = {"estimated_objects": "estimated_objects", "ground_truth_objects": "ground_truth_objects", "matching_label_policy": "matching_label_policy",
                 "matching_method_module": "matching_method_module", "target_labels": "target_labels", "matchable_thresholds": "matchable_thresholds", "transforms": "transforms"}
    for prm, w in want_args.items():
        got = bnd.bound.get(prm)
        if prm == "matching_method_module":
            ok = got is not None and S(got) in ("matching_method_module", "_get_matching_module(matching_mode)[0]")
        else:
            ok = got is not None and S(got) == w
        ctx.check(ok, rule, "get_object_results", f"table-call:{prm}", f"the score table is built with {prm}=`{S(got) if got is not None else None}`; expected `{w}` (rows = estimates, columns = ground truths)",
                  fi=caller, expected=w, found=S(got) if got is not None else "None")
    paths = enum_paths(ctx, fi)
    outer = loops_of(paths)
    ctx.require(len(outer) == 1, "_get_score_table: expected one outer loop")
    o = outer[0]
    ctx.require(S(o.text) == "enumerate(estimated_objects)", f"_get_score_table: outer loop iterates `{o.text}`, rows must be the estimates")
    inner = []
    for bp in o.body:
        for e in bp.effects:
            if e.kind == "loop":
                inner.append(e)
    ctx.require(len(inner) >= 1, "_get_score_table: inner loop not found")
    i0 = inner[0]
    ctx.require(S(i0.text) == "enumerate(ground_truth_objects)", f"_get_score_table: inner loop iterates `{i0.text}`, columns must be the ground truths")
    ivar, evar = [U(x) for x in o.node.target.elts]
    jvar, gvar = [U(x) for x in i0.node.target.elts]
    # initialisation
    init = None
    for p in paths:
        for e in p.effects:
            if e.kind == "assign" and e.recv == "score_table":
                init = e.value
    ctx.require(init is not None, "_get_score_table: score_table initialisation not found")
    t = S(init)
    ok = t.startswith("np.full(") and "(np.nan,False)" in t
    ctx.check(ok, rule, "_get_score_table", "init-nan", f"the score table is initialised with `{t[:100]}`; unmatchable cells must be (NaN, False)", fi=fi,
              expected="np.full((rows, cols, 2), (np.nan, False))", found=t[:120])
    # the scores are compared exactly as computed: the table may not narrow them (float32 / float16 / int collapse distinct scores into ties)
    dt = None
    if isinstance(init, ast.Call):
        dt = next((S(k.value) for k in init.keywords if k.arg == "dtype"), S(init.args[2]) if len(init.args) > 2 else None)
    ctx.check(dt in (None, "float", "np.float64", "np.double", "numpy.float64", "object", "np.longdouble", "'float64'", "'f8'"), rule, "_get_score_table", "init-dtype",
              f"the score table is allocated with dtype={dt}: scores computed in double precision are narrowed, distinct scores can collapse into a tie and input order then decides the pairing",
              fi=fi, expected="no dtype (float64)", found=str(dt))
    for p in paths:
        for e in p.effects:
            if e.kind in ("assign", "store") and e.value is not None and ".astype(" in S(e.value) and "score" in S(e.value):
                ctx.violate(rule, "_get_score_table", "narrowed", f"scores are converted by `{S(e.value)[:80]}` before they are compared", fi=fi)
    stores = 0
    store_nodes = set()
    for bp in i0.body:
        st = [e for e in bp.effects if e.kind == "store" and strip_v(e.recv).startswith("score_table[")]
        for e in st:
            stores += 1
            store_nodes.add(id(e.node))
            idx = S(strip_v(e.recv))
            ctx.check(idx == f"score_table[{ivar},{jvar}]", rule, "_get_score_table", "cell-index",
                      f"a score is stored at `{idx}`; rows are estimates ({ivar}) and columns ground truths ({jvar})", fi=fi, node=e.node)
            same = fact_where(bp, lambda k: k in (f"same:{evar}.frame_id=={gvar}.frame_id", f"same:{gvar}.frame_id=={evar}.frame_id"))
            ctx.check(same is True, rule, "_get_score_table", "same-frame-guard",
                      "a score is stored for a pair without requiring est.frame_id == gt.frame_id: objects of different coordinate/camera frames could be paired", fi=fi, node=e.node,
                      expected="store dominated by est_obj.frame_id == gt_obj.frame_id", found=bp.cond_text()[:160])
            thr_none = fact_where(bp, lambda k: k.startswith("none:get_label_threshold("))
            better = fact_where(bp, lambda k: k.startswith("call:") and ".is_better_than(get_label_threshold(" in k)
            ctx.check(thr_none is True or better is True, rule, "_get_score_table", "radius-guard",
                      "a score is stored although the pair is not within the matchable radius configured for the label (neither `threshold is None` nor `is_better_than(threshold)` holds on the path)",
                      fi=fi, node=e.node, expected="threshold is None or matching.is_better_than(threshold)", found=bp.cond_text()[:200])
            # threshold looked up with the GT's label in the matchable-threshold list
            for c in find_calls(bp, "get_label_threshold"):
                a0 = c.kwargs.get("semantic_label") or (c.args[0] if c.args else None)
                a1 = c.kwargs.get("target_labels") or (c.args[1] if len(c.args) > 1 else None)
                a2 = c.kwargs.get("threshold_list") or (c.args[2] if len(c.args) > 2 else None)
                ctx.check(a0 is not None and S(a0) == f"{gvar}.semantic_label", "R-THRLABEL", "_get_score_table", "matchable-radius",
                          f"the matchable radius is looked up with `{S(a0) if a0 is not None else None}`; it must be the ground truth's label", fi=fi, node=c.node,
                          expected=f"{gvar}.semantic_label", found=S(a0) if a0 is not None else "None")
                ctx.check(a1 is not None and a2 is not None and S(a1) == "target_labels" and S(a2) == "matchable_thresholds", rule, "_get_score_table", "radius-list",
                          f"the radius lookup uses ({S(a1) if a1 is not None else None}, {S(a2) if a2 is not None else None}) instead of (target_labels, matchable_thresholds)", fi=fi, node=c.node)
            # cell content: (score of that very pair, label compatibility of that very pair)
            v = e.value
            okc = isinstance(v, ast.Tuple) and len(v.elts) == 2
            if okc:
                c0, c1 = v.elts
                okc = (
                    isinstance(c0, ast.Attribute) and c0.attr == "value" and isinstance(c0.value, ast.Call)
                    and _pair_args(c0.value, evar, gvar)
                    and isinstance(c1, ast.Call) and S(c1.func) == "matching_label_policy.is_matchable" and [S(a) for a in c1.args] == [evar, gvar]
                )
            ctx.check(okc, rule, "_get_score_table", "cell-content",
                      f"the cell holds `{S(v)[:160]}`; it must be (matching score of (est, gt), label_policy.is_matchable(est, gt)) for that very pair", fi=fi, node=e.node)
            # the radius test is made on the same matching object whose value is stored
            for c in [x for x in bp.effects if x.kind in ("call", "ccall") and x.name == "is_better_than"]:
                ctx.check(isinstance(v, ast.Tuple) and S(c.recv) == S(v.elts[0])[: -len(".value")] if isinstance(v, ast.Tuple) else False, rule, "_get_score_table", "radius-same-score",
                          "the matchable-radius test and the stored score come from different matching objects", fi=fi, node=c.node)
    ctx.require(stores >= 1, "_get_score_table: the store into the table was not found")
    ctx.check(len(store_nodes) == 1, rule, "_get_score_table", "single-store", f"{len(store_nodes)} statements store into the score table; exactly one guarded store is expected", fi=fi)
    # nothing else writes the table
    for p in paths:
        rv = p.retval
        ctx.check(rv is not None and S(rv) == "score_table", rule, "_get_score_table", "returns-table", f"returns `{S(rv) if rv is not None else None}`", fi=fi)


def _pair_args(call: ast.Call, evar: str, gvar: str) -> bool:
    kw = {k.arg: S(k.value) for k in call.keywords}
    a = [S(x) for x in call.args]
    e = kw.get("estimated_object", a[0] if a else None)
    g = kw.get("ground_truth_object", a[1] if len(a) > 1 else None)
    return e == evar and g == gvar


# ----------------------------------------------------------------------------
# R-CMPDIR
# ----------------------------------------------------------------------------
MODES = {
    "CENTERDISTANCE": "CenterDistanceMatching",
    "PLANEDISTANCE": "PlaneDistanceMatching",
    "IOU2D": "IOU2dMatching",
    "IOU3D": "IOU3dMatching",
}
BETTER = {"CenterDistanceMatching": "<", "PlaneDistanceMatching": "<", "IOU2dMatching": ">", "IOU3dMatching": ">"}


def matching_module_table(ctx: Ctx) -> Dict[str, Tuple[str, bool]]:
    fi = ctx.func(ORQ + "_get_matching_module")
    paths = enum_paths(ctx, fi)
    out: Dict[str, Tuple[str, bool]] = {}
    for p in paths:
        pos = [k for k, v in p.conds if v and k.startswith("eq:matching_mode==MatchingMode.")]
        if not pos:
            ctx.check(bool(p.exit) and p.exit[0] == "raise", "R-CMPDIR", "_get_matching_module", "unknown-mode", "an unknown matching mode does not raise", fi=fi)
            continue
        mode = pos[0].rsplit(".", 1)[1]
        rv = p.retval
        if p.exit and p.exit[0] == "raise":
            ctx.violate("R-CMPDIR", "_get_matching_module", f"{mode}:rejected", f"the supported matching mode {mode} raises {p.exit[1]}", fi=fi)
            out[mode] = ("(raises)", False)
            continue
        ctx.require(isinstance(rv, ast.Tuple) and len(rv.elts) == 2 and isinstance(rv.elts[1], ast.Constant), f"_get_matching_module: row {mode} does not return (class, bool)")
        out[mode] = (S(rv.elts[0]), bool(rv.elts[1].value))
    return out


def _threshold_interval_meets_domain(facts, thr: str, domain) -> bool:
    """Do the comparisons of the bare parameter `thr` with numeric constants decided on this path leave a value inside `domain` (closed interval)?
    Anything that is not such a comparison is ignored (-> over-approximation: True)."""
    lo, lo_strict, hi, hi_strict = domain[0], False, domain[1], False
    for k, v in facts.items():
        if not k.startswith("cmp:"):
            continue
        m = re.match(r"^cmp:(.+?) (<=|<) (.+)$", k)
        if not m:
            continue
        a, op, b = m.group(1).strip(), m.group(2), m.group(3).strip()
        try:
            if a == thr:
                c, thr_left = float(b), True
            elif b == thr:
                c, thr_left = float(a), False
            else:
                continue
        except ValueError:
            continue
        strict = op == "<"
        # normalise to  thr (<|<=) c   or   c (<|<=) thr, then negate when the fact is False
        upper = thr_left if v else not thr_left      # constraint bounds thr from above
        st = strict if v else not strict
        if upper:
            if c < hi or (c == hi and st and not hi_strict):
                hi, hi_strict = c, st
        else:
            if c > lo or (c == lo and st and not lo_strict):
                lo, lo_strict = c, st
    if lo > hi:
        return False
    if lo == hi:
        return not (lo_strict or hi_strict)
    return True


def is_better_than_op(ctx: Ctx, cname: str) -> Tuple[Optional[str], bool, object]:
    """(operator on `self.value ? threshold`, value-None-gives-False, FuncInfo)."""
    fi = ctx.func(OMQ + cname + ".is_better_than")
    thr = fi.params()[0].arg
    paths = enum_paths(ctx, fi, bool_returns=True)
    op = None
    none_false = False
    consistent = True
    for p in paths:
        if p.exit and p.exit[0] == "raise":
            continue  # the [0, 1] range assertion of the IoU modes
        vn = p.facts.get("none:self.value")
        val = p.retval.value if isinstance(p.retval, ast.Constant) else None
        if vn is True:
            none_false = val is False
            cmp_on_none = [k for k in p.facts if k.startswith("cmp:") and "self.value" in k]
            if cmp_on_none:
                ctx.violate("R-CMPDIR", f"{cname}.is_better_than", "compares-missing-score", f"{cname}.is_better_than evaluates `{cmp_on_none[0][4:]}` on the path where the score is None (no ground truth): "
                            "a missing score must simply be `not better` (and an existing one must be compared)", fi=fi)
                return "?", none_false, fi
            continue
        # the bound the score is compared with must be the threshold the caller gave, not a rescaled one - unless the path is only reachable for thresholds
        # outside the threshold's domain (IoU: [0, 1]; distances: [0, inf)), about which the property says nothing
        resc = [k for k in p.facts if k.startswith("cmp:") and "self.value" in k and thr in k and k[4:].replace("self.value", "").replace("<=", "").replace("<", "").strip() != thr]
        if resc:
            if _threshold_interval_meets_domain(p.facts, thr, (0.0, 1.0) if cname.startswith("IOU") else (0.0, float("inf"))):
                ctx.violate("R-CMPDIR", f"{cname}.is_better_than", "rescaled-threshold",
                            f"{cname}.is_better_than compares the score with `{resc[0][4:]}` on the path [{p.cond_text()[:120]}], which thresholds inside the valid range can take: "
                            "the bound is no longer the threshold the caller gave, so a result that is a TP at one threshold need not be a TP at every looser one", fi=fi,
                            expected=f"self.value compared with {thr} itself", found=resc[0][4:])
                return "?", none_false, fi
            continue
        if vn is False and isinstance(p.retval, ast.Constant) and not any(k.startswith("cmp:") and "self.value" in k for k in p.facts):
            ctx.violate("R-CMPDIR", f"{cname}.is_better_than", "ignores-score", f"{cname}.is_better_than returns {p.retval.value} for an existing score without comparing it with the threshold", fi=fi)
            return "?", none_false, fi
        lt = p.facts.get(f"cmp:self.value < {thr}")
        gt = p.facts.get(f"cmp:{thr} < self.value")
        le = p.facts.get(f"cmp:self.value <= {thr}")
        ge = p.facts.get(f"cmp:{thr} <= self.value")
        cand = None
        for name, f in (("<", lt), (">", gt), ("<=", le), (">=", ge)):
            if f is not None:
                cand = name if f == val else {"<": ">=", ">": "<=", "<=": ">", ">=": "<"}[name]
        if cand is None:
            consistent = False
        elif op is None:
            op = cand
        elif op != cand:
            consistent = False
    return (op if consistent else None), none_false, fi


def rule_cmpdir(ctx: Ctx, rule: str = "R-CMPDIR") -> None:
    table = matching_module_table(ctx)
    fi_mod = ctx.func(ORQ + "_get_matching_module")
    for mode, cname in MODES.items():
        ctx.require(mode in table, f"_get_matching_module: mode {mode} not handled")
        got_cls, maximize = table[mode]
        ctx.check(got_cls == cname, rule, "_get_matching_module", f"{mode}:class", f"mode {mode} is scored with {got_cls}, expected {cname}", fi=fi_mod)
        op, none_false, fi = is_better_than_op(ctx, cname)
        want = BETTER[cname]
        if op == "?":
            continue
        if op is None:
            # not a single comparison: look at the polarity with which the threshold occurs (E8)
            thr = fi.params()[0].arg
            neg = []
            for p in enum_paths(ctx, fi, bool_returns=True):
                if p.exit and p.exit[0] == "raise" or p.facts.get("none:self.value") is True:
                    continue
                for k in p.facts:
                    if not k.startswith("cmp:") or thr not in k or "self.value" not in k:
                        continue
                    lhs, _, rhs = k[4:].partition(" <")
                    thr_left = thr in lhs
                    # distance modes: looser = larger threshold, the threshold must be an UPPER bound of the score
                    if (want == "<" and thr_left) or (want == ">" and not thr_left):
                        neg.append(k[4:])
            if neg:
                ctx.violate(rule, f"{cname}.is_better_than", "polarity",
                            f"{cname}.is_better_than also uses the threshold as a {'lower' if want == '<' else 'upper'} bound of the score (`{neg[0]}`): loosening the threshold can turn a match into a non-match",
                            fi=fi, expected=f"self.value {want} threshold_value", found=neg[0])
                continue
        ctx.require(op is not None, f"{cname}.is_better_than: not a single comparison of self.value with the threshold")
        ctx.check(op == want, rule, f"{cname}.is_better_than", "direction",
                  f"{cname}.is_better_than compares `self.value {op} threshold`; {'a smaller distance' if want == '<' else 'a larger IoU'} is better, and the comparison is strict (`{want}`)",
                  fi=fi, expected=f"self.value {want} threshold_value", found=f"self.value {op} threshold_value", sample={"class": cname, "op": op})
        ctx.check(none_false, rule, f"{cname}.is_better_than", "none-is-false", f"{cname}.is_better_than does not return False when there is no score (value is None)", fi=fi)
        ctx.check(maximize == (op in (">", ">=")), rule, "_get_matching_module", f"{mode}:maximize",
                  f"mode {mode}: maximize={maximize} but {cname}.is_better_than treats {'larger' if op in ('>', '>=') else 'smaller'} as better: the greedy stages would pick the worst pair first",
                  fi=fi_mod, expected=f"maximize={op in ('>', '>=')}", found=f"maximize={maximize}")


# ----------------------------------------------------------------------------
# C02.3 label policy truth table
# ----------------------------------------------------------------------------
def rule_label_policy(ctx: Ctx, rule: str = "C02-label-policy") -> None:
    fi = ctx.func(OMQ + "MatchingLabelPolicy.is_matchable")
    paths = enum_paths(ctx, fi, bool_returns=True)
    est, gt = [a.arg for a in fi.params()][:2]
    rows = 0
    for p in paths:
        ctx.require(p.exit == ("return",) and isinstance(p.retval, ast.Constant), f"is_matchable: path [{p.cond_text()}] does not return a decided boolean")
        val = bool(p.retval.value)
        f = {strip_v(k): v for k, v in p.facts.items()}
        atoms = {
            "gt_fp": f.get(f"call:{gt}.semantic_label.is_fp()"),
            "any": f.get("eq:self==MatchingLabelPolicy.ALLOW_ANY"),
            "unk": f.get("eq:self==MatchingLabelPolicy.ALLOW_UNKNOWN"),
            "dflt": f.get("eq:self==MatchingLabelPolicy.DEFAULT"),
            "same": next((v for k, v in f.items() if k.startswith("call:is_same_label(")), None),
            "est_unknown": f.get(f"call:{est}.semantic_label.is_unknown()"),
        }
        extra = [k for k in f if not any(k.startswith(pfx) for pfx in ("call:" + gt + ".semantic_label.is_fp()", "eq:self==MatchingLabelPolicy.", "call:is_same_label(", "call:" + est + ".semantic_label.is_unknown"))]
        # other predicates on the two labels are treated as atoms the policy table does not mention (the value must then not depend on them)
        bad_extra = [k for k in extra if not (k.startswith(f"call:{est}.semantic_label.") or k.startswith(f"call:{gt}.semantic_label."))]
        ctx.require(not bad_extra, f"is_matchable: decision depends on unexpected tests {bad_extra}")
        for pol in ("DEFAULT", "ALLOW_UNKNOWN", "ALLOW_ANY"):
            # is this path consistent with policy `pol`?
            if atoms["any"] is not None and atoms["any"] != (pol == "ALLOW_ANY"):
                continue
            if atoms["unk"] is not None and atoms["unk"] != (pol == "ALLOW_UNKNOWN"):
                continue
            if atoms["dflt"] is not None and atoms["dflt"] != (pol == "DEFAULT"):
                continue
            free = [k for k in ("gt_fp", "same", "est_unknown") if atoms[k] is None]
            for bits in range(1 << len(free)):
                a = dict(atoms)
                for i, k in enumerate(free):
                    a[k] = bool(bits >> i & 1)
                want = a["gt_fp"] or pol == "ALLOW_ANY" or (pol == "ALLOW_UNKNOWN" and (a["same"] or a["est_unknown"])) or (pol == "DEFAULT" and a["same"])
                rows += 1
                inst = f"{pol}:gt_fp={int(a['gt_fp'])}:same={int(a['same'])}:est_unknown={int(a['est_unknown'])}"
                ctx.check(val == bool(want), rule, "MatchingLabelPolicy.is_matchable", inst,
                          f"policy {pol}, GT false-positive-labelled={a['gt_fp']}, same label={a['same']}, estimate unknown={a['est_unknown']}: is_matchable gives {val}, the policy table gives {bool(want)}",
                          fi=fi, expected=str(bool(want)), found=str(val), sample={"row": inst, "value": val})
    ctx.table_rows += rows
    ctx.require(rows >= 24, f"is_matchable: only {rows} table rows covered (24 expected)")
