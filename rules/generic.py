"""Cross-cutting rules: R-KW, R-KW-splat, R-TF (wiring of keywords and of `transforms`)."""
from __future__ import annotations

import ast
from typing import Dict, Iterable, List, Optional, Set, Tuple

from sa.binder import Binding, bind, reads_kwargs
from sa.index import ClassInfo, FuncInfo, calls_in, walk_own
from sa.report import Ctx
from sa.source import parent_of

PKG = "perception_eval."

EVAL_SCOPE = (
    "perception_eval.manager",
    "perception_eval.evaluation",
    "perception_eval.common",
    "perception_eval.config",
    "perception_eval.tool",
    "perception_eval.util",
)


def short(q: str) -> str:
    return q[len(PKG):] if q.startswith(PKG) else q


def in_scope(fi: FuncInfo, scope: Iterable[str]) -> bool:
    return any(fi.module.name == s or fi.module.name.startswith(s + ".") for s in scope)


def scope_functions(ctx: Ctx, scope: Iterable[str]) -> List[FuncInfo]:
    scope = tuple(scope)
    return [fi for fi in ctx.index.functions.values() if in_scope(fi, scope)]


def full_scope(ctx: Ctx) -> Tuple[str, ...]:
    if ctx.tier == "thorough":
        return EVAL_SCOPE + ("perception_eval.visualization",)
    return EVAL_SCOPE


# ----------------------------------------------------------------------------
# R-KW
# ----------------------------------------------------------------------------
KW_ALLOW: Dict[Tuple[str, str], str] = {
    # (callee short qualname, keyword): reason
}


def _forward_target(ctx: Ctx, callee: FuncInfo) -> Optional[FuncInfo]:
    """If ``callee`` forwards its **kwargs whole to exactly one resolved call, return that callee."""
    kw = callee.node.args.kwarg
    if kw is None:
        return None
    targets: List[FuncInfo] = []
    other_use = False
    for n in walk_own(callee.node):
        if isinstance(n, ast.Name) and n.id == kw.arg and isinstance(n.ctx, ast.Load):
            par = parent_of(n)
            if isinstance(par, ast.keyword) and par.arg is None:
                call = parent_of(par)
                if isinstance(call, ast.Call):
                    cands, kind = ctx.resolver.resolve_call(call, callee, count=False)
                    if kind == "unique":
                        targets.append(cands[0])
                        continue
            other_use = True
    if len(targets) == 1 and not other_use:
        return targets[0]
    return None


def rule_kw(ctx: Ctx, scope: Iterable[str], rule: str = "R-KW", min_sites: int = 30) -> None:
    """Every explicit keyword binds to a named parameter; a dead **kwargs must not swallow one."""
    n_sites = 0
    for fi in scope_functions(ctx, scope):
        for call in calls_in(fi.node):
            if not call.keywords:
                continue
            cands, kind = ctx.resolver.resolve_call(call, fi)
            if kind != "unique":
                continue
            callee = cands[0]
            b = bind(call, callee)
            n_sites += 1
            ctx.call_sites += 1
            bad: List[Tuple[str, str]] = []
            for kw in b.absorbed_kw:
                if reads_kwargs(callee):
                    tgt = _forward_target(ctx, callee)
                    if tgt is None:
                        continue  # the callee consumes its kwargs itself
                    names = {a.arg for a in tgt.node.args.args + tgt.node.args.kwonlyargs}
                    if kw in names or tgt.node.args.kwarg is not None:
                        continue
                    bad.append((kw, f"forwarded to {short(tgt.qualname)} which has no parameter `{kw}`"))
                elif (short(callee.qualname), kw) in KW_ALLOW:
                    continue
                else:
                    params = [a.arg for a in callee.params()]
                    near = [p for p in params if p.startswith(kw[:5]) or kw.startswith(p[:5])]
                    bad.append((kw, f"keyword `{kw}` is swallowed by the never-read **{callee.node.args.kwarg.arg} of {short(callee.qualname)}" + (f" (did you mean `{near[0]}`?)" if near else "")))
            for kw in b.unknown_kw:
                bad.append((kw, f"{short(callee.qualname)} has no parameter `{kw}` and no **kwargs"))
            if bad:
                for kw, why in bad:
                    ctx.violate(rule, short(fi.qualname), f"{callee.name}:{kw}", why, fi=fi, node=call,
                                expected="every keyword binds to a named parameter", found=ast.unparse(call)[:200])
            else:
                ctx.ok(rule, short(fi.qualname), f"{callee.name}@{_site_key(call)}",
                       sample={"call": ast.unparse(call)[:120], "bound": sorted(b.bound)} if n_sites % 40 == 1 else None)
    ctx.require(n_sites >= min_sites, f"{rule}: only {n_sites} resolved keyword call sites (hand-confirmed minimum {min_sites})")


# ----------------------------------------------------------------------------
# R-ARITY
# ----------------------------------------------------------------------------
def rule_arity(ctx: Ctx, scope: Iterable[str], rule: str = "R-ARITY", min_sites: int = 100) -> None:
    """Every call whose callee resolves uniquely binds all required parameters and passes no surplus positional
    (what a type checker would report; none is available here).  Large parts of the package (analysis tools, dataset
    loading) are not executed by the test suite, so a call that would raise TypeError can survive it."""
    n_sites = 0
    for fi in scope_functions(ctx, scope):
        for call in calls_in(fi.node):
            cands, kind = ctx.resolver.resolve_call(call, fi, count=False)
            if kind != "unique":
                continue
            callee = cands[0]
            if any(d in ("property", "overload") for d in callee.decorators) or callee.is_abstract:
                continue
            b = bind(call, callee)
            n_sites += 1
            missing = list(b.missing)
            surplus = [] if callee.node.args.vararg is not None else b.extra_pos
            # swapped positionals: the arguments are plain names that are exactly the callee's parameter names, but at other positions
            pos_params = [a.arg for a in callee.node.args.posonlyargs + callee.node.args.args]
            if callee.cls is not None and not callee.is_static and callee.parent is None and pos_params:
                pos_params = pos_params[1:]
            argn = [a.id if isinstance(a, ast.Name) else (a.attr if isinstance(a, ast.Attribute) and isinstance(a.value, ast.Name) and a.value.id == "self" else None) for a in call.args]
            swapped = [(i, n) for i, n in enumerate(argn) if n is not None and i < len(pos_params) and n != pos_params[i] and n in pos_params and pos_params[i] in argn]
            if swapped:
                i, n = swapped[0]
                ctx.violate("R-ARGORDER", short(fi.qualname), f"{callee.name}:{n}", f"`{n}` is passed at the position of parameter `{pos_params[i]}` of {short(callee.qualname)} while `{pos_params[i]}` is passed elsewhere: "
                            "positional arguments are swapped", fi=fi, node=call, expected=f"{callee.name}({', '.join(pos_params[:len(call.args)])})", found=ast.unparse(call)[:160])
            if missing or surplus:
                why = (f"required parameter(s) {missing} of {short(callee.qualname)} are not bound" if missing else "") + (
                    f"{'; ' if missing else ''}{len(surplus)} positional argument(s) too many for {short(callee.qualname)}" if surplus else "")
                ctx.violate(rule, short(fi.qualname), f"{callee.name}:{','.join(missing) or 'surplus'}", why + " (TypeError when the call is executed)", fi=fi, node=call,
                            expected="all required parameters bound, no surplus positional", found=ast.unparse(call)[:200])
            else:
                ctx.ok(rule, short(fi.qualname), f"{callee.name}@{_site_key(call)}")
    ctx.require(n_sites >= min_sites, f"{rule}: only {n_sites} resolved call sites (hand-confirmed minimum {min_sites})")


# ----------------------------------------------------------------------------
# R-KW-splat
# ----------------------------------------------------------------------------
SPLAT_ALLOW: Dict[Tuple[str, str], str] = {
    ("evaluation.matching.objects_filter.filter_objects", "max_matchable_radii"): "matching radius, consumed by get_object_results in the manager's _filter_objects; not a filter criterion",
    ("evaluation.matching.objects_filter.filter_objects", "uuid_matching_first"): "matching option, consumed by get_object_results in the manager's _filter_objects; not a filter criterion",
}


def _forward_targets(ctx: Ctx, callee: FuncInfo) -> List[FuncInfo]:
    kw = callee.node.args.kwarg
    out: List[FuncInfo] = []
    if kw is None:
        return out
    for n in walk_own(callee.node):
        if isinstance(n, ast.Call):
            for k in n.keywords:
                if k.arg is None and isinstance(k.value, ast.Name) and k.value.id == kw.arg:
                    cands, kind = ctx.resolver.resolve_call(n, callee, count=False)
                    if kind == "unique" and cands[0] not in out:
                        out.append(cands[0])
    return out


def splat_keys(ctx: Ctx, call: ast.Call, fi: FuncInfo) -> Optional[List[Tuple[List[str], str]]]:
    """Keys of every statically known dict behind the call's ``**expr`` arguments.

    None if some splat cannot be resolved to literals."""
    from sa.dictflow import dict_literals, literal_keys

    out: List[Tuple[List[str], str]] = []
    for k in call.keywords:
        if k.arg is not None:
            continue
        found = dict_literals(k.value, fi, ctx.resolver)
        if not found:
            return None
        for d, where in found:
            keys = literal_keys(d)
            if keys is None:
                return None
            out.append((keys, short(where.qualname)))
    return out


def rule_kw_splat(ctx: Ctx, scope: Iterable[str], rule: str = "R-KW-splat", min_sites: int = 0) -> int:
    n = 0
    for fi in scope_functions(ctx, scope):
        for call in calls_in(fi.node):
            if not any(k.arg is None for k in call.keywords):
                continue
            cands, kind = ctx.resolver.resolve_call(call, fi)
            if kind != "unique":
                continue
            callee = cands[0]
            cand_keys = splat_keys(ctx, call, fi)
            if cand_keys is None:
                ctx.extra["unresolved_splats"] = ctx.extra.get("unresolved_splats", 0) + 1
                continue
            n += 1
            ctx.call_sites += 1
            a = callee.node.args
            named = {x.arg for x in a.args + a.kwonlyargs + a.posonlyargs}
            targets = _forward_targets(ctx, callee) if reads_kwargs(callee) else []
            explicit = {k.arg for k in call.keywords if k.arg}
            for keys, where in cand_keys:
                bad = []
                for key in keys:
                    if key in named:
                        if key in explicit:
                            bad.append((key, f"key `{key}` of the dict built in {where} collides with the explicit keyword"))
                        continue
                    if a.kwarg is None:
                        bad.append((key, f"{short(callee.qualname)} has no parameter `{key}` (dict built in {where})"))
                    elif targets:
                        for t in targets:
                            ta = t.node.args
                            if key not in {x.arg for x in ta.args + ta.kwonlyargs} and ta.kwarg is None:
                                bad.append((key, f"forwarded by {short(callee.qualname)} to {short(t.qualname)} which has no parameter `{key}` (dict built in {where})"))
                    elif not reads_kwargs(callee):
                        if (short(callee.qualname), key) in SPLAT_ALLOW:
                            continue
                        bad.append((key, f"key `{key}` of the dict built in {where} is swallowed by the never-read **{a.kwarg.arg} of {short(callee.qualname)}"))
                inst = f"{callee.cls.name + '.' if callee.cls else ''}{callee.name}@{_ordinal(fi, call)}<-{where.rsplit('.', 1)[-1]}"
                if bad:
                    for key, why in bad:
                        ctx.violate(rule, short(fi.qualname), f"{inst}:{key}", why, fi=fi, node=call,
                                    expected="every dict key is a named parameter of the callee", found=ast.unparse(call)[:200])
                else:
                    ctx.ok(rule, short(fi.qualname), inst, sample={"call": ast.unparse(call)[:120], "keys": keys})
    if min_sites:
        ctx.require(n >= min_sites, f"{rule}: only {n} splat sites with a statically known dict (hand-confirmed minimum {min_sites})")
    return n


def _site_key(call: ast.Call) -> str:
    return ",".join(sorted(k.arg or "**" for k in call.keywords))


# ----------------------------------------------------------------------------
# R-TF
# ----------------------------------------------------------------------------
def _is_transforms_expr(e: ast.expr) -> bool:
    if isinstance(e, ast.Name):
        return e.id == "transforms"
    if isinstance(e, ast.Attribute):
        return e.attr == "transforms"
    return False


def transforms_in_scope(fi: FuncInfo) -> Optional[str]:
    for a in fi.node.args.args + fi.node.args.kwonlyargs:
        if a.arg == "transforms":
            return "transforms"
    for n in walk_own(fi.node):
        if isinstance(n, ast.Attribute) and n.attr == "transforms" and isinstance(n.ctx, ast.Load):
            return ast.unparse(n)
    return None


class Relevance:
    """Does a callee's ``transforms`` parameter reach a use?  yes / no / maybe."""

    def __init__(self, ctx: Ctx):
        self.ctx = ctx
        self.memo: Dict[Tuple[str, str], str] = {}

    def of(self, callee: FuncInfo, recv: Optional[ClassInfo] = None, _stack: Tuple = ()) -> str:
        key = (callee.qualname, recv.qualname if recv else "")
        if key in self.memo:
            return self.memo[key]
        if key in _stack:
            return "no"
        pname = "transforms"
        if not any(a.arg == pname for a in callee.node.args.args + callee.node.args.kwonlyargs):
            self.memo[key] = "no"
            return "no"
        res = "no"
        for n in walk_own(callee.node):
            # transforms.transform(...) / transforms[...] / assert transforms is not None
            if isinstance(n, ast.Attribute) and isinstance(n.value, ast.Name) and n.value.id == pname:
                res = "yes"
                break
            if isinstance(n, ast.Subscript) and isinstance(n.value, ast.Name) and n.value.id == pname:
                res = "yes"
                break
            if isinstance(n, ast.Compare) and isinstance(n.left, ast.Name) and n.left.id == pname:
                par = parent_of(n)
                while par is not None and isinstance(par, (ast.BoolOp, ast.UnaryOp)):
                    par = parent_of(par)
                if isinstance(par, ast.Assert):
                    res = "yes"
                    break
                if isinstance(par, ast.If) and any(isinstance(s, ast.Raise) for s in par.body):
                    res = "yes"
                    break
            if isinstance(n, ast.Call):
                passes = [k for k in n.keywords if isinstance(k.value, ast.Name) and k.value.id == pname] or [
                    a for a in n.args if isinstance(a, ast.Name) and a.id == pname
                ]
                if not passes:
                    continue
                sub: List[FuncInfo] = []
                f = n.func
                if recv is not None and isinstance(f, ast.Attribute) and isinstance(f.value, ast.Name) and f.value.id == "self":
                    m = recv.find_method(f.attr)
                    if m is not None:
                        sub = [m]
                elif recv is not None and isinstance(f, ast.Attribute) and isinstance(f.value, ast.Call) and isinstance(f.value.func, ast.Name) and f.value.func.id == "super":
                    cands, kind = self.ctx.resolver.resolve_call(n, callee, count=False)
                    sub = list(cands)
                else:
                    cands, kind = self.ctx.resolver.resolve_call(n, callee, count=False)
                    if kind in ("unique", "cha"):
                        sub = list(cands)
                if not sub and isinstance(f, ast.Name) and any(a.arg == f.id for a in callee.node.args.args):
                    sub_classes = self._callable_param_classes(callee, f.id)
                    for k in sub_classes:
                        init = k.find_method("__init__")
                        if init is not None and self.of(init, k, _stack + (key,)) == "yes":
                            res = "yes"
                            break
                    if res == "yes":
                        break
                    if sub_classes:
                        continue
                if not sub:
                    if res == "no":
                        res = "maybe"
                    continue
                for s in sub:
                    k = recv if (s.cls is not None and recv is not None and s.cls in recv.mro()) else (self.ctx.resolver.receiver_class(n, callee) if s.name == "__init__" else None)
                    r = self.of(s, k, _stack + (key,))
                    if r == "yes":
                        res = "yes"
                        break
                    if r == "maybe" and res == "no":
                        res = "maybe"
                if res == "yes":
                    break
        self.memo[key] = res
        return res


def _callable_param_classes(self, callee: FuncInfo, pname: str) -> List[ClassInfo]:
    """Classes that may be bound to the callable parameter ``pname`` of ``callee`` (followed through one
    tuple-returning helper, e.g. ``module, maximize = _get_matching_module(mode)``)."""
    ctx = self.ctx
    out: List[ClassInfo] = []
    for fi in ctx.index.functions.values():
        for call in calls_in(fi.node):
            cands, kind = ctx.resolver.resolve_call(call, fi, count=False)
            if kind != "unique" or cands[0] is not callee:
                continue
            v = bind(call, callee).bound.get(pname)
            if not isinstance(v, ast.Name):
                continue
            r = ctx.index.resolve_name(fi.module.name, v.id)
            if isinstance(r, ClassInfo):
                out.append(r)
                continue
            for n in walk_own(fi.node):
                if isinstance(n, ast.Assign) and isinstance(n.value, ast.Call):
                    for t in n.targets:
                        elts = t.elts if isinstance(t, ast.Tuple) else [t]
                        for i, e in enumerate(elts):
                            if isinstance(e, ast.Name) and e.id == v.id:
                                g, gk = ctx.resolver.resolve_call(n.value, fi, count=False)
                                if gk != "unique":
                                    continue
                                for rn in walk_own(g[0].node):
                                    if isinstance(rn, ast.Return) and rn.value is not None:
                                        rv = rn.value.elts[i] if isinstance(rn.value, ast.Tuple) and isinstance(t, ast.Tuple) and i < len(rn.value.elts) else rn.value
                                        names = [rv.id] if isinstance(rv, ast.Name) else []
                                        for nm in names:
                                            for an in walk_own(g[0].node):
                                                val = None
                                                if isinstance(an, ast.AnnAssign) and isinstance(an.target, ast.Name) and an.target.id == nm:
                                                    val = an.value
                                                elif isinstance(an, ast.Assign) and any(isinstance(x, ast.Name) and x.id == nm for x in an.targets):
                                                    val = an.value
                                                if isinstance(val, ast.Name):
                                                    k = ctx.index.resolve_name(g[0].module.name, val.id)
                                                    if isinstance(k, ClassInfo) and k not in out:
                                                        out.append(k)
    return out


Relevance._callable_param_classes = _callable_param_classes


def _guarded_base_link(call: ast.AST) -> bool:
    """True iff the call sits under an `if` whose test requires `frame_id == FrameID.BASE_LINK`."""
    node = call
    par = parent_of(node)
    while par is not None and not isinstance(par, (ast.FunctionDef, ast.AsyncFunctionDef)):
        if isinstance(par, ast.If) and node in par.body:
            for c in ast.walk(par.test):
                if isinstance(c, ast.Compare) and len(c.ops) == 1 and isinstance(c.ops[0], ast.Eq):
                    txt = ast.unparse(c)
                    if "frame_id" in txt and "BASE_LINK" in txt:
                        # must be a conjunct, not under `or` / `not`
                        p2 = parent_of(c)
                        okc = True
                        while p2 is not None and p2 is not par:
                            if isinstance(p2, ast.BoolOp) and isinstance(p2.op, ast.Or):
                                okc = False
                            if isinstance(p2, ast.UnaryOp):
                                okc = False
                            p2 = parent_of(p2)
                        if okc:
                            return True
        node = par
        par = parent_of(par)
    return False


def rule_tf(ctx: Ctx, scope: Iterable[str], rule: str = "R-TF", only_callers: Optional[Set[str]] = None, min_sites: int = 0) -> int:
    """Where a transforms value is in scope, every transforms-relevant callee receives it."""
    rel = Relevance(ctx)
    n = 0
    for fi in scope_functions(ctx, scope):
        if only_callers is not None and short(fi.qualname) not in only_callers:
            continue
        tf = transforms_in_scope(fi)
        if tf is None:
            continue
        for call in calls_in(fi.node):
            cands, kind = ctx.resolver.resolve_call(call, fi)
            recv = None
            if (kind not in ("unique", "cha") or not cands) and isinstance(call.func, ast.Name) and any(a.arg == call.func.id for a in fi.node.args.args):
                # a callable parameter (e.g. the matching class handed to _get_score_table)
                classes = rel._callable_param_classes(fi, call.func.id)
                inits = [(k, k.find_method("__init__")) for k in classes]
                inits = [(k, m) for k, m in inits if m is not None and rel.of(m, k) == "yes"]
                if inits:
                    cands, kind, recv = [inits[0][1]], "unique", inits[0][0]
            if kind not in ("unique", "cha") or not cands:
                continue
            with_param = [c for c in cands if any(a.arg == "transforms" for a in c.node.args.args + c.node.args.kwonlyargs)]
            if not with_param:
                continue
            if recv is None:
                recv = ctx.resolver.receiver_class(call, fi)
            verdicts = []
            splat_unknown = False
            for c in with_param:
                k = recv if (recv is not None and (c.cls is None or c.cls in recv.mro())) else None
                r = rel.of(c, k)
                b = bind(call, c)
                bound = b.bound.get("transforms")
                if b.star_kwargs and bound is None:
                    ck = splat_keys(ctx, call, fi)
                    if ck is None or any("transforms" in keys for keys, _ in ck):
                        splat_unknown = True
                verdicts.append((c, r, b, bound))
            if all(r == "no" for _, r, _, _ in verdicts):
                continue
            n += 1
            ctx.call_sites += 1
            inst = f"{with_param[0].cls.name + '.' if with_param[0].cls else ''}{with_param[0].name}@{_ordinal(fi, call)}"
            missing = [(c, r) for c, r, b, bound in verdicts if r == "yes" and bound is None and not splat_unknown and not b.star_args]
            wrong = [(c, bound) for c, r, b, bound in verdicts if r == "yes" and bound is not None and not _is_transforms_expr(bound) and not _tf_like(bound) and not _local_tf(fi, bound)]
            if missing and len(missing) == len([v for v in verdicts if v[1] == "yes"]) and len(verdicts) == len(missing):
                c0 = missing[0][0]
                b0 = [b for c, r, b, bound in verdicts if c is c0][0]
                gt_none = any(k in b0.bound and isinstance(b0.bound[k], ast.Constant) and b0.bound[k].value is None for k in ("ground_truth_object", "ground_truth_objects"))
                if _guarded_base_link(call) or gt_none:
                    ctx.ok(rule, short(fi.qualname), inst + ":guarded", sample={"call": ast.unparse(call)[:120], "exception": "BASE_LINK guard or ground truth None"})
                    continue
                ctx.violate(rule, short(fi.qualname), inst,
                            f"`{tf}` is in scope but the call leaves the `transforms` parameter of {short(c0.qualname)} at its default (None): positions are not moved to the ego frame",
                            fi=fi, node=call, expected=f"transforms={tf}", found=ast.unparse(call)[:200])
            elif wrong and len(wrong) == len(verdicts):
                ctx.violate(rule, short(fi.qualname), inst, f"`transforms` parameter receives `{ast.unparse(wrong[0][1])}` which is not a transforms value",
                            fi=fi, node=call, expected=f"transforms={tf}", found=ast.unparse(call)[:200])
            elif any(r == "maybe" for _, r, _, _ in verdicts) and not any(r == "yes" for _, r, _, _ in verdicts):
                ctx.info(f"{rule}: {short(fi.qualname)} -> {with_param[0].name}: relevance undetermined (unresolved forward)")
            else:
                ctx.ok(rule, short(fi.qualname), inst, sample={"call": ast.unparse(call)[:140]} if n % 8 == 1 else None)
    if min_sites:
        ctx.require(n >= min_sites, f"{rule}: only {n} transforms-relevant call sites recognised (hand-confirmed minimum {min_sites})")
    return n


def _local_tf(fi: FuncInfo, e: ast.expr) -> bool:
    """A local name whose every definition in the function is a transforms-valued expression."""
    if not isinstance(e, ast.Name):
        return False
    defs = []
    for n in walk_own(fi.node):
        if isinstance(n, ast.Assign) and any(isinstance(t, ast.Name) and t.id == e.id for t in n.targets):
            defs.append(n.value)
        elif isinstance(n, ast.AnnAssign) and isinstance(n.target, ast.Name) and n.target.id == e.id and n.value is not None:
            defs.append(n.value)
    return bool(defs) and all(_is_transforms_expr(d) or _tf_like(d) for d in defs)


def _tf_like(e: ast.expr) -> bool:
    # a locally built TransformDict(...) or a name ending in transforms
    if isinstance(e, ast.Call):
        return "TransformDict" in ast.unparse(e.func)
    if isinstance(e, ast.Name):
        return e.id.endswith("transforms")
    if isinstance(e, ast.IfExp):
        return _tf_like(e.body) or _is_transforms_expr(e.body)
    return False


def _ordinal(fi: FuncInfo, call: ast.Call) -> int:
    """Ordinal of the call among calls with the same callee text in the function (line-free key)."""
    txt = ast.unparse(call.func)
    k = 0
    for c in calls_in(fi.node):
        if ast.unparse(c.func) == txt:
            if c is call:
                return k
            k += 1
    return k
