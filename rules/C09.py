"""C09 – heading comparisons use the true minimal yaw difference."""
from sa.report import Ctx
from rules import frames as FR
from rules import generic as G

EXPLANATION = (
    "Decides: (1) R-SIGNEDYAW – both branches of DynamicObject.get_heading_bev derive the heading from the signed yaw "
    "(yaw_pitch_roll[0]) of the ego-frame orientation, `-yaw - pi/2`, never from Quaternion.radians/.angle (unsigned magnitude, depends on "
    "the q / -q convention); package-wide no such magnitude is used without the quaternion's axis; (2) R-ANGLEWRAP – every angle "
    "normalisation (get_heading_bev's two np.where wraps, get_heading_error._clip) shifts by exactly +-2*pi under `angle < -pi` / "
    "`angle > pi` and leaves the angle unchanged otherwise; (3) the APH weight is min(1, max(0, 1 - d/pi)) with d = |h_est - h_gt|, folded "
    "by 2*pi - d exactly when d > pi (allowed because d is an abs), both headings from the same accessor with the same transforms "
    "argument (symmetric in the two objects); (4) get_heading_error returns (roll, pitch, yaw) differences `other - self`, each through the "
    "same wrap helper; the frame dispatch of get_heading_bev (ego / transformed / raise). Does not decide: values for concrete angles, "
    "roll/pitch coupling inside pyquaternion."
)


def run(ctx: Ctx) -> None:
    ctx.run(FR.rule_accessors)
    ctx.run(FR.rule_heading_error)
    ctx.run(FR.rule_aph_weight)
    ctx.run(FR.rule_signed_yaw, G.full_scope(ctx))
