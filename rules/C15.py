"""C15 – configurations are validated; thresholds normalised to one value per label."""
from __future__ import annotations

import ast
import re
from itertools import product
from typing import Dict, List, Optional, Set, Tuple

from sa.paths import Path, U, strip_v
from sa.report import Ctx
from sa.tables import enum_members
from rules.common import S, enum_paths, fact_where, find_calls

EXPLANATION = (
    "Decides: (1) the range-kind decision table of PerceptionEvaluationConfig._extract_params over the presence of the four bounds and "
    "2D/3D (exhaustive over completions): x/y accepted iff both given and not both distances, distances accepted iff both given and not "
    "both x/y, both kinds complete -> RuntimeError (documented error case 2), nothing complete -> accepted only for 2D tasks; the same "
    "`no complete kind on a 3D task -> raise` for the per-frame CriticalObjectFilterConfig; (2) mandatory parameters – label_prefix is "
    "read with [...] and a DETECTION task without min_point_numbers raises; (3) every per-label filter list of an accepted configuration "
    "is None or the result of the normaliser (set_thresholds(value, len(target_labels), False); check_thresholds(., len(target_labels)) in "
    "the frame configs; set_thresholds(., n, True) or [] for metric thresholds) – no hand-rolled broadcast; (4) the complete path tables "
    "of the normaliser (scalars and singletons broadcast by `* n`; empty list, mixed element types, wrong length -> ThresholdError; a list "
    "of the right shape returned unchanged) and of set_thresholds (normalise, then check); (5) the supported-task gate (_check_tasks "
    "raises unless the task string is in _support_tasks, every supported string is the value of an EvaluationTask member, the task is "
    "parsed after the gate; exactly one frame id for 3D tasks); (6) MetricsScoreConfig: every K(**cfg) is dominated by "
    "_check_parameters(K', cfg) with a K' whose parameter set equals K's, and _check_parameters raises on a key outside the signature. "
    "KNOWN FINDING (open): unknown keys of evaluation_config_dict are dropped before they could reach _check_parameters. Does not decide: "
    "idempotence of set_thresholds as a law over all nestings (4 gives its premises)."
)

PEC = "config.perception_evaluation_config.PerceptionEvaluationConfig."
TH = "common.threshold."
LISTS = ["max_x_position_list", "max_y_position_list", "max_distance_list", "min_distance_list"]
SRC = {"max_x_position_list": "max_x_position", "max_y_position_list": "max_y_position", "max_distance_list": "max_distance", "min_distance_list": "min_distance",
       "max_matchable_radii": "max_matchable_radii", "min_point_numbers": "min_point_numbers", "confidence_threshold_list": "confidence_threshold"}
CFG = "evaluation_config_dict.copy()"


def _dict_of(e: ast.expr) -> Optional[Dict[str, ast.expr]]:
    if isinstance(e, ast.Dict) and all(isinstance(k, ast.Constant) for k in e.keys):
        return {k.value: v for k, v in zip(e.keys, e.values)}
    return None


def rule_range_kinds(ctx: Ctx) -> None:
    fi = ctx.func(PEC + "_extract_params")
    paths = enum_paths(ctx, fi)
    ctx.require(len(paths) >= 20, f"_extract_params: only {len(paths)} paths")
    n_rows = 0
    seen_kinds = set()
    norm_checked: Set[Tuple[str, str]] = set()
    for p in paths:
        f = {S(k): v for k, v in p.facts.items()}

        def nn(key):
            return f.get(f"none:{CFG}.get('{key}')")

        atoms = {"x": nn("max_x_position"), "y": nn("max_y_position"), "D": nn("max_distance"), "d": nn("min_distance"), "two_d": f.get("call:self.evaluation_task.is_2d()")}
        det = f.get("eq:self.evaluation_task==EvaluationTask.DETECTION")
        mp_none = nn("min_point_numbers")
        if p.exit and p.exit[0] == "raise":
            kind = "raise-minpts" if (det is True and mp_none is True) else "raise-range"
            ctx.check(p.exit[1] == "RuntimeError" or kind != "raise-range", "C15-range-kinds", "_extract_params", "error-type", f"an invalid range specification raises {p.exit[1]} (documented: RuntimeError)", fi=fi)
        else:
            rv = p.retval
            ctx.require(isinstance(rv, ast.Tuple) and len(rv.elts) == 2, "_extract_params: does not return (f_params, m_params)")
            d = _dict_of(rv.elts[0])
            ctx.require(d is not None, "_extract_params: f_params is not a dict literal")
            vals = {k: S(d[k]) if k in d else "MISSING" for k in LISTS}
            isset = {k: vals[k] != "None" for k in LISTS}
            if isset["max_x_position_list"] and isset["max_y_position_list"] and not isset["max_distance_list"] and not isset["min_distance_list"]:
                kind = "xy"
            elif isset["max_distance_list"] and isset["min_distance_list"] and not isset["max_x_position_list"] and not isset["max_y_position_list"]:
                kind = "dist"
            elif not any(isset.values()):
                kind = "none"
            else:
                kind = "mixed:" + ",".join(k for k in LISTS if isset[k])
            # clause 3: every per-label list comes from the normaliser
            for k, srckey in SRC.items():
                v = S(d[k]) if k in d else "MISSING"
                given = nn(srckey)
                if k in ("max_matchable_radii", "min_point_numbers", "confidence_threshold_list") and given is not None:
                    is_none_val = v == "None" or v == f"{CFG}.get('{srckey}')" and given is True
                    if (k, "iff", given) not in norm_checked:
                        norm_checked.add((k, "iff", given))
                        ctx.check(is_none_val == bool(given), "C15-normalised", "_extract_params", f"{k}:none-iff-absent:{int(bool(given))}",
                                  f"`{srckey}` {'absent' if given else 'given'} but the exposed `{k}` is `{v[:80]}`; the list is None exactly when the parameter is absent, otherwise normalised", fi=fi)
                if v == "None" or (v == f"{CFG}.get('{srckey}')" and nn(srckey) is True):
                    continue
                want = f"set_thresholds({CFG}.get('{srckey}'),len(set_target_lists({CFG}.get('target_labels'),self.label_converter)),False)"
                if (k, v) in norm_checked:
                    continue
                norm_checked.add((k, v))
                ctx.check(v == want, "C15-normalised", "_extract_params", k,
                          f"filter list `{k}` is `{v[:140]}`; an accepted configuration must expose the value normalised by set_thresholds(value, len(target_labels), False) – one entry per target label, malformed input rejected",
                          fi=fi, expected=want, found=v[:200], sample={"list": k, "source": "set_thresholds"})
        seen_kinds.add(kind)
        if kind == "raise-minpts":
            continue
        # spec over all completions of the atoms this path did not look at
        free = [k for k, v in atoms.items() if v is None]
        for bits in product([False, True], repeat=len(free)):
            a = dict(atoms)
            a.update(dict(zip(free, bits)))
            cxy = (not a["x"]) and (not a["y"])
            cd = (not a["D"]) and (not a["d"])
            partial_other = (cxy and not cd and (not a["D"] or not a["d"])) or (cd and not cxy and (not a["x"] or not a["y"]))
            if cxy and cd:
                want = "raise-range"
            elif cxy:
                want = "xy"
            elif cd:
                want = "dist"
            elif a["two_d"]:
                want = "none"
            else:
                want = "raise-range"
            n_rows += 1
            inst = f"x={int(not a['x'])},y={int(not a['y'])},maxd={int(not a['D'])},mind={int(not a['d'])},2d={int(bool(a['two_d']))}"
            if kind == want:
                ctx.ok("C15-range-kinds", "_extract_params", inst, sample={"given": inst, "outcome": kind} if n_rows % 17 == 1 else None)
            elif partial_other and kind in ("xy", "dist", "raise-range"):
                ctx.info(f"C15: range row [{inst}] (one kind complete, the other partially given) -> {kind}; the documentation does not cover it")
            else:
                ctx.violate("C15-range-kinds", "_extract_params", inst,
                            f"with bounds given as [{inst}] the configuration is {'accepted as ' + kind if not kind.startswith('raise') else 'rejected'}; the documented behaviour is {want} "
                            f"(exactly one kind of range bound for 3D tasks; both kinds -> RuntimeError)", fi=fi, expected=want, found=kind)
    ctx.table_rows += n_rows
    ctx.require({"xy", "dist", "none", "raise-range"} <= seen_kinds, f"_extract_params: outcome kinds {sorted(seen_kinds)}")
    # mandatory: DETECTION without min_point_numbers
    ctx.check("raise-minpts" in seen_kinds, "C15-mandatory", "_extract_params", "detection-needs-min-points",
              "a DETECTION configuration without min_point_numbers is not rejected", fi=fi, expected="RuntimeError", found="accepted")
    # target_labels stored and used for the lengths
    for p in paths[-1:]:
        st = {strip_v(e.recv): S(e.value) for e in p.effects if e.kind == "store"}
        ctx.check(st.get("self.target_labels") == f"set_target_lists({CFG}.get('target_labels'),self.label_converter)", "C15-normalised", "_extract_params", "target_labels",
                  f"self.target_labels = `{st.get('self.target_labels')}`", fi=fi)
    # label prefix is mandatory (subscript read)
    fl = ctx.func(PEC + "_extract_label_params")
    ok = False
    for p in enum_paths(ctx, fl):
        d = _dict_of(p.retval) if p.retval is not None else None
        if d is not None and "label_prefix" in d:
            ok = S(d["label_prefix"]).endswith("['label_prefix']")
            ctx.check(ok, "C15-mandatory", "_extract_label_params", f"label_prefix:{len(p.conds)}", f"label_prefix is read as `{S(d['label_prefix'])}`; a missing mandatory parameter must raise (subscript access, no default)", fi=fl)
    ctx.require(ok or any(f.rule == "C15-mandatory" for f in ctx.findings), "_extract_label_params: label_prefix entry not found")


def rule_frame_configs(ctx: Ctx) -> None:
    fq = "evaluation.result.perception_frame_config."
    fi = ctx.func(fq + "CriticalObjectFilterConfig.__init__")
    paths = enum_paths(ctx, fi)
    kinds = set()
    for p in paths:
        f = {S(k): v for k, v in p.facts.items()}
        tx, ty, tD, td = (f.get(f"truthy:{k}") for k in LISTS)
        two_d = f.get("call:evaluator_config.evaluation_task.is_2d()")
        if p.exit and p.exit[0] == "raise":
            kinds.add("raise")
            # nothing complete and 3D
            ctx.check(two_d is False and not (tx and ty) and not (tD and td), "C15-frame-config", "CriticalObjectFilterConfig.__init__", "raise-only-when-incomplete",
                      f"raises on [{p.cond_text()[:100]}]", fi=fi)
            continue
        st = {strip_v(e.recv): S(e.value) for e in p.effects if e.kind == "store"}
        n = "len(self.target_labels)"
        ctx.check(st.get("self.target_labels") == "set_target_lists(target_labels,evaluator_config.label_converter)", "C15-frame-config", "CriticalObjectFilterConfig.__init__", f"target_labels:{len(p.conds)}",
                  f"self.target_labels = `{st.get('self.target_labels')}`", fi=fi)
        xy = bool(tx and ty)
        dd = bool(tD and td)
        if not xy and not dd:
            kinds.add("none")
            ctx.check(two_d is True, "C15-frame-config", "CriticalObjectFilterConfig.__init__", "3d-needs-a-range", "a 3D critical filter without a complete range kind is accepted", fi=fi,
                      expected="RuntimeError", found="accepted")
        else:
            kinds.add("xy" if xy else "dist")
        for k in LISTS + ["min_point_numbers", "confidence_threshold_list"]:
            v = st.get(f"self.{k}")
            ctx.require(v is not None, f"CriticalObjectFilterConfig.__init__: self.{k} not assigned on a path")
            isn = next((vv for kk, vv in p.facts.items() if S(kk) == f"none:{k}"), None)
            if isn is not None:
                ctx.check((v == "None") == bool(isn), "C15-normalised", "CriticalObjectFilterConfig.__init__", f"{k}:none-iff-absent:{int(bool(isn))}",
                          f"`{k}` {'not given' if isn else 'given'} but self.{k} = `{v[:60]}`; the list is None exactly when it was not given, otherwise validated", fi=fi)
            if v == "None":
                continue
            ctx.check(v == f"check_thresholds({k},{n})", "C15-normalised", "CriticalObjectFilterConfig.__init__", k,
                      f"self.{k} = `{v[:100]}`; a per-label list must pass check_thresholds(list, len(target_labels))", fi=fi, expected=f"check_thresholds({k},{n})", found=v[:140])
        # the parameter dict exposes the validated lists
        d = st.get("self.filtering_params", "")
        for k in LISTS + ["min_point_numbers", "confidence_threshold_list", "target_labels", "ignore_attributes", "target_uuids"]:
            ctx.check(f"'{k}':self.{k}" in d, "C15-frame-config", "CriticalObjectFilterConfig.__init__", f"params:{k}", f"filtering_params does not map '{k}' to the validated self.{k}", fi=fi)
    ctx.require({"raise", "xy", "dist", "none"} <= kinds, f"CriticalObjectFilterConfig.__init__: outcome kinds {sorted(kinds)}")
    fp = ctx.func(fq + "PerceptionPassFailConfig.__init__")
    for p in enum_paths(ctx, fp):
        st = {strip_v(e.recv): S(e.value) for e in p.effects if e.kind == "store"}
        n = "len(self.target_labels)"
        ctx.check(st.get("self.target_labels") == "set_target_lists(target_labels,evaluator_config.label_converter)", "C15-frame-config", "PerceptionPassFailConfig.__init__", f"target_labels:{len(p.conds)}",
                  f"self.target_labels = `{st.get('self.target_labels')}`", fi=fp)
        for k in ("matching_threshold_list", "confidence_threshold_list"):
            v = st.get(f"self.{k}")
            isn = next((vv for kk, vv in p.facts.items() if S(kk) == f"none:{k}"), None)
            ctx.require(isn is not None, f"PerceptionPassFailConfig.__init__: the `{k} is None` test was not recognised")
            ctx.check(v is not None and (v == "None") == bool(isn), "C15-normalised", "PerceptionPassFailConfig.__init__", f"{k}:none-iff-absent:{int(bool(isn))}",
                      f"`{k}` {'not given' if isn else 'given'} but self.{k} = `{str(v)[:60]}`; the list is None exactly when it was not given, otherwise validated", fi=fp)
            if v in (None, "None"):
                continue
            ctx.check(v == f"check_thresholds({k},{n})", "C15-normalised", "PerceptionPassFailConfig.__init__", k, f"self.{k} = `{v[:100]}`; expected check_thresholds({k}, len(target_labels))", fi=fp)
    # metric thresholds
    fm = ctx.func("evaluation.metrics.config._metrics_config_base._MetricsConfigBase.__init__")
    seen = set()
    for p in enum_paths(ctx, fm):
        st = {strip_v(e.recv): S(e.value) for e in p.effects if e.kind == "store"}
        for k in ("center_distance_thresholds", "plane_distance_thresholds", "iou_2d_thresholds", "iou_3d_thresholds"):
            v = st.get(f"self.{k}")
            ctx.require(v is not None, f"_MetricsConfigBase.__init__: self.{k} not assigned")
            given = next((vv for kk, vv in p.facts.items() if S(kk) == f"truthy:{k}"), None)
            ctx.require(given is not None, f"_MetricsConfigBase.__init__: the `{k}` presence test was not recognised")
            if (k, v, given) not in seen:
                ctx.check((v == "[]") == (not given), "C15-normalised", "_MetricsConfigBase.__init__", f"{k}:empty-iff-absent:{int(bool(given))}",
                          f"`{k}` {'given' if given else 'absent / empty'} but self.{k} = `{v[:60]}`; thresholds are normalised exactly when given", fi=fm)
                seen.add((k, v, given))
            if (k, v) in seen:
                continue
            seen.add((k, v))
            forms = {f"set_thresholds({k},len(target_labels),True)", f"set_thresholds({k},len(target_labels),nest=True)", f"set_thresholds({k},target_objects_num=len(target_labels),nest=True)",
                     f"set_thresholds(thresholds={k},target_objects_num=len(target_labels),nest=True)"}  # the same three arguments, positional or by keyword
            ctx.check(v == "[]" or v in forms, "C15-normalised", "_MetricsConfigBase.__init__", f"{k}:{'empty' if v == '[]' else 'set'}",
                      f"self.{k} = `{v[:100]}`; metric thresholds must be set_thresholds(value, len(target_labels), True) (or [] when absent)", fi=fm)


def rule_score_config(ctx: Ctx) -> None:
    """MetricsScoreConfig: which metric configurations a task gets - detection for detection tasks, tracking + detection for tracking tasks, classification for
    classification; each after _check_parameters(<that config class>, cfg) (unknown metric parameters are rejected BEFORE the config is built)."""
    fi = ctx.func("evaluation.metrics.metrics_score_config.MetricsScoreConfig.__init__")
    T = "self.evaluation_task"
    WANT = {"det": ({"detection_config": "DetectionMetricsConfig"}, "DetectionMetricsConfig"), "trk": ({"tracking_config": "TrackingMetricsConfig", "detection_config": "DetectionMetricsConfig"}, "TrackingMetricsConfig"),
            "cls": ({"classification_config": "ClassificationMetricsConfig"}, "ClassificationMetricsConfig")}
    rows = set()
    for p in enum_paths(ctx, fi):
        f = {S(k): v for k, v in p.facts.items()}

        true_members = [k.split("EvaluationTask.")[1] for k, v in f.items() if k.startswith(f"eq:{T}==EvaluationTask.") and v]
        ctx.require(any(k.startswith(f"eq:{T}==EvaluationTask.") for k in f) and len(true_members) <= 1, "MetricsScoreConfig.__init__: task dispatch not recognised")
        member = true_members[0] if true_members else None
        kind = {"DETECTION2D": "det", "DETECTION": "det", "TRACKING2D": "trk", "TRACKING": "trk", "PREDICTION": "prd", "CLASSIFICATION2D": "cls"}.get(member, "other")
        if member is not None and kind == "other":
            kind = f"other:{member}"
        rows.add(kind)
        st = {strip_v(e.recv): S(e.value) for e in p.effects if e.kind == "store"}
        chk = [S(e.args[0]) for e in p.effects if e.kind == "call" and e.name == "_check_parameters" and e.args]
        if kind == "prd":
            ctx.check(bool(p.exit) and p.exit[0] == "raise", "C15-score-config", "MetricsScoreConfig.__init__", "prediction", "the prediction task does not raise NotImplementedError", fi=fi)
            continue
        if kind.startswith("other"):
            built = [a for a in ("detection_config", "tracking_config", "classification_config") if st.get(f"self.{a}", "None") != "None"]
            ctx.check(not built, "C15-score-config", "MetricsScoreConfig.__init__", kind, f"for task {member or '(none of the scored tasks)'} the configs {built} are built", fi=fi)
            continue
        want, cls_checked = WANT[kind]
        for attr in ("detection_config", "tracking_config", "classification_config"):
            v = st.get(f"self.{attr}")
            w = f"{want[attr]}(**cfg)" if attr in want else "None"
            ctx.check(v == w, "C15-score-config", "MetricsScoreConfig.__init__", f"{member}:{attr}", f"for task {member} self.{attr} = `{v}`; expected `{w}`", fi=fi, expected=w, found=str(v))
        ctx.check(chk == [cls_checked], "C15-score-config", "MetricsScoreConfig.__init__", f"{member}:checked", f"for task {member} the metric parameters are checked against {chk}; expected [{cls_checked}] (unknown parameters rejected)", fi=fi)
        # the check precedes the construction
        order = [(e.kind, e.name, S(strip_v(e.recv)) if e.recv else "") for e in p.effects if (e.kind == "call" and e.name == "_check_parameters") or (e.kind == "store" and S(e.value).endswith("MetricsConfig(**cfg)"))]
        ctx.check(bool(order) and order[0][1] == "_check_parameters", "C15-score-config", "MetricsScoreConfig.__init__", f"{member}:check-first", "a metric configuration is built before the parameters are checked", fi=fi)
    ctx.require({"det", "trk", "prd", "cls"} <= rows, f"MetricsScoreConfig.__init__: rows {sorted(rows)}")


# expected path tables of the normaliser: {frozenset(decisions)} -> outcome
def _table(ctx: Ctx, fq: str) -> Dict[str, str]:
    fi = ctx.func(fq)
    out = {}
    for p in enum_paths(ctx, fi):
        key = " & ".join(("" if v else "!") + S(k) for k, v in p.conds)
        out[key] = ("raise " + p.exit[1]) if p.exit and p.exit[0] == "raise" else "return " + S(p.retval)
    return out


NORMALISER_SPEC = {
    "__get_thresholds": {
        "isinstance:threshold,Real": "return [threshold]*num_elements",
        "!isinstance:threshold,Real & !truthy:threshold": "raise ThresholdError",
        "!isinstance:threshold,Real & truthy:threshold & call:any([notisinstance(t,Real)fortinthreshold])": "raise ThresholdError",
        "!isinstance:threshold,Real & truthy:threshold & !call:any([notisinstance(t,Real)fortinthreshold]) & !eq:len(threshold)==1 & !same:len(threshold)==num_elements": "raise ThresholdError",
        "!isinstance:threshold,Real & truthy:threshold & !call:any([notisinstance(t,Real)fortinthreshold]) & eq:len(threshold)==1": "return threshold*num_elements",
        "!isinstance:threshold,Real & truthy:threshold & !call:any([notisinstance(t,Real)fortinthreshold]) & !eq:len(threshold)==1 & same:len(threshold)==num_elements": "return threshold",
    },
    "check_thresholds": {
        "call:any([notisinstance(t,Real)fortinthresholds])": "raise ThresholdError",
        "!call:any([notisinstance(t,Real)fortinthresholds]) & !same:len(thresholds)==num_elements": "raise ThresholdError",
        "!call:any([notisinstance(t,Real)fortinthresholds]) & same:len(thresholds)==num_elements": "return thresholds",
    },
    "check_nested_thresholds": {
        "call:any([notisinstance(t,list)fortinthresholds])": "raise ThresholdError",
        "!call:any([notisinstance(t,list)fortinthresholds]) & call:any([len(t)==0orlen(t)!=num_elementsfortinthresholds])": "raise ThresholdError",
        "!call:any([notisinstance(t,list)fortinthresholds]) & !call:any([len(t)==0orlen(t)!=num_elementsfortinthresholds])": "return thresholds",
    },
}


def rule_normaliser(ctx: Ctx) -> None:
    for name, spec in NORMALISER_SPEC.items():
        got = _table(ctx, TH + name)
        fi = ctx.func(TH + name)
        ctx.table_rows += len(got)
        # semantic comparison: same set of decision rows -> same outcome
        unknown = [k for k in got if k not in spec]
        if unknown:
            # decide whether the unknown rows are a *weakening* (a rejected shape is now returned) that we can name
            rej = [k for k, v in spec.items() if v.startswith("raise")]
            weakened = [k for k in rej if k not in got]
            padded = [k for k, v in got.items() if v.startswith("return") and k not in spec]
            if weakened and padded:
                ctx.violate("C15-normaliser", name, "rejection-dropped",
                            f"{name}: the malformed shape [{weakened[0][:120]}] is no longer rejected with ThresholdError; instead the path [{padded[0][:120]}] returns `{got[padded[0]][7:][:80]}` (padding / truncating instead of rejecting)",
                            fi=fi, expected="raise ThresholdError", found=got[padded[0]][:120])
                continue
            ctx.require(False, f"{name}: path table changed in a way the rule does not understand: {unknown[0][:160]} -> {got[unknown[0]][:60]}")
        for k, want in spec.items():
            ctx.require(k in got, f"{name}: expected decision row [{k[:120]}] not found")
            ctx.check(got[k] == want, "C15-normaliser", name, k[-90:],
                      f"{name} on [{k[:140]}]: {got[k][:100]}; the normaliser must {want}", fi=fi, expected=want, found=got[k][:140], sample={"row": k[-90:], "outcome": want})
    # nested normaliser: row-wise facts (broadcast scalars / singletons, reject mixed shapes)
    name = "__get_nested_thresholds"
    fi = ctx.func(TH + name)
    paths = enum_paths(ctx, fi)
    rows = {"scalar": 0, "empty": 0, "flat-mixed": 0, "flat": 0, "nested-mixed": 0, "nested-len": 0, "nested": 0}
    for p in paths:
        f = {S(k): v for k, v in p.conds}  # the ordered decision history (facts about `t` are forgotten after the row loop)
        rv = S(p.retval) if p.retval is not None else ""
        raised = bool(p.exit and p.exit[0] == "raise")
        if f.get("isinstance:threshold,Real"):
            rows["scalar"] += 1
            ctx.check(rv == "[[threshold]*num_elements]", "C15-normaliser", name, "scalar", f"a scalar becomes `{rv}`; expected [[threshold] * num_elements]", fi=fi)
        elif f.get("truthy:threshold") is False:
            rows["empty"] += 1
            ctx.check(raised, "C15-normaliser", name, "empty", "an empty list is not rejected", fi=fi)
        elif f.get("isinstance:threshold[0],Real"):
            mixed = f.get("call:any([notisinstance(t,Real)fortinthreshold])")
            if mixed:
                rows["flat-mixed"] += 1
                ctx.check(raised, "C15-normaliser", name, "flat-mixed", "a flat list with non-numeric entries is not rejected", fi=fi)
            elif mixed is None and not raised:
                rows["flat"] += 1
                ctx.violate("C15-normaliser", name, "flat-unchecked", f"a flat list is accepted as `{rv[:100]}` on [{p.cond_text()[:140]}] without checking that every entry is numeric (non-numeric entries must be rejected)", fi=fi)
            else:
                rows["flat"] += 1
                eqn = f.get("same:len(threshold)==num_elements")
                ok = rv == "[[t]*num_elementsfortinthreshold]iflen(threshold)!=num_elementselse[threshold]" or (eqn is True and rv == "[threshold]") or (eqn is False and rv == "[[t]*num_elementsfortinthreshold]")
                ctx.check(ok and not raised, "C15-normaliser", name, f"flat:{len(p.conds)}", f"a flat numeric list becomes `{rv[:120]}`", fi=fi)
        else:
            notlist = f.get("call:any([notisinstance(t,list)fortinthreshold])")
            badlen = f.get("call:any([len(t)!=num_elementsandlen(t)!=1fortinthreshold])")
            if notlist:
                rows["nested-mixed"] += 1
                ctx.check(raised, "C15-normaliser", name, "nested-mixed", "a nested list with non-list entries is not rejected", fi=fi)
            elif badlen:
                rows["nested-len"] += 1
                ctx.check(raised, "C15-normaliser", name, "nested-len", "a nested list with an inner list of the wrong length is not rejected (padding / truncation)", fi=fi)
            elif badlen is False:
                rows["nested"] += 1
                comp_form = re.match(r"^\[(\w+)\*num_elementsiflen\(\1\)==1else\1for\1inthreshold\]$", strip_v(rv)) is not None
                if comp_form:
                    ctx.check(not raised, "C15-normaliser", name, "nested", "a well-formed nested list is rejected", fi=fi)
                    continue
                ctx.check(not raised and strip_v(rv) == "threshold_list", "C15-normaliser", name, "nested", f"a well-formed nested list returns `{rv}`", fi=fi)
                lp = [e for e in p.effects if e.kind == "loop"]
                ctx.require(len(lp) == 1, f"{name}: row loop not found")
                tv = U(lp[0].node.target)
                for bp in lp[0].body:
                    one = next((v for k, v in bp.facts.items() if S(k).startswith(f"eq:len({tv}") and S(k).endswith("==1")), None)
                    ap = [S(a.args[0]) for a in bp.effects if a.kind == "call" and a.name == "append" for _ in [0]]
                    ap = [strip_v(x) for x in ap]
                    if one is None and ap == [f"{tv}*num_elementsiflen({tv})==1else{tv}"]:
                        # both rows in one conditional expression
                        ctx.ok("C15-normaliser", name, "nested-row:singleton")
                        ctx.ok("C15-normaliser", name, "nested-row:full")
                        continue
                    ctx.check(ap == ([f"{tv}*num_elements"] if one else [tv]), "C15-normaliser", name, f"nested-row:{'singleton' if one else 'full'}", f"an inner list of length {'1' if one else 'n'} becomes {ap}", fi=fi)
            else:
                if not raised and (notlist is None or badlen is None):
                    ctx.violate("C15-normaliser", name, "nested-unchecked", f"a nested list is accepted on [{p.cond_text()[:120]}] without checking that every entry is a list of length n or 1", fi=fi)
    missing = [k for k, v in rows.items() if v == 0 and not any(f.construct == name for f in ctx.findings)]
    ctx.require(not missing, f"{name}: rows {missing} not found")
    # set_thresholds: normalise, then check, with the requested nesting
    fs = ctx.func(TH + "set_thresholds")
    for p in enum_paths(ctx, fs):
        nest = p.facts.get("truthy:nest")
        rv = S(p.retval) if p.retval is not None else ""
        want = "check_nested_thresholds(__get_nested_thresholds(thresholds,target_objects_num),target_objects_num)" if nest else "check_thresholds(__get_thresholds(thresholds,target_objects_num),target_objects_num)"
        ctx.check(rv == want, "C15-normaliser", "set_thresholds", f"nest={int(bool(nest))}", f"set_thresholds(nest={nest}) returns `{rv[:140]}`; expected `{want}`", fi=fs, expected=want, found=rv[:160])


def rule_tasks(ctx: Ctx) -> None:
    base = "config._evaluation_config_base._EvaluationConfigBase."
    fi = ctx.func(base + "_check_tasks")
    rows = set()
    for p in enum_paths(ctx, fi):
        inn = fact_where(p, lambda k: S(k) == "in:evaluation_config_dict['evaluation_task']inself.support_tasks")
        if inn is None and not p.conds and p.exit == ("return",):
            ctx.violate("C15-task-gate", "_check_tasks", "unsupported", "the task string is parsed without checking that the manager supports it: any EvaluationTask (or None for an unknown string) passes", fi=fi,
                        expected="raise ValueError unless task in self.support_tasks", found="no membership test")
            rows |= {True, False}
            continue
        ctx.require(inn is not None, f"_check_tasks: membership test in the supported tasks not recognised [{p.cond_text()[:100]}]")
        rows.add(bool(inn))
        if inn:
            ctx.check(p.exit == ("return",) and S(p.retval) == "set_task(evaluation_config_dict['evaluation_task'])", "C15-task-gate", "_check_tasks", "supported", f"a supported task returns `{S(p.retval)[:80]}`", fi=fi)
        else:
            ctx.check(bool(p.exit) and p.exit == ("raise", "ValueError"), "C15-task-gate", "_check_tasks", "unsupported", f"an unsupported task ends in {p.exit}; it must raise ValueError", fi=fi)
    ctx.require(rows == {True, False}, "_check_tasks: both rows expected")
    sp = ctx.func(base + "support_tasks")
    for p in enum_paths(ctx, sp):
        ctx.check(S(p.retval) == "self._support_tasks", "C15-task-gate", "support_tasks", "property", f"support_tasks returns `{S(p.retval)}`", fi=sp)
    values = {v for _, v in enum_members(ctx.index.cls("common.evaluation_task.EvaluationTask"))}
    for cq in ("config.perception_evaluation_config.PerceptionEvaluationConfig", "config.sensing_evaluation_config.SensingEvaluationConfig"):
        ci = ctx.index.cls(cq)
        lst = ci.class_consts.get("_support_tasks")
        ctx.require(isinstance(lst, ast.List), f"{ci.name}._support_tasks is not a list literal")
        for e in lst.elts:
            ctx.require(isinstance(e, ast.Constant), f"{ci.name}._support_tasks has a non-literal entry")
            ctx.check(e.value in values, "C15-task-gate", f"{ci.name}._support_tasks", str(e.value),
                      f"supported task {e.value!r} is not the value of any EvaluationTask member: it passes the gate but set_task() returns None", file=ci.module.relpath, node=e,
                      expected="an EvaluationTask value", found=str(e.value))
    p_tasks = {e.value for e in ctx.index.cls("config.perception_evaluation_config.PerceptionEvaluationConfig").class_consts["_support_tasks"].elts}
    s_tasks = {e.value for e in ctx.index.cls("config.sensing_evaluation_config.SensingEvaluationConfig").class_consts["_support_tasks"].elts}
    ctx.check("sensing" not in p_tasks and s_tasks == {"sensing"}, "C15-task-gate", "_support_tasks", "managers-disjoint",
              f"perception config supports {sorted(p_tasks & {'sensing'})} / sensing config supports {sorted(s_tasks)}; each manager must accept only its own tasks",
              file=ctx.index.cls("config.perception_evaluation_config.PerceptionEvaluationConfig").module.relpath)
    # __init__: gate first, one frame id for 3D
    ini = ctx.func(base + "__init__")
    okf = False
    for p in enum_paths(ctx, ini):
        st = [(strip_v(e.recv), S(e.value)) for e in p.effects if e.kind == "store"]
        ctx.check(bool(st) and st[0] == ("self.evaluation_task", "self._check_tasks(evaluation_config_dict)"), "C15-task-gate", "_EvaluationConfigBase.__init__", f"gate-first:{len(p.conds)}",
                  f"the first thing stored is {st[:1]}; the task must be gated before anything else is derived from the configuration", fi=ini)
        three_d = fact_where(p, lambda k: S(k) == "call:self.evaluation_task.is_3d()")
        one = fact_where(p, lambda k: S(k) == "eq:len(self.frame_ids)==1")
        if three_d and one is False:
            okf = True
            ctx.check(bool(p.exit) and p.exit[0] == "raise", "C15-task-gate", "_EvaluationConfigBase.__init__", "3d-one-frame", "a 3D task with a number of frame ids other than one is accepted", fi=ini)
    ctx.check(okf, "C15-task-gate", "_EvaluationConfigBase.__init__", "3d-one-frame-row", "the `3D task needs exactly one frame id` check was not found", fi=ini)


def rule_metric_params(ctx: Ctx) -> None:
    msc = "evaluation.metrics.metrics_score_config.MetricsScoreConfig."
    fi = ctx.func(msc + "__init__")
    n = 0
    for p in enum_paths(ctx, fi):
        checks = [(i, e) for i, e in enumerate(p.effects) if e.kind == "call" and e.name == "_check_parameters"]
        ctors = [(i, e) for i, e in enumerate(p.effects) if e.kind == "call" and e.name.endswith("MetricsConfig") and "**" in e.kwargs]
        for i, c in ctors:
            n += 1
            K = ctx.index.resolve_name(fi.module.name, c.name)
            before = [e for j, e in checks if j < i]
            ok = False
            why = "no _check_parameters call precedes it"
            for e in before:
                if len(e.args) == 2 and S(e.args[1]) == S(c.kwargs["**"]):
                    Kp = ctx.index.resolve_name(fi.module.name, S(e.args[0]))
                    pk = {a.arg for a in K.find_method("__init__").params()} if hasattr(K, "find_method") else None
                    pkp = {a.arg for a in Kp.find_method("__init__").params()} if hasattr(Kp, "find_method") else None
                    if pk is not None and pkp is not None and pkp <= pk:
                        ok = True
                    else:
                        why = f"it is checked against {S(e.args[0])} whose parameters {sorted(pkp or [])} are not a subset of {c.name}'s {sorted(pk or [])}"
            ctx.check(ok, "C15-metric-params", "MetricsScoreConfig.__init__", f"{c.name}@{len(p.conds)}",
                      f"{c.name}(**cfg) is constructed but {why}: an unknown metric parameter would surface as a TypeError instead of the documented MetricsParameterError, or be accepted", fi=fi, node=c.node,
                      sample={"ctor": c.name, "guarded": ok})
    ctx.require(n >= 4, f"MetricsScoreConfig.__init__: only {n} config constructions found")
    fc = ctx.func(msc + "_check_parameters")
    rows = set()
    for p in enum_paths(ctx, fc):
        sub = fact_where(p, lambda k: S(k) == "cmp:set(params.keys())<=set(signature(config).parameters)")
        if sub is None:
            # the same test as `the set difference is non-empty` (len(a - b) > 0 is the engine's truthiness atom)
            diff = fact_where(p, lambda k: S(k) == "truthy:set(params.keys())-set(signature(config).parameters)")
            sub = None if diff is None else (not diff)
        ctx.require(sub is not None, f"_check_parameters: subset test not recognised [{p.cond_text()[:120]}]")
        rows.add(bool(sub))
        if not sub:
            ctx.check(bool(p.exit) and p.exit[0] == "raise", "C15-metric-params", "_check_parameters", "unknown-key", "a parameter outside the config's signature does not raise", fi=fc)
        else:
            ctx.check(p.exit == ("return",), "C15-metric-params", "_check_parameters", "known-keys", "valid parameters do not pass", fi=fc)
    ctx.require(rows == {True, False}, "_check_parameters: both rows expected")
    # D9c: which keys of evaluation_config_dict can reach the metric parameter check at all?
    fe = ctx.func(PEC + "_extract_params")
    for p in enum_paths(ctx, fe):
        if p.exit != ("return",):
            continue
        d = _dict_of(p.retval.elts[1]) if isinstance(p.retval, ast.Tuple) else None
        ctx.require(d is not None, "_extract_params: m_params is not a dict literal")
        fixed = all(S(v) == f"{CFG}.get('{k}')" or k == "target_labels" for k, v in d.items())
        if fixed:
            ctx.violate("C15-unknown-keys", "PerceptionEvaluationConfig._extract_params", "dropped",
                        "m_params is a fixed literal of five keys read with .get(): any other (unknown / misspelt) key of evaluation_config_dict is silently dropped and never reaches "
                        "MetricsScoreConfig._check_parameters (documented error case 4 expects MetricsParameterError)", fi=fe,
                        expected="unknown keys rejected", found="fixed key list, unknown keys ignored")
        break


def run(ctx: Ctx) -> None:
    ctx.run(rule_score_config)
    from rules import generic as _G
    ctx.run(_G.rule_arity, ("perception_eval.config", "perception_eval.common.threshold", "perception_eval.evaluation.metrics.config", "perception_eval.evaluation.result.perception_frame_config"), "R-ARITY", 20)
    ctx.run(rule_range_kinds)
    ctx.run(rule_frame_configs)
    ctx.run(rule_normaliser)
    ctx.run(rule_tasks)
    ctx.run(rule_metric_params)
