"""C01 – matching is one-to-one and accounts for every estimate."""
from __future__ import annotations

import ast
import re

from sa.effects import Effects
from sa.paths import U, strip_v
from sa.report import Ctx
from rules import matching as M
from rules.common import S, appends, enum_paths, loops_of

EXPLANATION = (
    "Decides: (1) index-space consistency of both greedy loops of get_object_results – on every path through a loop body the estimate "
    "working list is popped exactly once with the row index and the ground-truth working list with the column index of the selected cell, "
    "every table that is still selected from (now or by the next stage) loses exactly that row (axis 0) and that column (axis 1), and the "
    "appended result is built from the two popped objects; (2) the only store into the score table is dominated by est.frame_id == "
    "gt.frame_id and by `radius is None or is_better_than(radius)` with the radius looked up by the ground truth's label, the table starts "
    "as (NaN, False), rows are estimates and columns ground truths; (3) the emptiness / FP-validation decision table (8 rows) including "
    "`no ground truth in FP validation -> []` and no `L[0]` on an empty list - the FP-validation flag of a path is the set of EvaluationTask members the path admits (from is_fp_validation(), `== EvaluationTask.X` or `in (...)` tests) compared with the members is_fp_validation() covers, which must be every FP_VALIDATION* member; (4) neither input list is mutated by get_object_results or "
    "any resolved callee (mutation summaries over the call graph; the pops act on copies); (5) GT-less results are created one per "
    "leftover estimate, in order. Does not decide: that numpy's nanarg*/unravel_index/delete do what their names say; duplicates of "
    "equal objects in the id-based matchers (list.remove with runtime equality)."
)

ORQ = M.ORQ


def _fp_validation_tasks(ctx: Ctx):
    """(all members, members for which is_fp_validation() holds) read from EvaluationTask itself."""
    ci = ctx.index.cls("common.evaluation_task.EvaluationTask")
    members = {t.id for st in ci.node.body if isinstance(st, ast.Assign) for t in st.targets if isinstance(t, ast.Name) and t.id.isupper()}
    fi = ctx.func("common.evaluation_task.EvaluationTask.is_fp_validation")
    fpset = set()
    for n in ast.walk(fi.node):
        if isinstance(n, ast.Compare) and len(n.ops) == 1 and isinstance(n.ops[0], ast.In) and isinstance(n.left, ast.Name) and n.left.id == "self" and isinstance(n.comparators[0], (ast.Tuple, ast.List, ast.Set)):
            fpset = {e.attr for e in n.comparators[0].elts if isinstance(e, ast.Attribute)}
    ctx.require(len(members) >= 4 and fpset and fpset <= members, "EvaluationTask.is_fp_validation: `self in (<members>)` not recognised")
    named = {m for m in members if m.startswith("FP_VALIDATION")}
    ctx.check(fpset == named, "C01-emptiness", "EvaluationTask.is_fp_validation", "covers-every-fp-validation-task",
              f"is_fp_validation() holds for {sorted(fpset)} but the FP-validation tasks of EvaluationTask are {sorted(named)}: for the others unpaired estimates would be kept as GT-less results", fi=fi,
              expected=str(sorted(named)), found=str(sorted(fpset)))
    return members, fpset


def _fp_flag(f, members, fpset):
    """FP-validation flag on a path: True / False when decided, else None; second value: the partial test that left it undecided."""
    v = f.get("call:evaluation_task.is_fp_validation()")
    if v is not None:
        return v, None
    possible = set(members)
    tested = []
    for k, val in f.items():
        m = re.match(r"^(?:eq|same):(?:evaluation_task==EvaluationTask\.(\w+)|EvaluationTask\.(\w+)==evaluation_task)$", k.replace(" ", ""))
        if m:
            x = m.group(1) or m.group(2)
            possible &= ({x} if val else (members - {x}))
            tested.append(k.split(":", 1)[1])
            continue
        m = re.match(r"^in:evaluation_taskin[\(\[\{](.*?),?[\)\]\}]$", k.replace(" ", ""))
        if m:
            xs = {t.split(".")[-1] for t in m.group(1).split(",") if t}
            possible &= (xs if val else (members - xs))
            tested.append(k.split(":", 1)[1])
    if not tested:
        return None, None
    if possible <= fpset:
        return True, None
    if not (possible & fpset):
        return False, None
    return None, f"`{tested[0]}` leaves {sorted(possible & fpset)} among the tasks of this path"


def rule_emptiness(ctx: Ctx) -> None:
    fi = ctx.func(ORQ + "get_object_results")
    paths = enum_paths(ctx, fi)
    rows = 0
    members, fpset = _fp_validation_tasks(ctx)
    for p in paths:
        f = {strip_v(k): v for k, v in p.facts.items()}
        est = f.get("truthy:estimated_objects")
        gt = f.get("truthy:ground_truth_objects")
        fpv, partial = _fp_flag(f, members, fpset)
        # indexing an empty list
        for name, val in (("estimated_objects", est), ("ground_truth_objects", gt)):
            if val is False:
                used = [k for k in f if f"{name}[0]" in k] + [strip_v(e.text) for e in p.effects if e.kind in ("call", "ccall") and f"{name}[0]" in strip_v(e.text)]
                ctx.check(not used, "C01-emptiness", "get_object_results", f"index-empty:{name}",
                          f"on the path where `{name}` is empty the function evaluates `{name}[0]` ({used[:1]}): IndexError", fi=fi,
                          expected="early return", found=str(used[:1]))
        if p.exit and p.exit[0] == "raise":
            continue
        rv = S(p.retval) if p.retval is not None else "None"
        # whatever the path: GT-less results for unpaired estimates exist only outside FP validation
        makes_fp = "_get_fp_object_results(" in rv or any(
            "_get_fp_object_results(" in S(e.value if e.kind == "aug" else (e.args[0] if e.args else None) or ast.Constant(value=0))
            for e in p.effects if (e.kind == "aug" and e.recv == "object_results") or (e.kind == "call" and e.recv == "object_results" and e.name == "extend"))
        if makes_fp and fpv is not False and est is not False:
            ctx.violate("C01-emptiness", "get_object_results", f"gt-less-results:fpv={fpv}" + (":partial-test" if partial else ""),
                        f"on [{p.cond_text()[:120]}] unpaired estimates become GT-less results " + ("in FP-validation mode" if fpv else f"although the task can still be an FP-validation task ({partial}; is_fp_validation() covers {sorted(fpset)})" if partial else "without looking at the FP-validation flag") + "; in FP validation unpaired estimates must be dropped",
                        fi=fi, expected="no GT-less results unless `not evaluation_task.is_fp_validation()`", found=rv[:80])
            continue
        if est is False:
            rows += 1
            ctx.check(rv == "[]", "C01-emptiness", "get_object_results", "no-estimates", f"without estimates the function returns `{rv}` instead of []", fi=fi, sample={"row": "est empty", "returns": rv})
        elif est and gt is False:
            ctx.require(fpv is not None, "get_object_results: the no-ground-truth path does not look at the FP-validation flag")
            rows += 1
            if fpv:
                ctx.check(rv == "[]", "C01-emptiness", "get_object_results", "no-gt:fp-validation",
                          f"FP validation without ground truth returns `{rv[:80]}`; unpaired estimates must be dropped (-> [])", fi=fi, expected="[]", found=rv[:80])
            else:
                ctx.check(rv == "_get_fp_object_results(estimated_objects)", "C01-emptiness", "get_object_results", "no-gt:normal",
                          f"without ground truth the function returns `{rv[:80]}`; every estimate must become a GT-less result", fi=fi,
                          expected="_get_fp_object_results(estimated_objects)", found=rv[:80], sample={"row": "gt empty, not FP validation", "returns": rv})
        elif est and gt and any(e.kind == "loop" for e in p.effects):
            # leftovers appended iff not FP validation
            aug = [e for e in p.effects if e.kind == "aug" and e.recv == "object_results"] + [
                e for e in p.effects if e.kind == "call" and e.recv == "object_results" and e.name == "extend"
            ]
            # the working copy of the estimates: whatever local is bound to estimated_objects.copy() / list(estimated_objects) / estimated_objects[:]
            wc = [e.recv for e in p.effects if e.kind == "assign" and e.value is not None and S(e.value) in ("estimated_objects.copy()", "list(estimated_objects)", "estimated_objects[:]", "copy(estimated_objects)", "copy.copy(estimated_objects)")]
            wc = wc[0] if wc else "estimated_objects_"
            left = next((v for k, v in f.items() if k == f"truthy:{wc}"), None)
            rows += 1
            if fpv is True:
                ctx.check(not aug, "C01-emptiness", "get_object_results", "leftovers:fp-validation", "in FP validation the unpaired estimates are appended as results; they must be dropped", fi=fi)
            elif fpv is False:
                ok = len(aug) == 1 and (aug[0].kind != "aug" or aug[0].name == "Add") and S(aug[0].value if aug[0].kind == "aug" else aug[0].args[0]).startswith(f"_get_fp_object_results({wc}")
                ctx.check(ok, "C01-emptiness", "get_object_results", "leftovers:normal",
                          f"outside FP validation the unpaired estimates must be appended once as GT-less results built from the working list (found {[strip_v(U(a.value)) if a.value is not None else a.text for a in aug]})", fi=fi)
            elif left is False:
                ctx.check(not aug, "C01-emptiness", "get_object_results", "leftovers:none", "GT-less results appended although no estimate is left", fi=fi)
            else:
                ctx.violate("C01-emptiness", "get_object_results", "leftovers:flag-ignored",
                            f"unpaired estimates are {'appended' if aug else 'dropped'} without looking at the FP-validation flag", fi=fi)
            ctx.check(rv == "object_results", "C01-emptiness", "get_object_results", f"returns:{int(bool(fpv))}{int(bool(left))}", f"the matcher returns `{rv}` instead of object_results", fi=fi)
    ctx.table_rows += rows
    ctx.require(rows >= 6, f"get_object_results: only {rows} rows of the emptiness table recognised")


def rule_fp_results(ctx: Ctx) -> None:
    fi = ctx.func(ORQ + "_get_fp_object_results")
    paths = enum_paths(ctx, fi)
    lps = loops_of(paths)
    if not lps:
        # the same map written as a comprehension
        done = False
        for p in paths:
            rv = p.retval
            if isinstance(rv, ast.Name) or rv is None:
                rv = next((e.value for e in reversed(p.effects) if e.kind == "assign" and rv is not None and e.recv == strip_v(S(rv))), p.env.get(strip_v(S(rv))) if rv is not None else None)
            if isinstance(rv, ast.ListComp) and len(rv.generators) == 1 and not rv.generators[0].ifs and S(rv.generators[0].iter) == "estimated_objects" and isinstance(rv.elt, ast.Call) and S(rv.elt.func) == "DynamicObjectWithPerceptionResult":
                v = U(rv.generators[0].target)
                kw = {k.arg: S(k.value) for k in rv.elt.keywords}
                pos = [S(a) for a in rv.elt.args]
                ok = kw.get("estimated_object", pos[0] if pos else None) == v and kw.get("ground_truth_object", pos[1] if len(pos) > 1 else None) == "None"
                ctx.check(ok, "C01-fp-results", "_get_fp_object_results", "map", "not exactly one GT-less result per estimate, unconditionally and in order", fi=fi)
                done = True
        ctx.require(done, "_get_fp_object_results: neither the map loop nor an equivalent comprehension over estimated_objects was recognised")
        return
    ctx.require(len(lps) == 1 and S(lps[0].text) == "estimated_objects", "_get_fp_object_results: map loop over estimated_objects not recognised")
    var = U(lps[0].node.target)
    acc = "object_results"
    for bp in lps[0].body:
        ap = appends(bp)
        acc = ap[0].recv if len(ap) == 1 else acc  # the list that is built, whatever it is called
        ok = len(ap) == 1 and bp.exit == ("fall",) and not bp.conds
        if ok:
            v = ap[0].args[0]
            ok = isinstance(v, ast.Call) and S(v.func) == "DynamicObjectWithPerceptionResult"
            if ok:
                kw = {k.arg: k.value for k in v.keywords}
                e0 = kw.get("estimated_object", v.args[0] if v.args else None)
                g0 = kw.get("ground_truth_object", v.args[1] if len(v.args) > 1 else None)
                ok = e0 is not None and S(e0) == var and g0 is not None and isinstance(g0, ast.Constant) and g0.value is None
        ctx.check(ok, "C01-fp-results", "_get_fp_object_results", "map", "not exactly one GT-less result per estimate, unconditionally and in order", fi=fi)
    for p in paths:
        ctx.check(p.retval is not None and strip_v(S(p.retval)) == acc, "C01-fp-results", "_get_fp_object_results", "returns", "does not return the list it built", fi=fi)


def rule_inputs_untouched(ctx: Ctx) -> None:
    ef = Effects(ctx.index, ctx.resolver)
    ef.solve()
    ctx.extra["effects_assumptions"] = sorted(ef.assumptions)[:10]
    n = 0
    for fn in ("get_object_results", "_get_object_results_with_id", "_get_object_results_for_tlr", "_get_fp_object_results", "_get_score_table"):
        fi = ctx.func(ORQ + fn)
        summ = ef.of(fi)
        for param in ("estimated_objects", "ground_truth_objects"):
            if not any(a.arg == param for a in fi.params()):
                continue
            n += 1
            muts = [m for (p, path), m in summ.mutates.items() if p == param]
            ctx.check(not muts, "C01-inputs-untouched", fn, param,
                      f"{fn} may mutate the caller's `{param}`" + (f" ({muts[0].how} at line {muts[0].line}{' via ' + muts[0].via if muts[0].via else ''}, path '{muts[0].path or '.'}')" if muts else ""),
                      fi=fi, expected="no in-place mutation of the input lists", found=muts[0].how if muts else "")
    ctx.require(n >= 8, "input-mutation summaries: fewer than 8 (function, list) instances")
    # the working copies exist
    for fn in ("get_object_results", "_get_object_results_with_id", "_get_object_results_for_tlr"):
        fi = ctx.func(ORQ + fn)
        src = [S(e.value) for p in enum_paths(ctx, fi) for e in p.effects if e.kind == "assign" and e.value is not None]
        for param in ("estimated_objects", "ground_truth_objects"):
            ctx.check(f"{param}.copy()" in src or f"list({param})" in src, "C01-inputs-untouched", fn, f"copy:{param}",
                      f"{fn} works on `{param}` directly instead of on a copy", fi=fi)


def run(ctx: Ctx) -> None:
    from rules import C11
    ctx.run(C11.rule_dispatch)  # objects that carry geometry are matched geometrically (the id matchers are only for ROI-less 2D objects)
    ctx.run(M.rule_index_space)
    ctx.run(M.rule_score_table)
    ctx.run(rule_emptiness)
    ctx.run(rule_fp_results)
    ctx.run(rule_inputs_untouched)
