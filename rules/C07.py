"""C07 – evaluation results do not depend on the coordinate frame of the objects."""
from sa.report import Ctx
from rules import C10
from rules import frames as FR
from rules import generic as G
from rules import geometry as GE

EXPLANATION = (
    "Decides the frame discipline of the whole evaluation path: (1) R-KW / R-KW-splat – no keyword (in particular `transforms`) is "
    "misspelt into a never-read **kwargs or dropped between a parameter dict and its consumer; (2) R-TF – in every function that has a "
    "transforms value in scope, every call to a transforms-relevant callee (relevance computed per concrete class through the call "
    "graph: filters, matchers, PlaneDistanceMatching, result construction, sensing crop, analysis helpers) binds that value; (3) R-FRAME "
    "– the three frame-dispatching accessors of DynamicObject (+ the 2D one) have the table {ego -> raw value; other frame & transforms -> "
    "value transformed with key (self.frame_id, BASE_LINK); other frame & no transforms -> raise}, the filter predicate compares only "
    "ego-relative x / y / distance (raw position only under frame_id == BASE_LINK), PlaneDistanceMatching ranks ground-truth corners by "
    "their ego distance via the same key; (4) R-SIGNEDYAW – the heading is the signed yaw in both branches; the APH weight may use an "
    "identity transform only because it is a difference of two headings taken with the same transform; (5) the transform registry answers X->Y from the "
    "registered matrix or from the inverse of Y->X computed on demand and a lookup never writes the registry (a cached derived entry would go stale when the ego pose "
    "of a copied / interpolated frame is replaced, making map-frame and ego-frame evaluations disagree). Does not decide: numerical "
    "agreement of two executions, pyquaternion / numpy semantics."
)


def run(ctx: Ctx) -> None:
    from rules import generic as _G
    ctx.run(_G.rule_arity, _G.full_scope(ctx), "R-ARITY", 400)
    scope = G.full_scope(ctx)
    ctx.run(G.rule_kw, scope, "R-KW", 100)
    ctx.run(G.rule_kw_splat, scope, "R-KW-splat", 5)
    ctx.run(G.rule_tf, scope, "R-TF", None, 20)
    ctx.run(FR.rule_accessors)
    ctx.run(FR.rule_signed_yaw, scope)
    ctx.run(FR.rule_aph_weight, "C07-aph-same-transform")
    ctx.run(GE.rule_plane, True)
    ctx.run(C10.rule_predicate)
    from rules import C03, C18
    ctx.run(C03.rule_identity)  # object identity must not depend on coordinate magnitude (no tolerance in DynamicObject.__eq__)
    ctx.run(C18.rule_registry)  # X->Y is answered from the registered matrix or the inverse of Y->X computed on demand; a lookup never stores a derived entry that a later update could leave stale
