"""Helpers shared by the property modules."""
from __future__ import annotations

import ast
from typing import Callable, Dict, Iterable, List, Optional, Tuple

from sa.index import FuncInfo
from sa.paths import Effect, Enumerator, Options, Path, U, strip_v
from sa.report import Ctx
from sa.source import AnalysisError


def S(e) -> str:
    """Canonical, version-free, space-free text."""
    if isinstance(e, ast.AST):
        e = U(e)
    return strip_v(e).replace(" ", "")


_REF_FUNCS = None


def reference_functions() -> set:
    """Qualified names of every function of the reference tree (spec/local_names.json).  A function that is NOT in this set was introduced by an edit -
    typically a helper extracted from the code the rule reads - and is inlined into its callers so that the rule sees the logic where it used to be."""
    global _REF_FUNCS
    if _REF_FUNCS is None:
        import json
        import os

        p = os.path.join(os.path.dirname(os.path.dirname(os.path.abspath(__file__))), "spec", "local_names.json")
        try:
            with open(p, encoding="utf-8") as fh:
                _REF_FUNCS = set(json.load(fh).get("all_functions", []))
        except OSError:
            _REF_FUNCS = set()
    return _REF_FUNCS


def enum_paths(ctx: Ctx, fi: FuncInfo, inline: Iterable[str] = (), inline_new: bool = True, **kw) -> List[Path]:
    names = set(inline)
    ref = reference_functions() if inline_new else set()
    kw.setdefault("max_depth", 4)  # only what the predicate selects is inlined; helpers extracted from helpers need the depth
    en = Enumerator(ctx.index, ctx.resolver, Options(inline=lambda f: f.name in names or f.qualname in names or (bool(ref) and f.qualname not in ref and not f.qualname.endswith(".__init__")), **kw))
    ps = en.function(fi)
    ctx.paths_enumerated += en.count
    return ps


def loops_of(paths: List[Path], iter_text: Optional[str] = None) -> List[Effect]:
    """Top-level loop effects (deduplicated by AST node) of a function's paths."""
    out: List[Effect] = []
    seen = set()
    for p in paths:
        for e in p.effects:
            if e.kind == "loop" and id(e.node) not in seen:
                if iter_text is None or S(e.text) == iter_text or S(e.text).startswith(iter_text):
                    seen.add(id(e.node))
                    out.append(e)
    return out


def appends(p: Path, recv: Optional[str] = None) -> List[Effect]:
    return [e for e in p.effects if e.kind == "call" and e.name == "append" and (recv is None or e.recv == recv)]


def fact_where(p: Path, pred: Callable[[str], bool]) -> Optional[bool]:
    """Value of the first decided atom whose key satisfies ``pred`` (None if undecided)."""
    for k, v in p.facts.items():
        if pred(strip_v(k)):
            return v
    return None


def label_source(e: ast.expr, res: str) -> str:
    """Which label does ``e`` denote for the result variable ``res``?  gt | gt-else-est | est | other."""
    t = S(e)
    gt = f"{res}.ground_truth_object.semantic_label"
    est = f"{res}.estimated_object.semantic_label"
    if t == gt:
        return "gt"
    if t == est:
        return "est"
    if isinstance(e, ast.IfExp):
        test = S(e.test)
        b, o = S(e.body), S(e.orelse)
        if test in (f"{res}.ground_truth_objectisnotNone", f"{res}.ground_truth_object") and b == gt and o == est:
            return "gt-else-est"
        if test in (f"{res}.ground_truth_objectisNone", f"not{res}.ground_truth_object") and b == est and o == gt:
            return "gt-else-est"
    return "other"


def label_ok(ctx, p: Path, e: ast.expr, res: str) -> Tuple[Optional[bool], str]:
    """Path-aware form of label_source: (True / False / None = shape not recognised, description).  The label must be the ground truth's whenever a ground
    truth exists on this path and the estimate's only when none does - whether that is written as one conditional expression or as branches."""
    src = label_source(e, res)
    if src == "gt-else-est":
        return True, src
    gt_none = fact_where(p, lambda k: S(k) == f"none:{res}.ground_truth_object")
    if gt_none is None:
        tr = fact_where(p, lambda k: S(k) == f"truthy:{res}.ground_truth_object")
        gt_none = None if tr is None else (not tr)
    if src == "gt":
        return (gt_none is False), src + ("" if gt_none is False else ":gt-not-known-present")
    if src == "est":
        return (True if gt_none is True else False), src + (":no-gt" if gt_none else ":although-a-gt-may-exist")
    return None, src


def find_calls(p: Path, name: str, deep: bool = False) -> List[Effect]:
    it = p.all_effects() if deep else p.effects
    return [e for e in it if e.kind in ("call", "ccall") and e.name == name]


def arg_of(ctx: Ctx, e: Effect, param: str, pos: int) -> Optional[ast.expr]:
    """Argument bound to ``param`` (keyword) or at position ``pos`` of a recorded call."""
    if param in e.kwargs:
        return e.kwargs[param]
    if pos < len(e.args):
        return e.args[pos]
    return None


def flatten_check(ctx, rule: str, construct: str, fi, p, upto: int, rname: str, param: str = "object_results") -> None:
    """`param` is a flat list of results or a list of per-frame lists; `rname` (the list that is scored) must be the input itself in the flat /
    empty case and a FRESH list to which every frame's list is added once, unconditionally, in the nested case."""
    cdp = {S(c[0]): c[1] for c in p.conds if isinstance(c, tuple)}
    nonempty, first_is_list = cdp.get(f"truthy:{param}"), cdp.get(f"isinstance:{param}[0],list")
    lps_all = [e for i, e in enumerate(p.effects) if i < upto and e.kind == "loop"]
    last_asg = [S(e.value) for i, e in enumerate(p.effects) if i < upto and e.kind == "assign" and e.recv == rname and not S(e.value).startswith("sorted(")]
    if not last_asg and p.env.get(rname) is not None and not lps_all:
        last_asg = [S(p.env.get(rname))]
    if nonempty is not None and (nonempty is False or first_is_list is not None):
        is_nested = bool(nonempty and first_is_list)
        if is_nested:
            okc = len(lps_all) == 1 and S(lps_all[0].text) == param and last_asg[-1:] in (["[]"], ["list()"])
            var = U(lps_all[0].node.target) if lps_all and isinstance(lps_all[0].node.target, ast.Name) else "?"
            okc = okc and all([(x.kind, strip_v(x.recv), x.name, S(x.value)) for x in bp.effects if x.kind in ("aug", "assign", "store")] == [("aug", rname, "Add", var)] and not bp.conds and bp.exit == ("fall",)
                              for bp in lps_all[0].body)
            ctx.check(okc, rule, construct, "collects:nested", f"nested (per-frame) input: the scored list `{rname}` is not a fresh list to which every frame's list is added once, unconditionally", fi=fi,
                      expected="all = []; for frame in object_results: all += frame", found=f"init {last_asg[-1:]}, loops {[S(e.text) for e in lps_all]}")
        else:
            ctx.check(not lps_all and last_asg[-1:] == [param], rule, construct, f"collects:flat:{int(bool(nonempty))}",
                      f"flat (or empty) input: the scored list is `{last_asg[-1:]}` after {len(lps_all)} loop(s); expected the input list itself", fi=fi)
    else:
        ctx.check(False, rule, construct, "collects:dispatch", f"flat / nested input is not told apart by `len({param}) == 0 or not isinstance({param}[0], list)` on [{p.cond_text()[:100]}]", fi=fi)
