"""Helpers shared by the property modules."""
from __future__ import annotations

import ast
from typing import Callable, Dict, Iterable, List, Optional, Tuple

from sa.index import FuncInfo
from sa.paths import Effect, Enumerator, Options, Path, U, strip_v
from sa.report import Ctx
from sa.source import AnalysisError


def S(e) -> str:
    """Canonical, version-free, space-free text."""
    if isinstance(e, ast.AST):
        e = U(e)
    return strip_v(e).replace(" ", "")


def enum_paths(ctx: Ctx, fi: FuncInfo, inline: Iterable[str] = (), **kw) -> List[Path]:
    names = set(inline)
    en = Enumerator(ctx.index, ctx.resolver, Options(inline=lambda f: f.name in names or f.qualname in names, **kw))
    ps = en.function(fi)
    ctx.paths_enumerated += en.count
    return ps


def loops_of(paths: List[Path], iter_text: Optional[str] = None) -> List[Effect]:
    """Top-level loop effects (deduplicated by AST node) of a function's paths."""
    out: List[Effect] = []
    seen = set()
    for p in paths:
        for e in p.effects:
            if e.kind == "loop" and id(e.node) not in seen:
                if iter_text is None or S(e.text) == iter_text or S(e.text).startswith(iter_text):
                    seen.add(id(e.node))
                    out.append(e)
    return out


def appends(p: Path, recv: Optional[str] = None) -> List[Effect]:
    return [e for e in p.effects if e.kind == "call" and e.name == "append" and (recv is None or e.recv == recv)]


def fact_where(p: Path, pred: Callable[[str], bool]) -> Optional[bool]:
    """Value of the first decided atom whose key satisfies ``pred`` (None if undecided)."""
    for k, v in p.facts.items():
        if pred(strip_v(k)):
            return v
    return None


def label_source(e: ast.expr, res: str) -> str:
    """Which label does ``e`` denote for the result variable ``res``?  gt | gt-else-est | est | other."""
    t = S(e)
    gt = f"{res}.ground_truth_object.semantic_label"
    est = f"{res}.estimated_object.semantic_label"
    if t == gt:
        return "gt"
    if t == est:
        return "est"
    if isinstance(e, ast.IfExp):
        test = S(e.test)
        b, o = S(e.body), S(e.orelse)
        if test in (f"{res}.ground_truth_objectisnotNone", f"{res}.ground_truth_object") and b == gt and o == est:
            return "gt-else-est"
        if test in (f"{res}.ground_truth_objectisNone", f"not{res}.ground_truth_object") and b == est and o == gt:
            return "gt-else-est"
    return "other"


def find_calls(p: Path, name: str, deep: bool = False) -> List[Effect]:
    it = p.all_effects() if deep else p.effects
    return [e for e in it if e.kind in ("call", "ccall") and e.name == name]


def arg_of(ctx: Ctx, e: Effect, param: str, pos: int) -> Optional[ast.expr]:
    """Argument bound to ``param`` (keyword) or at position ``pos`` of a recorded call."""
    if param in e.kwargs:
        return e.kwargs[param]
    if pos < len(e.args):
        return e.args[pos]
    return None
