"""C16 – loading a dataset reproduces its annotations as ground-truth frames."""
from __future__ import annotations

import ast
import re
from typing import Dict, List, Optional

from sa.paths import Path, U, strip_v
from sa.report import Ctx
from rules import C20
from rules.common import S, appends, enum_paths, fact_where, loops_of

EXPLANATION = (
    "Decides by def-use provenance (symbolic substitution of every local along every path) which dataset field reaches which field of "
    "the constructed objects: DynamicObject(position <- box.center, orientation <- box.orientation, shape size <- box.wlh, pointcloud_num "
    "<- sample_annotation[num_lidar_pts], uuid <- sample_annotation[instance_token], semantic_label <- label_converter.convert_label("
    "box.name, names of sample_annotation[attribute_tokens]), visibility <- Visibility.from_value(visibility[visibility_token][level]) "
    "(a member, C20), unix_time <- sample[timestamp], frame_id <- the requested frame id); one object per box, unconditionally, in box "
    "order; FrameGroundTruth(unix_time <- sample[timestamp], frame_name <- str(n), transforms <- _get_transforms(lidar sample data)); "
    "ego2map = HomogeneousMatrix(ego_pose[translation], Quaternion(ego_pose[rotation]), src=BASE_LINK, dst=MAP); _get_sample_boxes: "
    "BASE_LINK -> nusc.get_sample_data (sensor frame = ego origin in T4 data), MAP -> nusc.get_boxes, anything else raises; _load_dataset "
    "appends exactly one frame per sample token in table order without filtering and load_all_datasets concatenates datasets in order; "
    "tracking history is requested with the same instance / sample tokens, agent frame iff BASE_LINK, and only for the tracking task. "
    "Does not decide: that the devkit's box transformation is the inverse ego pose (library semantics), pose numerics, datasets as inputs."
)

DU = "common.dataset_utils."
DS = "common.dataset."
ANN = "nusc.get('sample_annotation',object_box.token)"


def _kw(call: ast.Call) -> Dict[str, str]:
    return {k.arg: S(k.value) for k in call.keywords if k.arg}


def rule_object(ctx: Ctx) -> None:
    fi = ctx.func(DU + "_convert_nuscenes_box_to_dynamic_object")
    paths = enum_paths(ctx, fi)
    rows = set()
    for p in paths:
        ctx.require(p.exit == ("return",) and isinstance(p.retval, ast.Call) and S(p.retval.func) == "DynamicObject", f"_convert_nuscenes_box_to_dynamic_object: returns `{S(p.retval)[:60]}`")
        kw = _kw(p.retval)
        trk = fact_where(p, lambda k: S(k) == "eq:evaluation_task==EvaluationTask.TRACKING")
        ctx.require(trk is not None, "_convert_nuscenes_box_to_dynamic_object: no dispatch on the tracking task")
        rows.add(bool(trk))
        want = {
            "unix_time": "unix_time",
            "frame_id": "frame_id",
            "position": "tuple(object_box.center.astype(np.float64).tolist())",
            "orientation": "object_box.orientation",
            "shape": "Shape(shape_type=ShapeType.BOUNDING_BOX,size=tuple(object_box.wlh.astype(np.float64).tolist()))",
            "semantic_label": "semantic_label",
            "pointcloud_num": f"{ANN}['num_lidar_pts']",
            "uuid": "instance_token",
            "visibility": "visibility",
            "velocity": "_get_box_velocity(nusc,object_box.token)",
        }
        for k, w in want.items():
            ctx.check(kw.get(k) == w, "C16-object-fields", "_convert_nuscenes_box_to_dynamic_object", f"{k}:trk={int(bool(trk))}",
                      f"DynamicObject.{k} is fed from `{kw.get(k)}`; the annotation field that belongs there is `{w}`", fi=fi, expected=w, found=str(kw.get(k)), sample={"field": k, "source": w})
        hist = "_get_tracking_data(nusc=nusc,helper=helper,frame_id=frame_id,instance_token=instance_token,sample_token=sample_token,seconds=seconds)"
        for i, k in enumerate(("tracked_positions", "tracked_orientations", "tracked_shapes", "tracked_twists")):
            w = f"{hist}[{i}]" if trk else "None"
            ctx.check(kw.get(k) == w, "C16-object-fields", "_convert_nuscenes_box_to_dynamic_object", f"{k}:trk={int(bool(trk))}",
                      f"DynamicObject.{k} is `{str(kw.get(k))[:120]}`; expected `{w[:120]}` (history of the same instance up to this sample, only for the tracking task)", fi=fi, expected=w[:160], found=str(kw.get(k))[:160])
    ctx.require(rows == {True, False}, "_convert_nuscenes_box_to_dynamic_object: tracking / non-tracking rows expected")
    # tracking history
    ft = ctx.func(DU + "_get_tracking_data")
    seen = set()
    for p in enum_paths(ctx, ft):
        base = fact_where(p, lambda k: S(k) == "eq:frame_id==FrameID.BASE_LINK")
        mp = fact_where(p, lambda k: S(k) == "eq:frame_id==FrameID.MAP")
        if p.exit and p.exit[0] == "raise":
            seen.add("raise")
            ctx.check(base is False and mp is False, "C16-tracking", "_get_tracking_data", "raise", "raises for a supported frame id", fi=ft)
            continue
        seen.add("ego" if base else "map")
        calls = [e for e in p.effects if e.kind == "call" and e.name == "get_past_for_agent"]
        lp = [e for e in p.effects if e.kind == "loop"]
        ctx.require(len(lp) == 1, "_get_tracking_data: record loop not found")
        it = S(lp[0].text)
        memo = re.match(r"^(\w+)\[(.+)\]$", it)
        if memo is not None and memo.group(1) in _module_level_names(ft.module.tree):
            # memoised lookup: the records of THIS (instance, sample, horizon, frame) must be the ones reused -> the key must determine every argument
            key = memo.group(2)
            key_names = {n.id for n in ast.walk(ast.parse(key, mode="eval")) if isinstance(n, ast.Name)}
            need = {"instance_token", "sample_token", "seconds"}
            missing = sorted(need - key_names)
            ctx.check(not missing, "C16-tracking", "_get_tracking_data", "memo-key", f"past records are reused from `{memo.group(1)}[{key[:80]}]`; the key omits {missing}, so the history looked up for one sample is handed to another "
                      "(the history must be the poses the instance had before THIS sample)", fi=ft, expected="key determines instance_token, sample_token, seconds (and the frame)", found=key[:160])
            ctx.check("in_agent_frame" in key_names or "frame_id" in key_names or "True" in key or "False" in key, "C16-tracking", "_get_tracking_data", "memo-key-frame", "the memo key does not determine the frame of the records", fi=ft)
            for e in p.effects:
                if e.kind == "store" and S(e.recv).startswith(memo.group(1) + "["):
                    ctx.check(strip_v(S(e.recv)) == strip_v(it) and S(e.value).startswith("helper.get_past_for_agent("), "C16-tracking", "_get_tracking_data", "memo-store", f"the memo stores `{S(e.value)[:60]}` under `{S(e.recv)[:80]}` but reads `{it[:80]}`", fi=ft)
            if not calls:
                continue
        else:
            ctx.require(len(calls) == 1, "_get_tracking_data: helper.get_past_for_agent not called once")
            itn = lp[0].value
            ctx.check(isinstance(itn, ast.Call) and S(itn.func) == "helper.get_past_for_agent", "C16-tracking", "_get_tracking_data", f"records-iterated:{'ego' if base else 'map'}", f"the history is built from `{it[:100]}`; expected the records returned by helper.get_past_for_agent for this sample", fi=ft)
        ctx.require(len(calls) == 1, "_get_tracking_data: helper.get_past_for_agent not called once")
        kw = {k: S(v) for k, v in calls[0].kwargs.items()}
        want = {"instance_token": "instance_token", "sample_token": "sample_token", "seconds": "seconds", "in_agent_frame": "True" if base else "False", "just_xy": "False"}
        for k, w in want.items():
            okk = kw.get(k) == w
            if k == "in_agent_frame" and kw.get(k) in ("frame_id==FrameID.BASE_LINK", "FrameID.BASE_LINK==frame_id"):
                okk = True  # the flag computed from the frame id: True exactly for BASE_LINK on both rows
            ctx.check(okk, "C16-tracking", "_get_tracking_data", f"{k}:{'ego' if base else 'map'}", f"past records are requested with {k}={kw.get(k)}; expected {w}", fi=ft, expected=w, found=str(kw.get(k)))
        lp = [e for e in p.effects if e.kind == "loop"]
        ctx.require(len(lp) == 1, "_get_tracking_data: record loop not found")
        r = U(lp[0].node.target)
        for bp in lp[0].body:
            ap = {a.recv: S(a.args[0]) for a in appends(bp)}
            w2 = {"past_positions": f"tuple((float(t)fortin{r}['translation']))", "past_orientations": f"Quaternion({r}['rotation'])",
                  "past_shapes": f"Shape(shape_type=ShapeType.BOUNDING_BOX,size=tuple((float(s)forsin{r}['size'])))", "past_velocities": f"nusc.box_velocity({r}['token'])"}
            for k, w in w2.items():
                ctx.check(ap.get(k) == w, "C16-tracking", "_get_tracking_data", f"record:{k}:{'ego' if base else 'map'}", f"{k} receives `{ap.get(k)}`; expected `{w}`", fi=ft)
        ctx.check(S(p.retval) and [strip_v(S(x)) for x in p.retval.elts] == ["past_positions", "past_orientations", "past_shapes", "past_velocities"], "C16-tracking", "_get_tracking_data", f"returns:{'ego' if base else 'map'}", "return order changed", fi=ft)
    ctx.require(seen == {"ego", "map", "raise"}, f"_get_tracking_data: rows {sorted(seen)}")


def _module_level_names(tree: ast.Module) -> set:
    out = set()
    for st in tree.body:
        if isinstance(st, ast.Assign):
            out |= {t.id for t in st.targets if isinstance(t, ast.Name)}
        elif isinstance(st, ast.AnnAssign) and isinstance(st.target, ast.Name):
            out.add(st.target.id)
    return out


def rule_frame(ctx: Ctx) -> None:
    fi = ctx.func(DU + "_sample_to_frame")
    paths = enum_paths(ctx, fi)
    SAMPLE = "nusc.get('sample',sample_token)"
    n = 0
    for p in paths:
        top = fact_where(p, lambda k: S(k) == f"in:'LIDAR_TOP'in{SAMPLE}['data']")
        concat = fact_where(p, lambda k: S(k) == f"in:'LIDAR_CONCAT'in{SAMPLE}['data']")
        if p.exit and p.exit[0] == "raise":
            if not any(e.kind == "loop" for e in p.effects) and p.exit[1] == "ValueError" and top is not None:
                ctx.check(top is False and concat is False, "C16-frame-fields", "_sample_to_frame", "no-lidar:raise", f"raises `lidar data isn't found` although LIDAR_TOP={top}, LIDAR_CONCAT={concat} is present", fi=fi)
            continue
        ctx.require(top is not None, "_sample_to_frame: the lidar channel test was not recognised")
        ctx.check(bool(top) or concat is True, "C16-frame-fields", "_sample_to_frame", f"lidar-channel:{top}:{concat}",
                  f"the frame is built on a path where LIDAR_TOP is absent and LIDAR_CONCAT is {'absent' if concat is False else 'not tested'}", fi=fi)
        chan = "LIDAR_TOP" if top else "LIDAR_CONCAT"
        sd = f"{SAMPLE}['data']['{chan}']"
        rv = p.retval
        ctx.require(isinstance(rv, ast.Call) and S(rv.func).endswith("FrameGroundTruth"), f"_sample_to_frame: returns `{S(rv)[:60]}`")
        kw = _kw(rv)
        n += 1
        want = {"unix_time": f"{SAMPLE}['timestamp']", "frame_name": "frame_name", "transforms": f"_get_transforms(nusc,{sd})"}
        for k, w in want.items():
            ctx.check(kw.get(k) == w, "C16-frame-fields", "_sample_to_frame", f"{k}:{chan}", f"FrameGroundTruth.{k} is `{kw.get(k)}`; expected `{w}`", fi=fi, expected=w, found=str(kw.get(k)), sample={"field": k, "source": w})
        ctx.check(strip_v(kw.get("objects", "")) == "objects_", "C16-frame-fields", "_sample_to_frame", f"objects:{chan}", f"FrameGroundTruth.objects is `{kw.get('objects')}`", fi=fi)
        raw = fact_where(p, lambda k: S(k) == "truthy:load_raw_data")
        ctx.check(kw.get("raw_data") == ("_load_raw_data(nusc,sample_token)" if raw else "None"), "C16-frame-fields", "_sample_to_frame", f"raw_data:{chan}:{int(bool(raw))}", f"raw_data is `{kw.get('raw_data')}`", fi=fi)
        lps = [e for e in p.effects if e.kind == "loop"]
        ctx.require(len(lps) == 1, "_sample_to_frame: box loop not found")
        lp = lps[0]
        ctx.check(S(lp.text) == f"_get_sample_boxes(nusc,{sd},frame_id)", "C16-frame-fields", "_sample_to_frame", f"boxes:{chan}",
                  f"objects are built from `{S(lp.text)[:120]}`; expected the boxes of the lidar sample data in the requested frame", fi=fi)
        b = U(lp.node.target)
        ann = f"nusc.get('sample_annotation',{b}.token)"
        rows = 0
        for bp in lp.body:
            if bp.exit and bp.exit[0] == "raise":
                fpv = fact_where(bp, lambda k: S(k) == "call:evaluation_task.is_fp_validation()")
                ctx.check(fpv is True, "C16-frame-fields", "_sample_to_frame", "raise-only-fp-validation", f"an annotation is rejected on [{bp.cond_text()[:100]}]; only a non-FP label in an FP-validation task may raise", fi=fi)
                continue
            ap = [a for a in appends(bp) if a.recv == "objects_"]
            rows += 1
            ctx.check(len(ap) == 1 and bp.exit == ("fall",), "C16-one-per-annotation", "_sample_to_frame", f"append:{chan}:{len(bp.conds)}",
                      f"a box yields {len(ap)} objects (exit {bp.exit}); every annotation must become exactly one ground-truth object (no filtering at load time)", fi=fi)
            if len(ap) != 1:
                continue
            v = ap[0].args[0]
            ctx.require(isinstance(v, ast.Call) and S(v.func) == "_convert_nuscenes_box_to_dynamic_object", "_sample_to_frame: the appended object is not built by _convert_nuscenes_box_to_dynamic_object")
            kw2 = _kw(v)
            novis = fact_where(bp, lambda k: S(k) == "truthy:nusc.visibility")
            vis = "None" if novis is False else f"Visibility.from_value(nusc.get('visibility',{ann}['visibility_token'])['level'])"
            attrs = f"[nusc.get('attribute',token)['name']fortokenin{ann}['attribute_tokens']]"
            want2 = {"frame_id": "frame_id", "object_box": b, "unix_time": f"{SAMPLE}['timestamp']", "evaluation_task": "evaluation_task",
                     "semantic_label": f"label_converter.convert_label({b}.name,{attrs})", "instance_token": f"{ann}['instance_token']", "sample_token": "sample_token", "visibility": vis}
            for k, w in want2.items():
                ctx.check(kw2.get(k) == w, "C16-object-fields", "_sample_to_frame", f"{k}:{chan}:{int(novis is not False)}",
                          f"the object of a box receives {k}=`{str(kw2.get(k))[:140]}`; the annotation field that belongs there is `{w[:140]}`", fi=fi, expected=w[:200], found=str(kw2.get(k))[:200])
        ctx.require(rows >= 1, "_sample_to_frame: box loop body has no non-raising path")
    ctx.require(n >= 2, "_sample_to_frame: LIDAR_TOP / LIDAR_CONCAT rows expected")
    # visibility parser returns members
    ci = ctx.index.cls("common.schema.Visibility")
    info = C20.analyse_parser(ctx, ci, ctx.func("common.schema.Visibility.from_value"))
    ctx.check(info["returns"] == "member", "C16-object-fields", "Visibility.from_value", "returns-member", f"Visibility.from_value returns `{info['ret_text']}`: loaded objects carry a string instead of the Visibility member", fi=ctx.func("common.schema.Visibility.from_value"))


def rule_boxes_and_pose(ctx: Ctx) -> None:
    fb = ctx.func(DU + "_get_sample_boxes")
    seen = set()
    for p in enum_paths(ctx, fb):
        base = fact_where(p, lambda k: S(k) == "eq:frame_id==FrameID.BASE_LINK")
        mp = fact_where(p, lambda k: S(k) == "eq:frame_id==FrameID.MAP")
        raised = bool(p.exit) and p.exit[0] == "raise"
        if (base or mp) and raised:
            seen.add("ego" if base else "map")
            ctx.violate("C16-boxes", "_get_sample_boxes", f"{'ego' if base else 'map'}:raises", f"requesting boxes in the {'BASE_LINK' if base else 'MAP'} frame raises {p.exit[1]}", fi=fb)
            continue
        if not (base or mp) and not raised:
            seen.add("other")
            ctx.violate("C16-boxes", "_get_sample_boxes", "other:returns", f"for a frame id that is neither BASE_LINK nor MAP the function returns `{S(p.retval)[:60] if p.retval is not None else None}`; it must raise", fi=fb)
            continue
        if base:
            seen.add("ego")
            ctx.check(S(p.retval) == "nusc.get_sample_data(sample_data_token)[1]", "C16-boxes", "_get_sample_boxes", "ego", f"ego-frame boxes are `{S(p.retval)[:80]}`; expected the boxes of nusc.get_sample_data (sensor frame)", fi=fb,
                      expected="nusc.get_sample_data(sample_data_token)[1]", found=S(p.retval)[:120], sample={"frame": "BASE_LINK", "source": "get_sample_data"})
        elif mp:
            seen.add("map")
            ctx.check(S(p.retval) == "nusc.get_boxes(sample_data_token)", "C16-boxes", "_get_sample_boxes", "map", f"map-frame boxes are `{S(p.retval)[:80]}`; expected nusc.get_boxes (global poses)", fi=fb,
                      expected="nusc.get_boxes(sample_data_token)", found=S(p.retval)[:120])
        else:
            seen.add("other")
            ctx.check(bool(p.exit) and p.exit[0] == "raise", "C16-boxes", "_get_sample_boxes", "other", "an unsupported frame id does not raise", fi=fb)
    ctx.require(seen >= {"ego", "map"}, f"_get_sample_boxes: rows {sorted(seen)}")
    ft = ctx.func(DU + "_get_transforms")
    ego = "nusc.get('ego_pose',nusc.get('sample_data',sample_data_token)['ego_pose_token'])"
    want = f"HomogeneousMatrix(np.array({ego}['translation']),Quaternion({ego}['rotation']),src=FrameID.BASE_LINK,dst=FrameID.MAP)"
    for p in enum_paths(ctx, ft)[:2]:
        asg = [S(e.value) for e in p.effects if e.kind == "assign" and e.recv == "matrices"]
        ctx.check(asg[:1] == [f"[{want}]"], "C16-ego-pose", "_get_transforms", f"ego2map:{len(p.conds)}",
                  f"the stored ego pose is `{asg[0][:200] if asg else None}`; expected `{want}` (ego_pose translation / rotation of the lidar sample data, labelled BASE_LINK -> MAP)", fi=ft,
                  expected=want, found=asg[0][:260] if asg else "")
        ctx.check(strip_v(S(p.retval)) == "matrices", "C16-ego-pose", "_get_transforms", f"returns:{len(p.conds)}", "does not return the matrices", fi=ft)


def rule_dataset(ctx: Ctx) -> None:
    fi = ctx.func(DS + "_load_dataset")
    paths = enum_paths(ctx, fi)
    n = 0
    for p in paths:
        if p.exit != ("return",):
            continue
        lps = [e for e in p.effects if e.kind == "loop" and "sample_tokens" in S(e.text) or e.kind == "loop" and "_get_sample_tokens" in S(e.text)]
        ctx.require(len(lps) == 1, "_load_dataset: sample loop not found")
        lp = lps[0]
        it = S(lp.text)
        NUSC = "NuScenes(dataroot=dataset_path,verbose=False,version='annotation')"
        ctx.check(it in (f"enumerate(tqdm(_get_sample_tokens({NUSC}.sample)))", f"enumerate(_get_sample_tokens({NUSC}.sample))", "enumerate(tqdm(_get_sample_tokens(nusc.sample)))"), "C16-one-frame-per-sample", "_load_dataset", f"iterates:{len(p.conds)}",
                  f"frames are built from `{it}`; expected every sample token of nusc.sample in table order", fi=fi, expected="enumerate(tqdm(_get_sample_tokens(nusc.sample)))", found=it)
        nv, tok = [U(x) for x in lp.node.target.elts]
        for bp in lp.body:
            if bp.exit and bp.exit[0] == "raise":
                continue
            ap = [a for a in appends(bp) if a.recv == "dataset"]
            n += 1
            ctx.check(len(ap) == 1 and bp.exit == ("fall",), "C16-one-frame-per-sample", "_load_dataset", f"append:{len(bp.conds)}",
                      f"a sample yields {len(ap)} frames (exit {bp.exit}); exactly one frame per sample, none skipped", fi=fi)
            if len(ap) != 1:
                continue
            v = ap[0].args[0]
            ctx.require(isinstance(v, ast.Call), "_load_dataset: appended frame is not a call")
            kw = _kw(v)
            two_d = fact_where(bp, lambda k: S(k) == "call:evaluation_task.is_2d()")
            fn = "_sample_to_frame_2d" if two_d else "_sample_to_frame"
            ctx.check(S(v.func) == fn and kw.get("sample_token") == tok and kw.get("frame_name") == f"str({nv})" and kw.get("label_converter") == "label_converter" and kw.get("evaluation_task") == "evaluation_task",
                      "C16-one-frame-per-sample", "_load_dataset", f"frame-args:{fn}", f"the frame of sample {tok} is built by `{S(v)[:160]}`", fi=fi)
            if not two_d:
                ctx.check(kw.get("frame_id") == "frame_ids[0]", "C16-one-frame-per-sample", "_load_dataset", "frame-id", f"3D frames are requested in `{kw.get('frame_id')}`", fi=fi)
        ctx.check(strip_v(S(p.retval)) == "dataset", "C16-one-frame-per-sample", "_load_dataset", f"returns:{len(p.conds)}", "does not return the frames", fi=fi)
    ctx.require(n >= 2, "_load_dataset: 2D / 3D rows expected")
    fs = ctx.func(DS + "_get_sample_tokens")
    for p in enum_paths(ctx, fs):
        if p.exit != ("return",):
            continue
        lp = [e for e in p.effects if e.kind == "loop"]
        ok = len(lp) == 1 and S(lp[0].text) == "[s['token']forsinnuscenes_sample]"
        if ok:
            t = U(lp[0].node.target)
            ok = all([(a.recv, S(a.args[0])) for a in appends(bp)] == [("sample_tokens", t)] and not bp.conds for bp in lp[0].body)
        ctx.check(ok or S(p.retval) == "[s['token']forsinnuscenes_sample]", "C16-one-frame-per-sample", "_get_sample_tokens", "identity", "sample tokens are filtered / reordered", fi=fs)
    # ... and an empty sample table is the only reason to refuse
    for p in enum_paths(ctx, fs):
        cd = {S(c[0]): c[1] for c in p.conds if isinstance(c, tuple)}
        empty = next((v for k, v in cd.items() if k in ("cmp:len([s['token']forsinnuscenes_sample])<1", "eq:len([s['token']forsinnuscenes_sample])==0")), None)
        if empty is None:
            tr = next((v for k, v in cd.items() if k == "truthy:[s['token']forsinnuscenes_sample]"), None)
            empty = None if tr is None else (not tr)
        raised = bool(p.exit) and p.exit[0] == "raise"
        ctx.check(empty is not None and raised == empty, "C16-one-frame-per-sample", "_get_sample_tokens", f"refuses-iff-empty:{int(raised)}",
                  f"the function {'raises' if raised else 'returns'} on [{p.cond_text()[:80]}]; it must raise exactly when the sample table is empty", fi=fs)
    fa = ctx.func(DS + "load_all_datasets")
    for p in enum_paths(ctx, fa):
        cd = {S(c[0]): c[1] for c in p.conds if isinstance(c, tuple)}
        one, many = cd.get("isinstance:frame_id,FrameID"), cd.get("isinstance:frame_id,(list,tuple)")
        if p.exit and p.exit[0] == "raise":
            ctx.check(one is False and many is False, "C16-one-frame-per-sample", "load_all_datasets", "frame-id:rejects", f"a frame id that is a FrameID={one} / a sequence={many} is rejected", fi=fa)
            continue
        if p.exit != ("return",):
            continue
        want_ids = "[frame_id]" if one else "list(frame_id)" if many else None
        texts = [S(e.value) for e2 in p.effects if e2.kind == "loop" for bp in e2.body for e in bp.effects if e.kind == "aug" and e.value is not None]
        texts += [S(e.args[0]) for e2 in p.effects if e2.kind == "loop" for bp in e2.body for e in bp.effects if e.kind == "call" and e.name == "extend" and e.args]
        got_ids = {m.group(1) for t in texts for m in [re.search(r"frame_ids=(.*?),load_raw_data=", t)] if m}
        ctx.check(want_ids is not None and got_ids == {want_ids}, "C16-one-frame-per-sample", "load_all_datasets", f"frame-id:{want_ids}", f"the requested frame id reaches the loader as {sorted(got_ids)}; expected {want_ids}", fi=fa)
        lp = [e for e in p.effects if e.kind == "loop"]
        ctx.require(len(lp) == 1 and S(lp[0].text) == "dataset_paths", "load_all_datasets: loop over dataset_paths not found")
        dp = U(lp[0].node.target)
        for bp in lp[0].body:
            aug = [(e.recv, e.name, S(e.value)) for e in bp.effects if e.kind == "aug"] + [(S(e.recv), "Add", S(e.args[0])) for e in bp.effects if e.kind == "call" and e.name == "extend" and e.args]
            want = [("all_datasets", "Add", f"_load_dataset(dataset_path={dp},evaluation_task=evaluation_task,label_converter=label_converter,frame_ids=frame_ids,load_raw_data=load_raw_data)")]
            ok = len(aug) == 1 and aug[0][:2] == want[0][:2] and aug[0][2].startswith(f"_load_dataset(dataset_path={dp},evaluation_task=evaluation_task,label_converter=label_converter,frame_ids=")
            ctx.check(ok, "C16-one-frame-per-sample", "load_all_datasets", f"concat:{len(p.conds)}", f"per dataset the function does {aug}; expected all_datasets += _load_dataset(...)", fi=fa)
        ctx.check(strip_v(S(p.retval)) == "all_datasets", "C16-one-frame-per-sample", "load_all_datasets", f"returns:{len(p.conds)}", "does not return the concatenated frames", fi=fa)


def run(ctx: Ctx) -> None:
    from rules import generic as _G
    ctx.run(_G.rule_arity, ("perception_eval.common.dataset", "perception_eval.common.dataset_utils"), "R-ARITY", 15)
    ctx.run(rule_object)
    ctx.run(rule_frame)
    ctx.run(rule_boxes_and_pose)
    ctx.run(rule_dataset)
    from rules import C14
    ctx.run(C14.rule_converter)  # the label an object carries is the converter's case-normalised lookup of the annotation's category name
