"""C02 – matching prefers label-compatible pairs, then best score."""
from sa.report import Ctx
from rules import matching as M

EXPLANATION = (
    "Decides the code-side premises of the two-stage greedy argument: (1) stage structure of get_object_results – stage 1 selects on "
    "np.where(label-compatibility column, score column, NaN) of the score table, stage 2 on the raw score column of the table as shrunk "
    "by stage 1; both stages select with nanargmax when larger is better else nanargmin, stop on an all-NaN table, and the compatible "
    "stage runs first; the compatibility column is label_policy.is_matchable(est, gt) and the score column the matching value of that "
    "very pair; (2) `maximize` of _get_matching_module agrees with the direction of every MatchingMethod.is_better_than (R-CMPDIR); "
    "(3) the complete 24-row truth table of MatchingLabelPolicy.is_matchable (policy x FP-labelled GT x same label x unknown estimate). "
    "Does not decide: 'no blocking pair' / equality with the documented greedy over all geometries (an induction over runtime arrays "
    "whose premises are the clauses above), numpy's nanarg* semantics, behaviour under score ties."
)


def run(ctx: Ctx) -> None:
    ctx.run(M.rule_stage_structure)
    ctx.run(M.rule_score_table, "C02-score-table")
    ctx.run(M.rule_cmpdir)
    ctx.run(M.rule_label_policy)
    ctx.run(M.rule_index_space, "C02-index-space")
