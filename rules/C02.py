"""C02 – matching prefers label-compatible pairs, then best score."""
import ast

from sa.report import Ctx
from rules import matching as M

EXPLANATION = (
    "Decides the code-side premises of the two-stage greedy argument: (1) stage structure of get_object_results – stage 1 selects on "
    "np.where(label-compatibility column, score column, NaN) of the score table, stage 2 on the raw score column of the table as shrunk "
    "by stage 1; both stages select with nanargmax when larger is better else nanargmin, stop on an all-NaN table, and the compatible "
    "stage runs first; the compatibility column is label_policy.is_matchable(est, gt) and the score column the matching value of that "
    "very pair; (2) `maximize` of _get_matching_module agrees with the direction of every MatchingMethod.is_better_than (R-CMPDIR); "
    "(3) the complete 24-row truth table of MatchingLabelPolicy.is_matchable (policy x FP-labelled GT x same label x unknown estimate). "
    "Does not decide: 'no blocking pair' / equality with the documented greedy over all geometries (an induction over runtime arrays "
    "whose premises are the clauses above), numpy's nanarg* semantics, behaviour under score ties."
)


def rule_policy_config(ctx: Ctx) -> None:
    """Which label policy the matcher is CONFIGURED with: the named policy if given, else ALLOW_UNKNOWN iff allow_matching_unknown (default off), else DEFAULT;
    merging of similar labels is off unless asked for."""
    from rules.common import S, enum_paths
    fi = ctx.func("config.perception_evaluation_config.PerceptionEvaluationConfig._extract_label_params")
    CFG = "evaluation_config_dict.copy()"
    rows = set()
    for p in enum_paths(ctx, fi):
        f = {S(k): v for k, v in p.facts.items()}
        named = next((v for k, v in f.items() if k in (f"call:{CFG}.get('matching_label_policy')", "call:e_cfg.get('matching_label_policy')")), None)
        ctx.require(named is not None and isinstance(p.retval, ast.Dict), "_extract_label_params: decision on matching_label_policy / returned dict not recognised")
        d = {S(k).strip("'"): S(v) for k, v in zip(p.retval.keys, p.retval.values)}
        pol = d.get("matching_label_policy")
        if named:
            rows.add("named")
            ctx.check(pol == f"MatchingLabelPolicy.from_str({CFG}.get('matching_label_policy'))", "C02-policy-config", "_extract_label_params", "named", f"a named policy is configured as `{pol}`", fi=fi)
        else:
            unk = next((v for k, v in f.items() if "allow_matching_unknown" in k), None)
            ctx.require(unk is not None, "_extract_label_params: allow_matching_unknown test not recognised")
            key = next(k for k in f if "allow_matching_unknown" in k)
            ctx.check(key.endswith("get('allow_matching_unknown',False)"), "C02-policy-config", "_extract_label_params", "allow-unknown-default", f"allow_matching_unknown is read as `{key.split(':', 1)[1][-60:]}`; it is off by default", fi=fi)
            rows.add(f"flag={int(bool(unk))}")
            want = "MatchingLabelPolicy.ALLOW_UNKNOWN" if unk else "MatchingLabelPolicy.DEFAULT"
            ctx.check(pol == want, "C02-policy-config", "_extract_label_params", f"allow_unknown={int(bool(unk))}", f"with allow_matching_unknown={bool(unk)} the policy is `{pol}`; expected {want}", fi=fi, expected=want, found=str(pol))
        ctx.check(d.get("merge_similar_labels") == f"{CFG}.get('merge_similar_labels',False)", "C02-policy-config", "_extract_label_params", "merge-default", f"merge_similar_labels is `{d.get('merge_similar_labels')}`; merging is off by default", fi=fi)
        ctx.check(d.get("label_prefix") == f"{CFG}['label_prefix']", "C02-policy-config", "_extract_label_params", "label-prefix", f"label_prefix is `{d.get('label_prefix')}`", fi=fi)
    ctx.require(rows == {"named", "flag=0", "flag=1"}, f"_extract_label_params: rows {sorted(rows)}")


def run(ctx: Ctx) -> None:
    ctx.run(rule_policy_config)
    ctx.run(M.rule_stage_structure)
    ctx.run(M.rule_score_table, "C02-score-table")
    ctx.run(M.rule_cmpdir)
    ctx.run(M.rule_label_policy)
    ctx.run(M.rule_index_space, "C02-index-space")
