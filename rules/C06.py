"""C06 – matching scores (code-side formulas)."""
from sa.report import Ctx
from rules import geometry as GE
from rules import matching as M

EXPLANATION = (
    "Decides the code-side formulas only: (1) BEV/2D IoU = I/(A_est + A_gt - I) with the footprint / ROI areas and the shapely "
    "intersection of the two polygons, 3D IoU = V_i/(V_est + V_gt - V_i) with V_i = area intersection * max(0, min(tops) - max(bottoms)), "
    "top/bottom = z +- h/2, V = BEV area * height; each formula is checked on its rational normal form and is symmetric under exchanging "
    "the two objects; 0.0 without ground truth; (2) plane distance = sqrt(0.5 (d_left^2 + d_right^2)) where estimate and ground-truth "
    "corners are permuted by the same ranking (derived from the ground truth's ego distances – R-FRAME), the first two are taken from "
    "both and the same (left, right) indices are applied to both; BEV center distance for non-box shapes; None without ground truth; "
    "(3) center distance = norm of the difference of the two state.position (3D) / roi.center (2D); (4) every MatchingMethod stores the "
    "score of exactly the pair it was given, and is_better_than's direction agrees with it (R-CMPDIR). Does not decide: exactness against "
    "true polygon intersection, [0,1], '3D <= BEV', invariance under rigid motion – continuous geometry executed by shapely / numpy; given "
    "(1) these are theorems about the libraries, not about this code."
)


def run(ctx: Ctx) -> None:
    ctx.run(GE.rule_iou)
    ctx.run(GE.rule_center_distance)
    ctx.run(GE.rule_plane)
    ctx.run(GE.rule_value_none)
    ctx.run(M.rule_cmpdir)
