"""C08 – loosening a matching threshold never loses a TP."""
from __future__ import annotations

import ast
from itertools import product

from sa.paths import strip_v
from sa.report import Ctx
from rules import matching as M
from rules import C03
from rules.common import S, enum_paths, find_calls

EXPLANATION = (
    "Decides: (1) every MatchingMethod.is_better_than is, on the path with a score, one strict comparison of the score with the "
    "threshold, `<` for the two distance modes and `>` for the two IoU modes, and False without a score (R-CMPDIR) – so each decision is "
    "monotone in the threshold in the direction 'looser'; the bound compared with the score is the threshold parameter itself on every path a threshold of the valid range ([0, 1] for IoU, >= 0 for distances) can take (interval reasoning over the decided comparisons with constants; a rescaled threshold is reported); Ap._calculate_tp_fp stores a TP / FP mark only after is_result_correct was asked (rule shared with C04); (2) polarity of is_result_correct: over its complete path table, for an "
    "ordinary (non FP-labelled) ground truth the value with `is_better_than` true is >= the value with it false for every valuation of "
    "the other atoms, and the threshold flows nowhere except into that one is_better_than call and a None test; (3) get_positive_objects "
    "puts a result into the TP list exactly on the rows where is_result_correct holds (shared with C03). Hence TP(t) is a subset of "
    "TP(t') for t' looser and FN complementarily. Does not decide: monotonicity of AP/APH/mAP values (a theorem about the envelope area "
    "given C04's clauses, not a shape of this code)."
)

ORC = "evaluation.result.object_result.DynamicObjectWithPerceptionResult."


def rule_polarity(ctx: Ctx) -> None:
    fi = ctx.func(ORC + "is_result_correct")
    paths = enum_paths(ctx, fi, bool_returns=True)
    thr = fi.params()[1].arg
    names = ["gt_none", "thr_none", "m_none", "better", "is_fp", "label"]

    def atoms_of(p):
        f = {strip_v(k): v for k, v in p.facts.items()}
        return {
            "gt_none": f.get("none:self.ground_truth_object"),
            "thr_none": f.get(f"none:{thr}"),
            "m_none": next((v for k, v in f.items() if k.startswith("none:self.get_matching(")), None),
            "better": next((v for k, v in f.items() if k.startswith("call:") and ".is_better_than(" in k), None),
            "is_fp": f.get("call:self.ground_truth_object.semantic_label.is_fp()"),
            "label": f.get("truthy:self.is_label_correct"),
        }

    table = []
    for p in paths:
        ctx.require(p.exit == ("return",) and isinstance(p.retval, ast.Constant), f"is_result_correct: undecided return on [{p.cond_text()}]")
        a = atoms_of(p)
        known = sum(1 for k, v in p.facts.items())
        recog = sum(1 for v in a.values() if v is not None)
        ctx.require(known == recog, f"is_result_correct: path depends on tests outside the six expected atoms: [{p.cond_text()}]")
        table.append((a, bool(p.retval.value)))

    def value(full):
        for a, v in table:
            if all(x is None or x == full[k] for k, x in a.items()):
                return v
        return None

    n = 0
    for bits in product([False, True], repeat=5):
        full = dict(zip(["gt_none", "thr_none", "m_none", "is_fp", "label"], bits))
        if full["is_fp"]:
            continue  # the property speaks about ordinary ground truth
        lo = value({**full, "better": False})
        hi = value({**full, "better": True})
        ctx.require(lo is not None and hi is not None, "is_result_correct: decision table is not total")
        n += 1
        inst = ",".join(f"{k}={int(v)}" for k, v in full.items())
        ctx.check(hi >= lo, "C08-polarity", "is_result_correct", inst,
                  f"with {inst}: the result is correct when the score does NOT beat the threshold but not when it does – loosening the threshold can lose a TP",
                  fi=fi, expected="value(better) >= value(not better)", found=f"{hi} < {lo}", sample={"valuation": inst, "not_better": lo, "better": hi})
    ctx.table_rows += n
    # the threshold flows only into is_better_than (and the None test)
    uses = set()
    for p in paths:
        for k in p.facts:
            if thr in strip_v(k):
                uses.add(strip_v(k).split(":", 1)[0] + ":" + ("is_better_than" if ".is_better_than(" in k else strip_v(k).split(":", 1)[1]))
    ok = uses <= {f"none:{thr}", "call:is_better_than"}
    ctx.check(ok, "C08-polarity", "is_result_correct", "threshold-uses",
              f"the threshold is consulted in {sorted(uses)}; it may only be tested for None and handed to is_better_than", fi=fi)


def run(ctx: Ctx) -> None:
    from rules import C04
    ctx.run(C04.rule_marking)  # AP / APH monotonicity rests on what is marked TP: no result may be skipped because its (legitimate) threshold is 0
    ctx.run(M.rule_cmpdir)
    ctx.run(rule_polarity)
    ctx.run(C03.rule_correct)
    ctx.run(C03.rule_positive)
    ctx.run(C03.rule_status)
