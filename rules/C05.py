"""C05 – CLEAR tracking scores follow their definitions for every history."""
from __future__ import annotations

import ast
import re
from typing import Dict, List

from sa.formula import Formula, Unrecognised
from sa.index import walk_own
from sa.paths import Path, U, clone, strip_v
from sa.report import Ctx
from rules.common import label_ok, S, enum_paths, fact_where, find_calls, label_source, loops_of

EXPLANATION = (
    "Decides: (1) exactly-once accounting in CLEAR._calculate_tp_fp – the body of the per-result loop is enumerated with the inner "
    "loop over the previous frame unrolled to a fixpoint of its carried flags: every path either skips the result (no threshold for its "
    "label, no effect) or performs exactly one of `tp += weight` / `fp += 1.0`; the matching score is accumulated exactly with each TP "
    "and for the same object; `num_id_switch += 1` occurs at most once, only together with a TP of the *current* result and exactly when "
    "_is_id_switched held for a previous TP; the carried-over TP needs a previous TP that is the same match and excludes a second count; "
    "(2) the complete truth tables of _is_id_switched (switched <=> both GT present and (same estimate id AND label) XOR same GT id) and "
    "_is_same_match; (3) CLEAR.__init__ pairs frame i with frame i-1 for i >= 1 and accumulates with += only; (4) formulas: "
    "MOTA = max(0, (TP - FP - IDsw)/GT) (inf without GT), MOTP = score/TP (inf without TP), _sum_clear = GT-weighted MOTA, TP-weighted "
    "MOTP, summed switches; (5) every use of a track id (.uuid) in clear.py is an operand of == between two ids – any consistent renaming "
    "preserves every decision. Does not decide: concrete switch counts for concrete histories (they follow from 2), float rounding."
)

CQ = "evaluation.metrics.tracking.clear.CLEAR."


def rule_accounting(ctx: Ctx) -> None:
    fi = ctx.func(CQ + "_calculate_tp_fp")
    paths = enum_paths(ctx, fi, loop_mode="inner-unroll", unroll=6)
    lps = loops_of(paths)
    ctx.require(len(lps) == 1, "_calculate_tp_fp: expected one outer loop")
    lp = lps[0]
    cur = U(lp.node.target)
    ctx.require(S(lp.text) == "cur_object_results", f"_calculate_tp_fp iterates `{lp.text}`")
    # the accounting is read off the scan over the previous frame written in this function (flags carried through the unrolled inner loop); when that scan lives
    # in an extracted helper that reports its outcome through a returned tuple, the flag reasoning below does not apply - not recognised rather than guessed
    moved = set()
    for bp in lp.body:
        for e in bp.all_effects():
            if e.kind == "inline":
                cf = ctx.index.functions.get(e.text)
                if cf is not None and any(isinstance(x, (ast.For, ast.While)) for x in ast.walk(cf.node)):
                    moved.add(e.name)
    moved = sorted(moved)
    ctx.require(not moved, f"_calculate_tp_fp: the scan over the previous frame's results was moved into {moved}; this form of the accounting is not recognised")
    n = 0
    kinds = set()
    for bp in lp.body:
        n += 1
        augs = [e for e in bp.effects if e.kind == "aug"]
        by: Dict[str, List] = {}
        for e in augs:
            by.setdefault(strip_v(e.recv), []).append(e)
        thr_none = fact_where(bp, lambda k: k.startswith("none:get_label_threshold("))
        thr_truthy = fact_where(bp, lambda k: k.startswith(("truthy:get_label_threshold(", "call:get_label_threshold(")))
        if thr_none is None and thr_truthy is not None:
            ctx.violate("C05-accounting", "_calculate_tp_fp", "threshold-tested-by-truthiness", "the per-label threshold is tested by truthiness: a threshold of exactly 0 (the loosest IoU threshold, the strictest distance) "
                        "is treated as `no threshold for this label` and the result is skipped; the test must be `is None`", fi=fi, expected="matching_threshold_ is None", found="not matching_threshold_")
            continue
        cur_tp = fact_where(bp, lambda k: k.startswith(f"call:{cur}.is_result_correct("))
        switched = [k for k, v in bp.facts.items() if v and strip_v(k).startswith("call:self._is_id_switched(")]
        same = [k for k, v in bp.facts.items() if v and strip_v(k).startswith("call:self._is_same_match(")]
        tag = bp.cond_text()
        short = re.sub(r"get_label_threshold\([^)]*\)", "thr", strip_v(tag))[:150]
        if thr_none is True:
            kinds.add("skip")
            ctx.check(not augs and bp.exit == ("continue",), "C05-accounting", "_calculate_tp_fp", "skip-no-threshold",
                      "a result whose label has no threshold is counted; it must be skipped without any effect", fi=fi)
            continue
        ctx.require(thr_none is False, "_calculate_tp_fp: a counting path does not test the per-label threshold for None")
        tp, fp = by.get("tp", []), by.get("fp", [])
        ok_once = len(tp) + len(fp) == 1
        ctx.check(ok_once, "C05-accounting", "_calculate_tp_fp", f"once:{short}",
                  f"on the path [{short}] the result is counted {len(tp)}x as TP and {len(fp)}x as FP; it must be exactly one of them",
                  fi=fi, expected="exactly one of tp += / fp +=", found=f"tp x{len(tp)}, fp x{len(fp)}", sample={"path": short, "tp": len(tp), "fp": len(fp)})
        if not ok_once:
            continue
        sc = by.get("tp_matching_score", [])
        ids = by.get("num_id_switch", [])
        if fp:
            kinds.add("fp")
            ctx.check(S(fp[0].value) in ("1.0", "1"), "C05-accounting", "_calculate_tp_fp", "fp-weight", f"an FP adds {S(fp[0].value)} instead of 1", fi=fi)
            ctx.check(cur_tp is False, "C05-accounting", "_calculate_tp_fp", f"fp-iff-not-correct:{short}", f"FP counted on a path where the current result is not known to be incorrect [{short}]", fi=fi)
            ctx.check(not sc and not ids, "C05-accounting", "_calculate_tp_fp", f"fp-clean:{short}", "an FP also changes the matching-score total or the switch count", fi=fi)
            continue
        v = tp[0].value
        m = re.match(r"^self\.tp_metrics\.get_value\((\w+)\)$", S(v))
        ctx.require(m is not None, f"_calculate_tp_fp: TP weight `{S(v)}` is not self.tp_metrics.get_value(<result>)")
        who = m.group(1)
        ok_sc = len(sc) == 1 and S(sc[0].value) == f"{who}.get_matching(self.matching_mode).value"
        ctx.check(ok_sc, "C05-accounting", "_calculate_tp_fp", f"score-with-tp:{'cur' if who == cur else 'prev'}:{len(bp.conds)}",
                  f"a TP of `{who}` accumulates the matching score {[S(x.value) for x in sc]}; it must add exactly that object's score in the evaluated mode", fi=fi)
        if who == cur:
            kinds.add("tp-cur")
            ctx.check(cur_tp is True, "C05-accounting", "_calculate_tp_fp", f"tp-iff-correct:{short}", f"the current result is counted as TP without is_result_correct holding [{short}]", fi=fi)
            want_sw = bool(switched)
            got_sw = len(ids)
            ok = got_sw == (1 if want_sw else 0) and all(S(x.value) == "1" for x in ids)
            ctx.check(ok, "C05-accounting", "_calculate_tp_fp", f"switch:{'yes' if want_sw else 'no'}:{short}",
                      f"current TP with{'out' if not want_sw else ''} a switched previous TP: num_id_switch is incremented {got_sw}x (must be {1 if want_sw else 0})",
                      fi=fi, expected=str(1 if want_sw else 0), found=str(got_sw), sample={"path": short, "switch": got_sw})
            ctx.check(not same, "C05-accounting", "_calculate_tp_fp", f"no-double:{short}", "the current result is counted although the same match was already carried over from the previous frame", fi=fi)
        else:
            kinds.add("tp-carried")
            prev_tp = [k for k, v2 in bp.facts.items() if v2 and strip_v(k).startswith(f"call:{strip_v(who)}.is_result_correct(") or v2 and k.startswith(f"call:{who}.is_result_correct(")]
            same_here = [k for k in same if strip_v(who) in strip_v(k)]
            ctx.check(bool(prev_tp) and bool(same_here) and not ids and bp.exit == ("continue",), "C05-accounting", "_calculate_tp_fp", f"carried:{short}",
                      "a carried-over TP must come from a previous TP that is the same match, must not count a switch, and must end the handling of the current result",
                      fi=fi, sample={"path": short, "carried_from": who})
    # accumulators: start at zero, only ever grow by addition; the tests are asked about (current, previous) in that order and in the evaluated mode
    for p in paths:
        init = {e.recv: S(e.value) for e in p.effects if e.kind == "assign" and e.recv in ("tp", "fp", "num_id_switch", "tp_matching_score")}
        for k2 in ("tp", "fp", "num_id_switch", "tp_matching_score"):
            v0 = init.get(k2, S(lp.pre.get(k2)) if lp.pre.get(k2) is not None else None)
            ctx.check(v0 in ("0.0", "0"), "C05-accounting", "_calculate_tp_fp", f"starts-at-zero:{k2}", f"the total `{k2}` starts at {v0}; it must start at 0", fi=fi, expected="0", found=str(v0))
        break
    seen_ops = set()
    for bp in lp.body:
        for e in bp.effects:
            if e.kind == "aug" and strip_v(e.recv) in ("tp", "fp", "num_id_switch", "tp_matching_score") and (strip_v(e.recv), e.name) not in seen_ops:
                seen_ops.add((strip_v(e.recv), e.name))
                ctx.check(e.name == "Add", "C05-accounting", "_calculate_tp_fp", f"adds:{strip_v(e.recv)}:{e.name}", f"`{strip_v(e.recv)}` is updated with operator {e.name}; totals only grow by addition", fi=fi, expected="+=", found=e.name)
        for k2 in bp.facts:
            t = strip_v(S(k2))
            m2 = re.match(r"^call:(\w+)\.is_result_correct\((.*)\)$", t)
            if m2:
                args2 = m2.group(2)
                ok2 = args2.startswith("self.matching_mode,get_label_threshold(") or args2.startswith("matching_mode=self.matching_mode,matching_threshold=get_label_threshold(")
                ctx.check(ok2, "C05-accounting", "_calculate_tp_fp", f"correctness-args:{m2.group(1)}", f"{m2.group(1)}.is_result_correct is asked with ({args2[:80]}); expected (self.matching_mode, <threshold of the label>)", fi=fi)
            m3 = re.match(r"^call:self\.(_is_id_switched|_is_same_match)\((.*)\)$", t)
            if m3:
                ctx.check(re.match(rf"^{cur},\w+$", m3.group(2)) is not None and m3.group(2).split(",")[1] != cur, "C05-accounting", "_calculate_tp_fp", f"pair-args:{m3.group(1)}",
                          f"self.{m3.group(1)} is asked about ({m3.group(2)}); expected (current result, previous result)", fi=fi)
    # switches never counted without a TP of the current result
    for bp in lp.body:
        ids = [e for e in bp.effects if e.kind == "aug" and strip_v(e.recv) == "num_id_switch"]
        tpc = [e for e in bp.effects if e.kind == "aug" and strip_v(e.recv) == "tp" and f"get_value({cur}" in U(e.value)]
        if ids:
            ctx.check(len(tpc) == 1, "C05-accounting", "_calculate_tp_fp", "switch-needs-tp", "an ID switch is counted on a path that does not count the current result as TP", fi=fi)
    ctx.require({"skip", "fp", "tp-cur", "tp-carried"} <= kinds, f"_calculate_tp_fp: path kinds {sorted(kinds)} – expected skip, fp, tp-cur, tp-carried")
    ctx.require(n >= 12, f"_calculate_tp_fp: only {n} body paths")
    # threshold by GT label (falling back to the estimate's)
    for bp in lp.body:
        for c in find_calls(bp, "get_label_threshold"):
            a = c.kwargs.get("semantic_label") or (c.args[0] if c.args else None)
            ok_l, src = label_ok(ctx, bp, a, cur) if a is not None else (False, "none")
            ctx.require(ok_l is not None, f"_calculate_tp_fp: the label used for the threshold look-up (`{S(a)[:80]}`) is not recognised")
            ctx.check(ok_l, "R-THRLABEL", "_calculate_tp_fp", "matching-threshold",
                      f"the matching threshold is looked up with `{S(a) if a is not None else None}` ({src}); it must be the ground truth's label, the estimate's only without ground truth", fi=fi)
    for p in paths:
        rv = p.retval
        ok = isinstance(rv, ast.Tuple) and [S(x) for x in rv.elts] == ["tp", "fp", "num_id_switch", "tp_matching_score"]
        ctx.check(ok, "C05-accounting", "_calculate_tp_fp", "returns", f"returns `{S(rv) if rv is not None else None}` instead of (tp, fp, num_id_switch, tp_matching_score)", fi=fi)


def _pair_table(ctx: Ctx, fname: str, spec) -> None:
    fi = ctx.func(CQ + fname)
    paths = enum_paths(ctx, fi, bool_returns=True)
    a, b = [x.arg for x in fi.params()][:2]
    rows = 0
    for p in paths:
        ctx.require(p.exit == ("return",) and isinstance(p.retval, ast.Constant), f"{fname}: undecided return on [{p.cond_text()[:100]}]")
        val = bool(p.retval.value)
        f = {S(k): v for k, v in p.facts.items()}

        def same(x):
            return next((v for k, v in f.items() if k in (f"same:{a}.{x}=={b}.{x}", f"same:{b}.{x}=={a}.{x}")), None)

        atoms = {
            "cur_gt_none": f.get(f"none:{a}.ground_truth_object"),
            "prev_gt_none": f.get(f"none:{b}.ground_truth_object"),
            "eid": same("estimated_object.uuid"),
            "elabel": same("estimated_object.semantic_label"),
            "gid": same("ground_truth_object.uuid"),
        }
        known_keys = {f"none:{a}.ground_truth_object", f"none:{b}.ground_truth_object"} | {
            f"same:{x}.{y}=={z}.{y}" for y in ("estimated_object.uuid", "estimated_object.semantic_label", "ground_truth_object.uuid") for x, z in ((a, b), (b, a))}
        unexpected = [k for k in f if k not in known_keys]
        wrong = False
        for k in unexpected:
            m = re.match(rf"^same:({a}|{b})\.([\w.]+)==({a}|{b})\.([\w.]+)$", k)
            if m and (m.group(2) != m.group(4) or m.group(1) == m.group(3)):
                ctx.violate("C05-pairing", fname, f"compares:{m.group(2)}~{m.group(4)}",
                            f"{fname} compares `{m.group(1)}.{m.group(2)}` with `{m.group(3)}.{m.group(4)}`; the definition compares the same field of the current and the previous result "
                            "(estimate id, estimate label, ground-truth id)", fi=fi, expected="same field of current and previous result", found=k[5:])
                wrong = True
            elif re.match(rf"^none:({a}|{b})\.estimated_object$", k):
                ctx.violate("C05-pairing", fname, "none-test-on-estimate", f"{fname} tests `{k[5:]}` for None; the guard of the definition is on the GROUND TRUTH of each result (an estimate is never None)", fi=fi)
                wrong = True
        if wrong:
            continue
        ctx.require(not unexpected, f"{fname}: decision depends on unexpected tests [{p.cond_text()[:160]}]")
        free = [k for k, v in atoms.items() if v is None]
        for bits in range(1 << len(free)):
            full = dict(atoms)
            for i, k in enumerate(free):
                full[k] = bool(bits >> i & 1)
            want = spec(full)
            rows += 1
            inst = ",".join(f"{k}={int(v)}" for k, v in full.items())
            ctx.check(val == want, "C05-pairing", fname, inst,
                      f"{fname} returns {val} for [{inst}]; the definition gives {want}", fi=fi, expected=str(want), found=str(val), sample={"row": inst, "value": val})
    ctx.table_rows += rows
    ctx.require(rows >= 32, f"{fname}: only {rows} truth-table rows covered (32 expected)")


def rule_pairing(ctx: Ctx) -> None:
    def switched(x):
        if x["cur_gt_none"] or x["prev_gt_none"]:
            return False
        e = x["eid"] and x["elabel"]
        return bool(e) != bool(x["gid"])

    def same_match(x):
        if x["cur_gt_none"] or x["prev_gt_none"]:
            return False
        return bool(x["eid"] and x["elabel"] and x["gid"])

    _pair_table(ctx, "_is_id_switched", switched)
    _pair_table(ctx, "_is_same_match", same_match)


def rule_history(ctx: Ctx) -> None:
    fi = ctx.func(CQ + "__init__")
    paths = enum_paths(ctx, fi)
    lps = loops_of(paths)
    ctx.require(len(lps) == 1, "CLEAR.__init__: expected one loop over the history")
    lp = lps[0]
    it = S(lp.text)
    running = it in ("object_results[1:]", "iter(object_results)") and isinstance(lp.node.target, ast.Name)  # (an iterator whose first element was taken as the initial predecessor)
    zipped = it == "zip(object_results,object_results[1:])" and isinstance(lp.node.target, ast.Tuple) and len(lp.node.target.elts) == 2  # (previous, current) pairs of consecutive frames
    if not running and not zipped:
        ctx.require(it.startswith(("enumerate(", "object_results", "range(")), f"CLEAR.__init__: history loop header `{it}` not recognised")
        ctx.check(it == "enumerate(object_results[1:],1)", "C05-history", "CLEAR.__init__", "window",
                  f"the history loop iterates `{it}`; it must visit every frame after the first with its own index (enumerate(object_results[1:], 1))", fi=fi,
                  expected="enumerate(object_results[1:], 1)", found=it)
        if it != "enumerate(object_results[1:],1)":
            return
    ivar, cvar = [U(x) for x in lp.node.target.elts] if isinstance(lp.node.target, ast.Tuple) else ("?", U(lp.node.target))
    zprev = None
    if zipped:
        zprev, cvar, ivar = U(lp.node.target.elts[0]), U(lp.node.target.elts[1]), "?"
    for bp in lp.body:
        calls = find_calls(bp, "_calculate_tp_fp")
        if running and not calls:
            # a frame that is skipped must still become the predecessor of the next one
            carried = [k for k, v in bp.env.items() if S(v) == cvar]
            ctx.check(bool(carried) and bp.exit != ("continue",) or bool(carried), "C05-history", "CLEAR.__init__", f"running-prev:skip:{bp.cond_text()[:60]}",
                      f"on the path [{strip_v(bp.cond_text())[:100]}] the frame is skipped without becoming the 'previous' frame: the next frame is compared with a frame two steps back", fi=fi,
                      expected="previous = current on every path through the loop body", found="previous frame left unchanged")
            continue
        ctx.require(len(calls) == 1, "CLEAR.__init__: _calculate_tp_fp is not called exactly once per frame")
        c = calls[0]
        a_cur = c.kwargs.get("cur_object_results") or (c.args[0] if c.args else None)
        a_prev = c.kwargs.get("prev_object_results") or (c.args[1] if len(c.args) > 1 else None)
        if running:
            pname = strip_v(S(a_prev)) if a_prev is not None else ""
            pre = (lp.pre or {}).get(pname)
            ok0 = pre is not None and (S(pre) == "object_results[0]" or S(pre).startswith("object_results[0]if") or (it == "iter(object_results)" and S(pre) in ("next(iter(object_results),[])", "next(iter(object_results))")))
            ctx.check(a_cur is not None and S(a_cur) == cvar and isinstance(a_prev, ast.Name) and ok0, "C05-history", "CLEAR.__init__", "pair",
                      f"frame results are paired as (cur={S(a_cur) if a_cur is not None else None}, prev={pname}, initially {S(pre) if pre is not None else None}); the running predecessor must start as object_results[0]", fi=fi)
            adv = bp.env.get(pname)
            ctx.check(adv is not None and S(adv) == cvar, "C05-history", "CLEAR.__init__", f"running-prev:advance:{len(bp.conds)}",
                      f"after handling a frame the running predecessor is `{S(adv) if adv is not None else 'unchanged'}`; it must become the current frame on every path", fi=fi)
        elif zipped:
            ok = a_cur is not None and a_prev is not None and S(a_cur) == cvar and S(a_prev) == zprev
            ctx.check(ok, "C05-history", "CLEAR.__init__", "pair", f"frame results are paired as (cur={S(a_cur) if a_cur is not None else None}, prev={S(a_prev) if a_prev is not None else None}); with "
                      f"zip(object_results, object_results[1:]) the first element is the predecessor", fi=fi, expected=f"({cvar}, {zprev})", found=f"({S(a_cur) if a_cur is not None else None}, {S(a_prev) if a_prev is not None else None})")
        else:
            ok = a_cur is not None and a_prev is not None and S(a_cur) == cvar and S(a_prev) == f"object_results[{ivar}-1]"
            ctx.check(ok, "C05-history", "CLEAR.__init__", "pair",
                      f"frame results are paired as (cur={S(a_cur) if a_cur is not None else None}, prev={S(a_prev) if a_prev is not None else None}); the predecessor must be object_results[i - 1]",
                      fi=fi, expected=f"({cvar}, object_results[{ivar}-1])", found=f"({S(a_cur) if a_cur is not None else None}, {S(a_prev) if a_prev is not None else None})")
        call_txt = S(c.text)
        want = {"self.tp": 0, "self.fp": 1, "self.id_switch": 2, "self.tp_matching_score": 3}
        for e in bp.effects:
            if e.kind == "aug" and strip_v(e.recv) in want:
                ok = e.name == "Add" and S(e.value) == f"{call_txt}[{want[strip_v(e.recv)]}]"
                ctx.check(ok, "C05-history", "CLEAR.__init__", f"accumulate:{strip_v(e.recv)}",
                          f"{strip_v(e.recv)} is updated with `{e.name} {S(e.value)[-30:]}`; it must add component {want[strip_v(e.recv)]} of the frame's (tp, fp, id_switch, score)", fi=fi)
        got = {strip_v(e.recv) for e in bp.effects if e.kind == "aug"}
        ctx.check(set(want) <= got, "C05-history", "CLEAR.__init__", "all-totals", f"totals not accumulated: {sorted(set(want) - got)}", fi=fi)
    # totals start at zero and scores are computed after the loop
    for p in paths:
        st = [(strip_v(e.recv), S(e.value)) for e in p.effects if e.kind == "store"]
        for k in ("self.tp", "self.fp", "self.id_switch", "self.tp_matching_score"):
            init = [v for r, v in st if r == k]
            ctx.check(bool(init) and init[0] in ("0.0", "0"), "C05-history", "CLEAR.__init__", f"init:{k}", f"{k} does not start at zero ({init[:1]})", fi=fi)
        sc = [v for r, v in st if r in ("self.mota", "self.motp")]
        ctx.check(len(sc) == 2 and sc[0] == "self._calculate_score()[0]" and sc[1] == "self._calculate_score()[1]", "C05-history", "CLEAR.__init__", "scores",
                  f"(mota, motp) are not taken in that order from _calculate_score(): {sc}", fi=fi)


def rule_formulas(ctx: Ctx) -> None:
    fi = ctx.func(CQ + "_calculate_score")
    paths = enum_paths(ctx, fi)
    F = Formula(rename={"self.tp": "tp", "self.fp": "fp", "self.id_switch": "ids", "self.num_ground_truth": "ngt", "self.tp_matching_score": "score"})
    n = 0
    for p in paths:
        rv = p.retval
        ctx.require(isinstance(rv, ast.Tuple) and len(rv.elts) == 2, "_calculate_score: does not return (mota, motp)")
        f = {S(k): v for k, v in p.facts.items()}
        ngt0 = f.get("eq:self.num_ground_truth==0")
        if ngt0 is None:
            ngt0 = f.get("eq:self.num_ground_truth==0.0")
        tp0 = f.get("eq:self.tp==0.0")
        if tp0 is None:
            tp0 = f.get("eq:self.tp==0")
        ctx.require(ngt0 is not None and tp0 is not None, f"_calculate_score: zero-denominator tests not recognised [{p.cond_text()}]")
        try:
            mota, motp = F.parse(rv.elts[0]), F.parse(rv.elts[1])
        except Unrecognised as exc:
            ctx.require(False, f"_calculate_score: {exc}")
        n += 1
        if ngt0:
            ok = mota.equals(F.parse_text("inf")) or mota.equals(F.parse_text("max(0.0, inf)"))
            ctx.check(ok, "C05-formula", "_calculate_score", "mota:no-gt", f"MOTA without ground truth is `{S(rv.elts[0])}`, expected inf", fi=fi)
        else:
            ok = mota.equals(F.parse_text("max(0, (tp - fp - ids) / ngt)"))
            ctx.check(ok, "C05-formula", "_calculate_score", f"mota:tp0={int(tp0)}",
                      f"MOTA is `{S(rv.elts[0])}`; the definition is max(0, (TP - FP - IDswitch) / ground truths)", fi=fi,
                      expected="max(0, (tp - fp - id_switch) / num_ground_truth)", found=S(rv.elts[0]), sample={"mota": S(rv.elts[0])})
        if tp0:
            ctx.check(motp.equals(F.parse_text("inf")), "C05-formula", "_calculate_score", f"motp:no-tp:ngt0={int(ngt0)}", f"MOTP without TP is `{S(rv.elts[1])}`, expected inf", fi=fi)
        else:
            ctx.check(motp.equals(F.parse_text("score / tp")), "C05-formula", "_calculate_score", f"motp:ngt0={int(ngt0)}",
                      f"MOTP is `{S(rv.elts[1])}`; the definition is the mean matching score over TPs (tp_matching_score / tp)", fi=fi,
                      expected="tp_matching_score / tp", found=S(rv.elts[1]))
    ctx.require(n == 4, f"_calculate_score: {n} paths, expected 4 (GT zero?, TP zero?)")
    # _sum_clear
    fs = ctx.func("evaluation.metrics.tracking.tracking_metrics_score.TrackingMetricsScore._sum_clear")
    paths = enum_paths(ctx, fs)
    lps = loops_of(paths)
    ctx.require(len(lps) == 1 and S(lps[0].text) == "self.clears", "_sum_clear: loop over self.clears not recognised")
    c = U(lps[0].node.target)
    want_uncond = {"num_gt": f"{c}.num_ground_truth", "num_tp": f"int({c}.tp)", "num_id_switch": f"{c}.id_switch"}
    for bp in lps[0].body:
        f = {S(k): v for k, v in bp.facts.items()}
        mota_inf = next((v for k, v in f.items() if k.startswith("same:") and f"{c}.mota" in k and "inf" in k), None)
        motp_inf = next((v for k, v in f.items() if k.startswith("same:") and f"{c}.motp" in k and "inf" in k), None)
        ctx.require(mota_inf is not None and motp_inf is not None, "_sum_clear: the inf guards on mota / motp were not recognised")
        augs = {strip_v(e.recv): e for e in bp.effects if e.kind == "aug"}
        tag = f"mota_inf={int(mota_inf)},motp_inf={int(motp_inf)}"
        FF = Formula()
        ok = ("mota" in augs) == (not mota_inf) and ("mota" not in augs or FF.parse(augs["mota"].value).equals(FF.parse_text(f"{c}.mota * {c}.num_ground_truth")))
        ok = ok and ("mota" not in augs or augs["mota"].name == "Add")
        ctx.check(ok, "C05-formula", "_sum_clear", f"mota-weight:{tag}", "total MOTA must add mota * num_ground_truth for every label with a finite MOTA (ground-truth weighted)", fi=fs)
        ok = ("motp" in augs) == (not motp_inf) and ("motp" not in augs or FF.parse(augs["motp"].value).equals(FF.parse_text(f"{c}.motp * {c}.tp")))
        ok = ok and ("motp" not in augs or augs["motp"].name == "Add")
        ctx.check(ok, "C05-formula", "_sum_clear", f"motp-weight:{tag}", "total MOTP must add motp * tp for every label with a finite MOTP (TP weighted)", fi=fs)
        for k, v in want_uncond.items():
            ok = k in augs and augs[k].name == "Add" and S(augs[k].value) in (v, v.replace("int(", "").rstrip(")") if k == "num_tp" else v)
            ctx.check(ok, "C05-formula", "_sum_clear", f"{k}:{tag}", f"{k} must add {v} for every label", fi=fs)
    # the five totals start at zero
    for p in paths[:1]:
        init = {e.recv: S(e.value) for e in p.effects if e.kind == "assign" and e.recv in ("mota", "motp", "num_gt", "num_tp", "num_id_switch")}
        lpe = [e for e in p.effects if e.kind == "loop"][0]
        for k2 in ("mota", "motp", "num_gt", "num_tp", "num_id_switch"):
            first = next((S(e.value) for e in p.effects[: p.effects.index(lpe)] if e.kind == "assign" and e.recv == k2), S(lpe.pre.get(k2)) if lpe.pre.get(k2) is not None else None)
            ctx.check(first in ("0.0", "0"), "C05-formula", "_sum_clear", f"starts-at-zero:{k2}", f"the total `{k2}` starts at {first}; it must start at 0", fi=fs, expected="0", found=str(first))
    # after the loop: replay the assignments
    for p in paths:
        idx = max(i for i, e in enumerate(p.effects) if e.kind == "loop")
        cur: Dict[str, ast.expr] = {}
        for e in p.effects[idx + 1:]:
            if e.kind == "assign":
                v = clone(e.value)
                for nnode in ast.walk(v):
                    if isinstance(nnode, ast.Name):
                        base = strip_v(nnode.id)
                        nnode.id = base
                v = _subst_names(v, cur)
                cur[e.recv] = v
        f = {S(k): v for k, v in p.facts.items()}
        g0 = next((v for k, v in f.items() if k.startswith("eq:num_gt") and k.endswith("==0")), None)
        t0 = next((v for k, v in f.items() if k.startswith("eq:num_tp") and k.endswith("==0")), None)
        ctx.require(g0 is not None and t0 is not None, "_sum_clear: zero-total tests not recognised")
        FF = Formula()
        rv = p.retval
        ctx.require(isinstance(rv, ast.Tuple) and len(rv.elts) == 3, "_sum_clear: does not return (mota, motp, num_id_switch)")
        names = [strip_v(S(x)) for x in rv.elts]
        ctx.check(names == ["mota", "motp", "num_id_switch"], "C05-formula", "_sum_clear", "returns", f"returns {names}", fi=fs)
        mota_e, motp_e = cur.get("mota"), cur.get("motp")
        ctx.require(mota_e is not None and motp_e is not None, "_sum_clear: final mota / motp assignments not found")
        want_mota = "max(0.0, inf)" if g0 else "max(0.0, mota / num_gt)"
        ok = FF.parse(mota_e).equals(FF.parse_text(want_mota)) or (g0 and FF.parse(mota_e).equals(FF.parse_text("inf")))
        ctx.check(ok, "C05-formula", "_sum_clear", f"total-mota:gt0={int(g0)}", f"total MOTA is `{S(mota_e)}`, expected {want_mota}", fi=fs, expected=want_mota, found=S(mota_e))
        want_motp = "inf" if t0 else "motp / num_tp"
        ctx.check(FF.parse(motp_e).equals(FF.parse_text(want_motp)), "C05-formula", "_sum_clear", f"total-motp:tp0={int(t0)}", f"total MOTP is `{S(motp_e)}`, expected {want_motp}", fi=fs,
                  expected=want_motp, found=S(motp_e))


def _subst_names(v: ast.expr, cur: Dict[str, ast.expr]) -> ast.expr:
    class T(ast.NodeTransformer):
        def visit_Name(self, node):
            if node.id in cur:
                return clone(cur[node.id])
            return node

    return T().visit(v)


def rule_uuid_uses(ctx: Ctx) -> None:
    """Track ids are only ever compared for equality with another track id."""
    mod = ctx.src.module("perception_eval.evaluation.metrics.tracking.clear")
    from sa.source import parent_of

    n = 0
    for node in ast.walk(mod.tree):
        if isinstance(node, ast.Attribute) and node.attr == "uuid":
            n += 1
            par = parent_of(node)
            ok = isinstance(par, ast.Compare) and len(par.ops) == 1 and isinstance(par.ops[0], (ast.Eq, ast.NotEq)) and all(
                isinstance(x, ast.Attribute) and x.attr == "uuid" for x in [par.left] + par.comparators
            )
            ctx.check(ok, "C05-renaming", "clear.py", f"uuid-use-{n}",
                      f"a track id is used in `{ast.unparse(par)[:80]}` (line {node.lineno}); ids may only be compared for equality with another id, otherwise renaming tracks changes the score",
                      file=mod.relpath, node=node)
    ctx.require(n >= 4, f"clear.py: only {n} uses of .uuid found (hand-confirmed minimum 4)")


def run(ctx: Ctx) -> None:
    from rules import generic as _G
    ctx.run(_G.rule_arity, ("perception_eval.evaluation.metrics.tracking",), "R-ARITY", 5)
    ctx.run(rule_accounting)
    ctx.run(rule_pairing)
    ctx.run(rule_history)
    ctx.run(rule_formulas)
    ctx.run(rule_uuid_uses)
