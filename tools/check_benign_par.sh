#!/bin/bash
# usage: tools/check_benign_par.sh <root> <jobs> <pid>...   -- parallel form of check_benign_batch.sh
ROOT=$1; JOBS=$2; shift 2
for P in "$@"; do for k in 1 2 3 4 5 6; do echo "$P $k"; done; done | xargs -P $JOBS -L 1 sh -c 'exec /verif/tools/check_benign_one.sh '"$ROOT"' $0 $1' | sort
