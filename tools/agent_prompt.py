import json,sys
pid=sys.argv[1]
rnd=sys.argv[2] if len(sys.argv)>2 else "1"
props={json.loads(l)['id']:json.loads(l) for l in open('/verif/properties.jsonl')}
p=props[pid]
wt=f"/tmp/wt_{pid}"
out=f"/tmp/seed_out/{pid}" if rnd=="1" else f"/tmp/seed_out{rnd}/{pid}"
wt=wt if rnd=="1" else f"/tmp/wt{rnd}_{pid}"
STYLE3 = """
  STYLE FOR THIS ROUND - go for changes that are hard to spot by reading the diff: (i) boundary and degenerate cases (empty list, single element, exactly-equal values, zero, negative, NaN, duplicates, an object that is simultaneously X and Y); (ii) ORDER and ALIASING effects (iteration order, which of two equal candidates wins, a list shared between two consumers, shallow vs deep copy, a default argument evaluated once, state left over from a previous call); (iii) a wrong unit / index / axis / sign / off-by-one in ONE of several symmetric places (x done right, y done wrong; first stage right, second wrong; 2D right, 3D wrong); (iv) an exception path or an early exit that skips bookkeeping; (v) the interplay of TWO correct-looking functions in different files. Make sure the three changes break three DIFFERENT clauses of the STATEMENT. Avoid these already over-used kinds: caching/memoising with an incomplete key, testing a possibly-zero value by truthiness, using the estimate's label instead of the ground truth's for a threshold lookup, dropping a `transforms` argument, flipping a single comparison operator."""
STYLE = "" if rnd == "1" else STYLE3 if rnd in ("3", "4") else """
  STYLE FOR THIS ROUND - prefer changes of these kinds: (i) a change spread over two sites or two files that each look fine alone; (ii) a change in a helper, property, data structure, default value or constructor that the relevant code relies on (not in the most obvious function itself); (iii) a refactor that keeps the code looking natural - hoisting, caching/memoising, early return, generalising or merging conditions, a changed default argument, a mutable default, in-place instead of copy (or the reverse), changed iteration order, reuse of a loop variable after the loop, `or`-defaulting of a value that may legitimately be 0/empty, shadowed names - but alters behaviour; (iv) a clause of the property that is easy to overlook (read the STATEMENT sentence by sentence and make sure the three changes break three DIFFERENT clauses). Avoid the most obvious mutations (flipping one comparison operator, swapping which object's label is used for a threshold lookup, deleting a transforms= argument)."""
print(f"""You are helping to test a verification tool by writing realistic *faulty* changes to a Python library. Work ONLY inside the git worktree {wt} (a checkout of the library tier4/autoware_perception_evaluation, package under {wt}/perception_eval/perception_eval) and write your deliverables under {out}/ . Do not read or touch /repo or /verif, and do not look for any verification tooling: your changes must be independent of it.

The library should satisfy this property:

TITLE: {p['title']}
STATEMENT: {p['statement']}
QUANTIFIED OVER: {p['quantifier']['text']}
RELEVANT FILES: {', '.join(p['anchors']['files'])}

Your task: produce THREE different, independent changes (mutations) to the library source, each of which
  (a) breaks the property above for some inputs,
  (b) still imports/compiles and still passes the ENTIRE existing test suite, and
  (c) needs something specific to manifest - an unusual input, a particular combination of options, a multi-step sequence, two cooperating sites that each look fine alone, a particular frame/ego pose, a rarely used mode - NOT something ordinary use would expose at once. Prefer subtle, realistic bugs a developer could plausibly introduce in a refactor or "optimisation" (wrong index/axis, off-by-one, wrong operand, dropped guard, swapped arguments, wrong default, stale variable, wrong label/threshold lookup, etc.) over crude ones. The three changes should touch different mechanisms if possible.{STYLE}

For each change k = 1, 2, 3 deliver in {out}/k/ :
  - patch.diff : `git diff` output of the change relative to the worktree's HEAD (source files under perception_eval/perception_eval only; do not edit tests),
  - demo.py    : a small self-contained program (or pytest file) that exercises the library through its public functions/classes and FAILS (non-zero exit / failing assert) with the change applied and PASSES without it. It is run as: cd {wt} && PYTHONPATH={wt}/perception_eval /venv/bin/python {out}/k/demo.py
  - meta.txt   : 3-6 lines: what the change does, which clause of the property it breaks, what is needed for it to manifest.

How to work:
  - Python is /venv/bin/python (all dependencies installed). ALWAYS set PYTHONPATH={wt}/perception_eval so that the worktree's copy of the package is imported (the default install points elsewhere). Verify with: PYTHONPATH={wt}/perception_eval /venv/bin/python -c "import perception_eval; print(perception_eval.__file__)"
  - Existing tests: cd {wt} && PYTHONPATH={wt}/perception_eval /venv/bin/python -m pytest -q -p no:cacheprovider --timeout=900 -n 6   (about 1-2 minutes; 110 tests must pass). Tests live in {wt}/perception_eval/test; test helpers (e.g. test.util.dummy_object.make_dummy_data) may be handy for building objects in your demo (run demos from {wt} so that `import test.util...` style imports work, or build objects directly with the library's classes).
  - For each change: apply it, run the full suite (must pass), run demo.py (must fail), then `git checkout -- .` to undo (do NOT use `git stash`: the stash is shared between worktrees of the same repository and other people are working in sibling worktrees), run demo.py again (must pass). Save the diff BEFORE undoing. Leave the worktree clean (git status clean) at the end.
  - Keep each patch small (a few lines).
  - demo.py must not contain the absolute path of the worktree: if it needs the sample dataset, derive the path from the imported package, e.g. os.path.join(os.path.dirname(os.path.dirname(perception_eval.__file__)), 'test', 'sample_data').
When done, reply with a short summary per change (file/function touched, what manifests it) and confirm that for each one: suite passed with the change, demo failed with it, demo passed without it.
""")
