"""usage: try_variant.py Cxx relpath <<< 'old\n===\nnew'  -- run rules on an in-memory edit"""
import sys; sys.path.insert(0,'/verif')
from sa.main import run_rules
from sa.source import SourceSet, repo_root
from sa.report import open_known
import os
pid, rel = sys.argv[1], sys.argv[2]
old, new = sys.stdin.read().split("\n===\n")
new = new.rstrip("\n") if not old.endswith("\n") else new
path = os.path.join(repo_root(), "perception_eval/perception_eval", rel)
t = open(path).read()
assert t.count(old) == 1, t.count(old)
src = SourceSet.load(repo_root(), {os.path.relpath(path, repo_root()): t.replace(old, new)})
ctx, err = run_rules(pid, "quick", 0, src)
known = open_known(pid)
for f in ctx.findings:
    if f.key not in known: print("FINDING", f.key, "|", f.detail[:200])
print("ERR", err)
