#!/bin/bash
# usage: tools/verify_seed2.sh <seed dir> <out file>   (parallel-safe: works in its own worktree, checks via VERIF_REPO)
D="$1"; OUT="$2"
W=/tmp/vw_$$_$RANDOM
git -C /repo worktree add -q --detach $W HEAD || exit 3
mkdir -p $W/.tmp; export TMPDIR=$W/.tmp   # the suite leaves ~100 MB of plots per run in $TMPDIR: they go away with the worktree
cd $W
{
if ! git apply "$D/patch.diff"; then echo "PATCH-DOES-NOT-APPLY"; else
PYTHONPATH=$W/perception_eval timeout 900 /venv/bin/python "$D/demo.py" > $OUT.demo_with.log 2>&1; RC_WITH=$?
PYTHONPATH=$W/perception_eval timeout 1500 /venv/bin/python -m pytest -q -p no:cacheprovider --timeout=900 -n 4 > $OUT.suite.log 2>&1; RC_SUITE=$?
SUITE=$(tail -1 $OUT.suite.log)
DET=""
cd /verif
for P in $(/venv/bin/python -c "import json;print(' '.join(c['property_id'] for c in json.load(open('/verif/MANIFEST.json'))['checks']))"); do
  O=$(VERIF_REPO=$W ./check $P --no-evidence 2>&1); RC=$?
  if [ $RC -eq 1 ]; then DET="$DET $P"; echo "$O" | grep -A2 "^VIOLATION" | grep -v "^--" | head -9; fi
  if [ $RC -eq 2 ]; then echo "  $P: $(echo "$O" | grep ANALYSIS-ERROR | cut -c1-300)"; fi
done
cd $W
git checkout -q -- .
PYTHONPATH=$W/perception_eval timeout 900 /venv/bin/python "$D/demo.py" > $OUT.demo_without.log 2>&1; RC_WITHOUT=$?
echo "demo_with_patch_rc=$RC_WITH demo_without_patch_rc=$RC_WITHOUT suite_rc=$RC_SUITE suite='$SUITE'"
echo "DETECTED_BY:$DET"
fi
} > $OUT 2>&1
cd /verif
git -C /repo worktree remove --force $W
