#!/bin/bash
# usage: tools/check_benign_one.sh <root> <pid> <k>  -- one behaviour-preserving patch: unedited suite must pass with it (unless SKIP_SUITE), all checks must stay silent
ROOT=$1; P=$2; k=$3
D=$ROOT/$P/$k; [ -f $D/patch.diff ] || exit 0
W=/tmp/cb_$$_$RANDOM
git -C /repo worktree add -q --detach $W HEAD || exit 3
mkdir -p $W/.tmp; export TMPDIR=$W/.tmp   # the suite leaves ~100 MB of plots per run in $TMPDIR: they go away with the worktree
if ( cd $W && git apply $D/patch.diff ); then
  [ -n "$SKIP_SUITE" ] && SU=skipped || SU=$(cd $W && PYTHONPATH=$W/perception_eval timeout 1500 /venv/bin/python -m pytest -q -p no:cacheprovider --timeout=900 -n 4 2>&1 | tail -1 | cut -c1-40)
  RES=""
  for C in $(/venv/bin/python -c "import json;print(' '.join(c['property_id'] for c in json.load(open('/verif/MANIFEST.json'))['checks']))"); do
    O=$(cd /verif && VERIF_REPO=$W ./check $C --no-evidence 2>&1); RC=$?
    [ $RC -eq 1 ] && RES="$RES VIOLATION:$C[$(echo "$O" | grep -m1 '^  rule=' | cut -c1-120)]"
    [ $RC -eq 2 ] && RES="$RES exit2:$C[$(echo "$O" | grep -m1 ANALYSIS-ERROR | cut -c30-170)]"
  done
  echo "$P-$k suite='$SU' ${RES:- all-silent}"
else echo "$P-$k PATCH-DOES-NOT-APPLY"; fi
git -C /repo worktree remove --force $W
