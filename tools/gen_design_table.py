"""Rewrite the per-property table of DESIGN.md section 11.2 from the current evidence files, self-test batteries and seeded changes."""
import glob, importlib, json, os, re, sys
V = os.path.dirname(os.path.dirname(os.path.abspath(__file__)))
sys.path.insert(0, V)
rows = ["| prop | rules (instances on the reference tree) | self-test break/benign | seeds |", "|------|------------------------------------------|------------------------|-------|"]
tb = tn = 0
for i in range(1, 21):
    pid = f"C{i:02d}"
    ev = json.load(open(f"{V}/evidence/{pid}.json"))
    rules = ev["coverage"].get("rules", {})
    m = importlib.import_module(f"selftest.{pid}")
    nb = sum(1 for v in m.VARIANTS if v["kind"] == "break"); nn = sum(1 for v in m.VARIANTS if v["kind"] == "benign")
    tb += nb; tn += nn
    seeds = len(glob.glob(f"{V}/seeded/{pid}-*"))
    rows.append(f"| {pid} | " + ", ".join(f"{k} {v['instances']}" for k, v in rules.items()) + f" | {nb}/{nn} | {seeds} |")
rows.append(f"| total | | {tb}/{tn} | {len(glob.glob(V + '/seeded/*'))} |")
p = f"{V}/DESIGN.md"
s = open(p).read()
a = s.index("| prop | rules (instances")
b = s.index("\n\n", a)
s = s[:a] + "\n".join(rows) + s[b:]
open(p, "w").write(s)
print("\n".join(rows[-3:]))
