#!/bin/bash
# usage: tools/check_patch.sh <patch.diff> [check ids...]  -- apply the patch to a scratch worktree and run the checks against it
PATCH="$1"; shift
W=/tmp/cp_$$_$RANDOM
git -C /repo worktree add -q --detach $W HEAD || exit 3
( cd $W && git apply "$PATCH" ) || { echo "PATCH-DOES-NOT-APPLY"; git -C /repo worktree remove --force $W; exit 3; }
IDS="$@"; [ -z "$IDS" ] && IDS=$(/venv/bin/python -c "import json;print(' '.join(c['property_id'] for c in json.load(open('/verif/MANIFEST.json'))['checks']))")
DET=""
for P in $IDS; do
  O=$(VERIF_REPO=$W ./check $P --no-evidence 2>&1); RC=$?
  [ $RC -eq 1 ] && { DET="$DET $P"; echo "$O" | grep -A2 "^VIOLATION" | grep -v "^--" | head -6 | cut -c1-260; }
  [ $RC -eq 2 ] && echo "  $P: $(echo "$O" | grep ANALYSIS-ERROR | cut -c1-260)"
done
git -C /repo worktree remove --force $W
echo "DETECTED_BY:$DET"
