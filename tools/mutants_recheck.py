"""Second pass of tools/mutants.py: re-run the silent mutants of <in.json> against checks with package-wide scans
(R-KW / R-KW-splat / R-TF / C20-site / ownership) that do not 'own' the mutated function.  tools/mutants_recheck.py in.json out.json [pids]"""
import json, os, sys
from concurrent.futures import ProcessPoolExecutor
sys.path.insert(0, os.path.dirname(os.path.dirname(os.path.abspath(__file__))))
from tools import mutants as M  # noqa: E402


def job(a):
    r, pids = a
    qual = r["fn"].split(".")
    # rebuild the job index: the description identifies the mutant
    import ast
    from sa.source import repo_root
    text = open(os.path.join(repo_root(), r["file"]), encoding="utf-8").read()
    fn = M._find(ast.parse(text), qual)
    ms = M.mutants_of(fn)
    idx = next(i for i, (d, _) in enumerate(ms) if d == r["desc"])
    out = M._job((pids, r["file"], "", qual, idx))
    out["first_pass_pids"] = r["pids"]
    return out


def main():
    src, dst = sys.argv[1], sys.argv[2]
    pids = sys.argv[3] if len(sys.argv) > 3 else "C07,C03,C20,C13"
    res = json.load(open(src))["results"]
    silent = [r for r in res if r["status"] == "silent"]
    with ProcessPoolExecutor(max_workers=int(os.environ.get("JOBS", "8"))) as ex:
        out = list(ex.map(job, [(r, pids) for r in silent], chunksize=4))
    tot = {}
    for r in out:
        tot[r["status"]] = tot.get(r["status"], 0) + 1
    print(len(silent), "silent mutants re-checked against", pids, "->", tot)
    json.dump({"results": out}, open(dst, "w"), indent=1)
    for r in out:
        if r["status"] == "silent":
            print(f"SILENT {r['fn']} [{r['first_pass_pids']}]: {r['desc']}")


if __name__ == "__main__":
    main()
