#!/bin/bash
# usage: tools/check_benign_batch.sh <root> <pid>...  -- for every <root>/<pid>/{1,2,3}/patch.diff: suite must pass with it, then all checks must stay silent
ROOT=$1; shift
for P in "$@"; do for k in 1 2 3; do
  D=$ROOT/$P/$k; [ -f $D/patch.diff ] || continue
  W=/tmp/cb_$$_$RANDOM
  git -C /repo worktree add -q --detach $W HEAD || continue
  mkdir -p $W/.tmp; export TMPDIR=$W/.tmp
  if ( cd $W && git apply $D/patch.diff ); then
    [ -n "$SKIP_SUITE" ] && SU=skipped || SU=$(cd $W && PYTHONPATH=$W/perception_eval timeout 1500 /venv/bin/python -m pytest -q -p no:cacheprovider --timeout=900 -n 6 2>&1 | tail -1)
    RES=""
    for C in $(/venv/bin/python -c "import json;print(' '.join(c['property_id'] for c in json.load(open('/verif/MANIFEST.json'))['checks']))"); do
      O=$(cd /verif && VERIF_REPO=$W ./check $C --no-evidence 2>&1); RC=$?
      [ $RC -eq 1 ] && RES="$RES VIOLATION:$C[$(echo "$O" | grep -m1 '^  rule=' | cut -c1-120)]"
      [ $RC -eq 2 ] && RES="$RES exit2:$C[$(echo "$O" | grep -m1 ANALYSIS-ERROR | cut -c30-170)]"
    done
    echo "$P-$k suite='$SU' ${RES:- all-silent}"
  else echo "$P-$k PATCH-DOES-NOT-APPLY"; fi
  git -C /repo worktree remove --force $W
done; done
