"""Validate MANIFEST.json and every evidence file against the harness schemas (run with python3-vt)."""
import glob, json, sys
import jsonschema
ok = True
jsonschema.validate(json.load(open('/verif/MANIFEST.json')), json.load(open('/root/.vp/MANIFEST.schema.json')))
es = json.load(open('/root/.vp/EVIDENCE.schema.json'))
for f in sorted(glob.glob('/verif/evidence/*.json')):
    try:
        jsonschema.validate(json.load(open(f)), es)
    except Exception as exc:
        ok = False
        print('INVALID', f, str(exc)[:300])
print('valid' if ok else 'invalid')
sys.exit(0 if ok else 1)
