import json,sys
pid=sys.argv[1]
props={json.loads(l)['id']:json.loads(l) for l in open('/verif/properties.jsonl')}
p=props[pid]
rnd=sys.argv[2] if len(sys.argv)>2 else "1"
wt=f"/tmp/wtb_{pid}" if rnd=="1" else f"/tmp/wtb{rnd}_{pid}"
out=f"/tmp/benign_out/{pid}" if rnd=="1" else f"/tmp/benign_out{rnd}/{pid}"
STYLE2 = "" if rnd=="1" else """
  STYLE FOR THIS ROUND - be bolder than pure renaming, but stay strictly behaviour-preserving: (i) replace an index loop by enumerate / zip (or back), a flag-and-break loop by any() / all() / next() / for-else (or back), a `while` by a `for`; (ii) split a long function into two or three private helpers (module-level or methods) that receive what they need as arguments, or merge a trivial helper into its only caller; (iii) hoist an expression that is computed several times into a local, or inline a local that is used once; (iv) replace an if/elif chain over constants by an equivalent one in another order of the (mutually exclusive) tests, or guard clauses instead of nesting; (v) build a list with a comprehension, `list(map(...))`, `extend`, or `+` instead of repeated append (or back), copy with `list(x)` / `x[:]` / `x.copy()` interchangeably; (vi) tuple-unpack instead of indexing, f-strings in messages, `is not None` ordering, parenthesisation, chained comparisons `a <= x <= b` vs `a <= x and x <= b`. Floating-point results must stay bit-identical: do not reassociate arithmetic or swap numeric library functions."""
print(f"""You are helping to test a verification tool for robustness. Work ONLY inside the git worktree {wt} (a checkout of the library tier4/autoware_perception_evaluation, package under {wt}/perception_eval/perception_eval) and write your deliverables under {out}/ . Do not read or touch /repo or /verif, and do not look for any verification tooling.

The library satisfies this property, and it must KEEP satisfying it:

TITLE: {p['title']}
STATEMENT: {p['statement']}
RELEVANT FILES: {', '.join(p['anchors']['files'])}

Your task: produce THREE different, independent BEHAVIOUR-PRESERVING refactorings of the code that implements this property (in the relevant files above) - the kind of clean-up a maintainer could merge without changing what the library computes for ANY input. Each refactoring should touch the functions that actually implement the property (not just comments) and change 5-40 lines. Use a different style for each, for example:
  - rename local variables / loop variables consistently, reorder independent statements, introduce or remove temporaries;
  - restructure control flow without changing it (early return instead of else, merged or split conditions that are logically equivalent, `elif` chains, a conditional expression turned into if/else or back, De Morgan);
  - extract a small private helper function (or inline one), replace a loop by an equivalent comprehension (or back), `x += y` vs `x = x + y` on numbers, keyword vs positional arguments, reordered keyword arguments, `a > b` written as `b < a`;
  - add type hints, docstrings, logging/debug statements, assertions that always hold.{STYLE2}
Do NOT change behaviour in any way: same results, same exceptions, same mutation (or non-mutation) of inputs, same handling of None / empty / zero, same iteration order. If in doubt, leave it.

For each refactoring k = 1, 2, 3 deliver in {out}/k/ :
  - patch.diff : `git diff` output relative to the worktree's HEAD (source files under perception_eval/perception_eval only; do not edit tests),
  - meta.txt   : 2-5 lines: what was refactored and why it is behaviour-preserving.

How to work:
  - Python is /venv/bin/python. ALWAYS set PYTHONPATH={wt}/perception_eval so that the worktree's copy of the package is imported.
  - Existing tests: cd {wt} && PYTHONPATH={wt}/perception_eval /venv/bin/python -m pytest -q -p no:cacheprovider --timeout=900 -n 6   (about 1-2 minutes; 110 tests must pass with every refactoring applied).
  - For each refactoring: apply it, run the full suite (must pass), save the diff, then `git checkout -- .` to undo (do NOT use `git stash`: it is shared between worktrees and other people work in sibling worktrees). Leave the worktree clean at the end.
When done, reply with a short summary per refactoring and confirm that the suite passed with each.
""")
