"""Regenerate MANIFEST.json from the rule modules that exist (others -> not_applicable)."""
import importlib
import json
import os
import sys

VERIF = os.path.dirname(os.path.dirname(os.path.abspath(__file__)))
sys.path.insert(0, VERIF)

PIDS = [f"C{i:02d}" for i in range(1, 21)]
BASELINE = "cd /repo && /venv/bin/python -m pytest -ra -q -p no:cacheprovider --timeout=900 --continue-on-collection-errors"
NOTE = (
    "Trusted base: CPython's ast parser; the checker's own idiom tables; name/import/class/annotation based callee "
    "resolution (no type checker is available in the sandbox); the semantics of the numpy / shapely / pyquaternion / "
    "nuscenes-devkit calls that the rules name as opaque. The check decides the structural clauses listed; behaviour over "
    "runtime values (numerics, concrete scenes, histories) is NOT established by it."
)


def main() -> None:
    checks = []
    na = []
    fixes = []
    kf = json.load(open(os.path.join(VERIF, "known_findings.json")))
    for f in kf.get("findings", []):
        st = f.get("status", "")
        if st.startswith("fixed:"):
            parts = st.split()
            if len(parts) >= 3 and parts[2] not in fixes:
                fixes.append(parts[2])
    for pid in PIDS:
        try:
            mod = importlib.import_module(f"rules.{pid}")
        except ModuleNotFoundError:
            na.append({"property_id": pid, "reason": "static check not built yet in this revision (see DESIGN.md section 4 for the planned clauses)"})
            continue
        if getattr(mod, "NOT_APPLICABLE", None):
            na.append({"property_id": pid, "reason": mod.NOT_APPLICABLE})
            continue
        checks.append(
            {
                "property_id": pid,
                "quick_cmd": f"./check {pid} --tier quick",
                "thorough_cmd": f"./check {pid} --tier thorough",
                "evidence_file": f"evidence/{pid}.json",
                "replay_cmd_template": f"./check {pid} --replay {{path}}",
                "engine": "sa",
                "level_claimed": {
                    "category": "other",
                    "text": getattr(mod, "LEVEL_TEXT", None) or mod.EXPLANATION,
                    "design_ref": f"DESIGN.md section 4, {pid}",
                },
                "level_note": getattr(mod, "NOTE", NOTE),
                "technique": getattr(mod, "TECHNIQUE", "static analysis: repo-specific AST rules"),
            }
        )
    man = {
        "version": 1,
        "setup_cmd": "/venv/bin/python -B -m py_compile sa/*.py rules/*.py selftest/*.py tools/*.py",
        "hooks": {
            "guard": "PERCEPTION_EVAL_VERIF",
            "enable": "n/a: the checks parse /repo's working tree with ast; nothing is built or instrumented, no hook exists in /repo",
            "baseline_off_cmd": BASELINE,
            "source_commits": [],
            "add_only": True,
        },
        "engines": [
            {
                "name": "sa",
                "path": "/verif/sa",
                "serves_properties": [c["property_id"] for c in checks],
                "kind_free_text": "repo-specific static analyses over the AST: program index + callee resolver, call-site binder, "
                "finite-domain path enumerator with symbolic def-use substitution, literal table extractor, dict-literal flow, "
                "mutation summaries, rational-function formula normaliser; rules compare the extracted decision tables / bindings / "
                "formulas with hand-written spec tables",
            }
        ],
        "checks": checks,
        "not_applicable": na,
        "notes": "All checks are static (family: static analysis). Exit 0 held / 1 VIOLATION / 2 ANALYSIS-ERROR (anchor vanished or idiom "
        "not recognised: never reported as a violation). Genuine defects repaired in /repo by 'fix:' commits: "
        + ", ".join(fixes)
        + ". Open findings are listed in known_findings.json.",
    }
    with open(os.path.join(VERIF, "MANIFEST.json"), "w") as fh:
        json.dump(man, fh, indent=1)
    print(f"checks={len(checks)} not_applicable={len(na)}")


if __name__ == "__main__":
    main()
