"""Robustness finder (development tool, not a registered check).

    tools/benign.py <Cxx|all> [--jobs 8] [--only <qualname substring>] [--out file.json]

The mirror image of tools/mutants.py: applies BEHAVIOUR-PRESERVING rewrites inside every function the rules analyse, one kind per variant and all
sites of that kind in the function at once, runs the owning properties' rules in memory and lists the variants that are not silent:

    rename       every local variable (not a parameter, not a global) gets a new name
    flipcmp      a < b -> b > a, a <= b -> b >= a, a == b -> b == a (single-operator comparisons, no chained ones)
    unaug        x += e -> x = x + e   (names only; for lists this differs in aliasing, so only when the target is a local bound in the function)
    tempret      return e -> _r = e; return _r
    negif        if c: A else: B -> if not c: B else: A   (both branches non-empty, no elif chain)
    kwreorder    keyword arguments of every call are reversed
    kw2pos       f(a, k=b) -> f(a, b) when k is the next positional parameter of a callee defined in the package (resolved by name, unique definition)
    pos2kw       f(a, b) -> f(a, k=b) for the last positional argument of such a callee
    ifexp2if     return a if c else b -> if c: return a / return b ; x = a if c else b -> if c: x = a / else: x = b
    elif2else    if a: A elif b: B else: C -> if a: A else: (if b: B else: C)   [same AST in Python: only the unparse differs; kept as a sanity kind]
    unelse       if c: ...return... else: REST -> if c: ...return... ; REST   (else after a branch that always returns / raises / continues)
    hoistarg     x = f(g(y)) -> zz_arg = g(y); x = f(zz_arg)   (first call-valued positional argument of an assigned / returned call, simple statements only)

A VIOLATION on such a variant is a false alarm of the rules (to be fixed); an ANALYSIS-ERROR is an idiom the rules do not recognise (brittleness).
No verdict of a check depends on this tool.
"""
from __future__ import annotations

import argparse
import ast
import json
import os
import sys
from concurrent.futures import ProcessPoolExecutor
from typing import Any, Dict, List

HERE = os.path.dirname(os.path.abspath(__file__))
sys.path.insert(0, os.path.dirname(HERE))

from sa.main import run_rules  # noqa: E402
from sa.report import open_known  # noqa: E402
from sa.source import SourceSet, repo_root  # noqa: E402
from tools.mutants import _find  # noqa: E402

KINDS = ("rename", "flipcmp", "unaug", "tempret", "negif", "kwreorder", "kw2pos", "pos2kw", "hoistarg", "ifexp2if", "elif2else", "unelse")


def _own_nodes(fn):
    """Nodes of fn excluding nested function / class bodies."""
    out = []
    stack = list(ast.iter_child_nodes(fn))
    while stack:
        n = stack.pop()
        out.append(n)
        if isinstance(n, (ast.FunctionDef, ast.AsyncFunctionDef, ast.ClassDef, ast.Lambda)):
            continue
        stack.extend(ast.iter_child_nodes(n))
    return out


def transform(fn: ast.FunctionDef, kind: str) -> int:
    """Rewrites fn in place; returns the number of sites changed."""
    n = 0
    nodes = _own_nodes(fn)
    has_nested = any(isinstance(x, (ast.FunctionDef, ast.Lambda, ast.ListComp, ast.DictComp, ast.SetComp, ast.GeneratorExp)) for x in nodes)
    if kind == "rename":
        if has_nested and any(isinstance(x, (ast.FunctionDef, ast.Lambda)) for x in nodes):
            return 0
        params = {a.arg for a in fn.args.posonlyargs + fn.args.args + fn.args.kwonlyargs} | ({fn.args.vararg.arg} if fn.args.vararg else set()) | ({fn.args.kwarg.arg} if fn.args.kwarg else set())
        stored = {x.id for x in nodes if isinstance(x, ast.Name) and isinstance(x.ctx, ast.Store)}
        comp_targets = set()
        for x in nodes:
            if isinstance(x, ast.comprehension):
                comp_targets |= {t.id for t in ast.walk(x.target) if isinstance(t, ast.Name)}
        declared = set()
        for x in nodes:
            if isinstance(x, (ast.Global, ast.Nonlocal)):
                declared |= set(x.names)
        local = stored - params - declared
        if not local:
            return 0
        for x in nodes:
            if isinstance(x, ast.Name) and x.id in local:
                x.id = "zz_" + x.id
                n += 1
        return n
    if kind == "flipcmp":
        flip = {ast.Lt: ast.Gt, ast.Gt: ast.Lt, ast.LtE: ast.GtE, ast.GtE: ast.LtE, ast.Eq: ast.Eq, ast.NotEq: ast.NotEq}
        for x in nodes:
            if isinstance(x, ast.Compare) and len(x.ops) == 1 and type(x.ops[0]) in flip:
                x.left, x.comparators[0] = x.comparators[0], x.left
                x.ops = [flip[type(x.ops[0])]()]
                n += 1
        return n
    if kind == "unaug":
        for parent in [fn] + nodes:
            for field in ("body", "orelse", "finalbody"):
                body = getattr(parent, field, None)
                if not isinstance(body, list):
                    continue
                for i, st in enumerate(body):
                    if isinstance(st, ast.AugAssign) and isinstance(st.target, ast.Name) and isinstance(st.op, (ast.Add, ast.Sub, ast.Mult)) and isinstance(st.value, (ast.Constant, ast.Name, ast.Attribute, ast.Call, ast.BinOp, ast.Subscript)):
                        if isinstance(st.value, (ast.List, ast.ListComp)):
                            continue
                        # numbers only: skip when the right side is obviously a list
                        body[i] = ast.Assign(targets=[ast.Name(id=st.target.id, ctx=ast.Store())], value=ast.BinOp(left=ast.Name(id=st.target.id, ctx=ast.Load()), op=st.op, right=st.value), lineno=st.lineno)
                        n += 1
        return n
    if kind == "tempret":
        for parent in [fn] + nodes:
            for field in ("body", "orelse", "finalbody"):
                body = getattr(parent, field, None)
                if not isinstance(body, list):
                    continue
                i = 0
                while i < len(body):
                    st = body[i]
                    if isinstance(st, ast.Return) and st.value is not None and not isinstance(st.value, (ast.Name, ast.Constant)):
                        body[i: i + 1] = [ast.Assign(targets=[ast.Name(id="zz_ret", ctx=ast.Store())], value=st.value, lineno=st.lineno), ast.Return(value=ast.Name(id="zz_ret", ctx=ast.Load()))]
                        n += 1
                        i += 1
                    i += 1
        return n
    if kind == "negif":
        for x in nodes:
            if isinstance(x, ast.If) and x.orelse and not (len(x.orelse) == 1 and isinstance(x.orelse[0], ast.If)):
                x.test = x.test.operand if isinstance(x.test, ast.UnaryOp) and isinstance(x.test.op, ast.Not) else ast.UnaryOp(op=ast.Not(), operand=x.test)
                x.body, x.orelse = x.orelse, x.body
                n += 1
        return n
    if kind == "kwreorder":
        for x in nodes:
            if isinstance(x, ast.Call) and len(x.keywords) >= 2 and all(k.arg is not None for k in x.keywords):
                x.keywords = list(reversed(x.keywords))
                n += 1
        return n
    if kind in ("kw2pos", "pos2kw"):
        table = _callee_table()
        for x in nodes:
            if not isinstance(x, ast.Call) or any(isinstance(a, ast.Starred) for a in x.args) or any(k.arg is None for k in x.keywords):
                continue
            name = x.func.id if isinstance(x.func, ast.Name) else x.func.attr if isinstance(x.func, ast.Attribute) else None
            params = table.get(name)
            if not params:
                continue
            is_method = params[:1] in (["self"], ["cls"])
            pp = params[1:] if is_method else params
            if isinstance(x.func, ast.Name) and is_method:
                continue  # class constructor through __init__ is keyed by class name below
            if kind == "kw2pos" and x.keywords and len(x.args) < len(pp) and x.keywords[0].arg == pp[len(x.args)]:
                x.args.append(x.keywords.pop(0).value)
                n += 1
            elif kind == "pos2kw" and x.args and len(x.args) <= len(pp) and not any(k.arg == pp[len(x.args) - 1] for k in x.keywords):
                v = x.args.pop()
                x.keywords.insert(0, ast.keyword(arg=pp[len(x.args)], value=v))
                n += 1
        return n
    if kind == "ifexp2if":
        for parent in [fn] + nodes:
            for field in ("body", "orelse", "finalbody"):
                body = getattr(parent, field, None)
                if not isinstance(body, list):
                    continue
                i = 0
                while i < len(body):
                    st = body[i]
                    if isinstance(st, ast.Return) and isinstance(st.value, ast.IfExp):
                        e = st.value
                        body[i: i + 1] = [ast.If(test=e.test, body=[ast.Return(value=e.body)], orelse=[], lineno=st.lineno), ast.Return(value=e.orelse)]
                        n += 1
                        i += 1
                    elif isinstance(st, ast.Assign) and isinstance(st.value, ast.IfExp) and len(st.targets) == 1:
                        e = st.value
                        import copy as _c
                        body[i] = ast.If(test=e.test, body=[ast.Assign(targets=[st.targets[0]], value=e.body, lineno=st.lineno)], orelse=[ast.Assign(targets=[_c.deepcopy(st.targets[0])], value=e.orelse, lineno=st.lineno)], lineno=st.lineno)
                        n += 1
                    i += 1
        return n
    if kind == "elif2else":
        return sum(1 for x in nodes if isinstance(x, ast.If) and len(x.orelse) == 1 and isinstance(x.orelse[0], ast.If))
    if kind == "unelse":
        def always_leaves(b):
            return bool(b) and isinstance(b[-1], (ast.Return, ast.Raise, ast.Continue, ast.Break))
        for parent in [fn] + nodes:
            for field in ("body", "orelse", "finalbody"):
                body = getattr(parent, field, None)
                if not isinstance(body, list):
                    continue
                i = 0
                while i < len(body):
                    st = body[i]
                    if isinstance(st, ast.If) and st.orelse and always_leaves(st.body) and not (len(st.orelse) == 1 and isinstance(st.orelse[0], ast.If)):
                        rest = st.orelse
                        st.orelse = []
                        body[i + 1: i + 1] = rest
                        n += 1
                    i += 1
        return n
    if kind == "hoistarg":
        for parent in [fn] + nodes:
            for field in ("body", "orelse", "finalbody"):
                body = getattr(parent, field, None)
                if not isinstance(body, list):
                    continue
                i = 0
                while i < len(body):
                    st = body[i]
                    call = st.value if isinstance(st, (ast.Assign, ast.Return, ast.AnnAssign)) and isinstance(getattr(st, "value", None), ast.Call) else None
                    if call is not None:
                        j = next((k for k, a in enumerate(call.args) if isinstance(a, ast.Call)), None)
                        if j is not None:
                            tmp = f"zz_arg{n}"
                            body.insert(i, ast.Assign(targets=[ast.Name(id=tmp, ctx=ast.Store())], value=call.args[j], lineno=st.lineno))
                            call.args[j] = ast.Name(id=tmp, ctx=ast.Load())
                            n += 1
                            i += 1
                    i += 1
        return n
    raise ValueError(kind)


_TABLE = None


def _callee_table():
    """name -> positional parameter names, for functions / methods / classes (via __init__) with a UNIQUE definition of that name in the package."""
    global _TABLE
    if _TABLE is None:
        src = SourceSet.load(repo_root())
        seen: Dict[str, List[List[str]]] = {}
        for m in src:
            for n in ast.walk(ast.parse(m.text)):
                if isinstance(n, ast.FunctionDef):
                    if n.args.vararg is not None:
                        seen.setdefault(n.name, []).append([])
                        continue
                    seen.setdefault(n.name, []).append([a.arg for a in n.args.posonlyargs + n.args.args])
                elif isinstance(n, ast.ClassDef):
                    init = next((b for b in n.body if isinstance(b, ast.FunctionDef) and b.name == "__init__"), None)
                    if init is not None and init.args.vararg is None:
                        seen.setdefault(n.name, []).append([a.arg for a in init.args.args][1:])
        _TABLE = {k: v[0] for k, v in seen.items() if len(v) == 1 and v[0] and not k.startswith("__")}
    return _TABLE


def _job(job) -> Dict[str, Any]:
    pids, relpath, qual, kind = job
    root = repo_root()
    text = open(os.path.join(root, relpath), encoding="utf-8").read()
    tree = ast.parse(text)
    fn = _find(tree, qual)
    sites = transform(fn, kind)
    if not sites:
        return {"fn": ".".join(qual), "kind": kind, "status": "n/a"}
    ast.fix_missing_locations(tree)
    try:
        new = ast.unparse(tree)
        ast.parse(new)
    except Exception as exc:  # pragma: no cover
        return {"fn": ".".join(qual), "kind": kind, "status": "bad", "detail": str(exc)}
    src = SourceSet.load(root, {relpath: new})
    status, detail = "silent", []
    for pid in pids.split(","):
        ctx, err = run_rules(pid, "quick", 0, src)
        known = open_known(pid)
        keys = [f.key for f in (ctx.findings if ctx else []) if f.key not in known]
        if keys:
            status = "VIOLATION"
            detail.append(f"{pid}: {keys[0]}")
        elif err and status != "VIOLATION":
            status = "error"
            detail.append(f"{pid}: {err[:140]}")
    return {"fn": ".".join(qual), "file": relpath, "kind": kind, "sites": sites, "status": status, "detail": detail[:3], "pids": pids}


def main() -> int:
    ap = argparse.ArgumentParser()
    ap.add_argument("pid")
    ap.add_argument("--jobs", type=int, default=8)
    ap.add_argument("--only", default=None)
    ap.add_argument("--kinds", default=",".join(KINDS))
    ap.add_argument("--out", default=None)
    a = ap.parse_args()
    src = SourceSet.load(repo_root())
    owners: Dict[str, List[str]] = {}
    index = None
    for pid in ([f"C{i:02d}" for i in range(1, 21)] if a.pid == "all" else [a.pid]):
        c, err = run_rules(pid, "quick", 0, src)
        if err:
            print("clean tree does not pass:", pid, err)
            return 2
        index = c.index
        for qn in c.functions:
            owners.setdefault(qn, []).append(pid)
    jobs = []
    for qn in sorted(owners):
        if a.only and a.only not in qn:
            continue
        fi = index.functions.get(qn) or index.functions.get("perception_eval." + qn)
        if fi is None:
            continue
        qual = fi.qualname[len(fi.module.name) + 1:].split(".")
        fn = _find(ast.parse(fi.module.text), qual)
        if fn is None or not isinstance(fn, (ast.FunctionDef, ast.AsyncFunctionDef)):
            continue
        for kind in a.kinds.split(","):
            jobs.append((",".join(owners[qn]), fi.module.relpath, qual, kind))
    print(f"{a.pid}: {len(owners)} functions, {len(jobs)} candidate variants")
    with ProcessPoolExecutor(max_workers=a.jobs) as ex:
        res = list(ex.map(_job, jobs, chunksize=2))
    tot: Dict[str, int] = {}
    for r in res:
        tot[r["status"]] = tot.get(r["status"], 0) + 1
    print(tot)
    for st in ("VIOLATION", "error"):
        for r in res:
            if r["status"] == st:
                print(f"{st:9s} {r['kind']:9s} {r['fn']} [{r['pids']}] sites={r['sites']} :: {' | '.join(r['detail'])[:260]}")
    if a.out:
        json.dump({"totals": tot, "results": res}, open(a.out, "w"), indent=1)
    return 0


if __name__ == "__main__":
    sys.exit(main())
