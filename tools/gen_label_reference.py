"""One-off: dump today's label tables (after review against docs/en/perception/label.md) as the reference."""
import json, sys, os
sys.path.insert(0, os.path.dirname(os.path.dirname(os.path.abspath(__file__))))
from sa.source import SourceSet
from sa.report import Ctx
from rules import C14
ctx = Ctx("C14", "quick", 0, SourceSet.load())
tabs = C14.tables(ctx)
ref = {}
for t, (ecls, rows, fi) in tabs.items():
    key = t if t.startswith("autoware") else ("traffic_light/classification" if t.endswith("CLASSIFICATION2D") else "traffic_light/other")
    d = {n: m for _, m, n, _ in rows}
    if key in ref:
        assert ref[key] == d, key
    ref[key] = d
json.dump(ref, open(os.path.join(os.path.dirname(__file__), "..", "spec", "labels_reference.json"), "w"), indent=1, sort_keys=True)
print({k: len(v) for k, v in ref.items()})
