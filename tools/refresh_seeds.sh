#!/bin/bash
# usage: tools/refresh_seeds.sh [jobs]  -- re-run every claimed check (quick tier) against every seeded change and refresh meta.json (detected_by / reported)
# Works in scratch worktrees under /tmp (removed afterwards); /repo itself is never modified.
J=${1:-8}
cd /verif
OUT=$(mktemp -d /tmp/refresh_XXXX)
one() {
  S=$1; OUT=$2
  W=/tmp/rs_$$_$RANDOM
  flock /tmp/.verif_wt.lock git -C /repo worktree add -q --detach $W HEAD || exit 3
  if ( cd $W && git apply /verif/seeded/$S/patch.diff ); then
    for P in $(/venv/bin/python -c "import json;print(' '.join(c['property_id'] for c in json.load(open('/verif/MANIFEST.json'))['checks']))"); do
      O=$(VERIF_REPO=$W ./check $P --no-evidence 2>&1); RC=$?
      echo "$P rc=$RC" >> $OUT/$S.txt
      [ $RC -ne 0 ] && echo "$O" | grep -E "^(  rule=|ANALYSIS-ERROR)" | head -4 | sed "s/^/$P /" >> $OUT/$S.txt
    done
  else echo "PATCH-DOES-NOT-APPLY" >> $OUT/$S.txt; fi
  flock /tmp/.verif_wt.lock git -C /repo worktree remove --force $W
}
export -f one
ls seeded | xargs -P $J -I{} bash -c "one {} $OUT"
/venv/bin/python - "$OUT" <<'PY'
import json, os, re, sys
out = sys.argv[1]
bad = 0
for s in sorted(os.listdir('/verif/seeded')):
    t = open(f'{out}/{s}.txt').read()
    det = re.findall(r'^(C\d\d) rc=1$', t, re.M)
    err = re.findall(r'^(C\d\d) rc=2$', t, re.M)
    rep = [dict(check=c, rule=r, construct=k, instance=i.strip()) for c, r, k, i in re.findall(r'^(C\d\d)   rule=(\S+) construct=(\S+) instance=(.*)$', t, re.M)]
    p = f'/verif/seeded/{s}/meta.json'
    d = json.load(open(p))
    d['detected_by'] = det
    d['analysis_error_in'] = err
    d['reported'] = rep[:8]
    json.dump(d, open(p, 'w'), indent=1)
    own = d['property'] in det
    print(s, 'detected_by', det, '' if own else '  <-- not by its own property', ('exit2:' + ','.join(err)) if err else '')
    bad += (not det)
print('undetected:', bad)
PY
rm -rf $OUT
git -C /repo worktree prune
