"""Blind-spot finder (development tool, not a registered check).

    tools/mutants.py <Cxx|all> [--union] [--jobs 16] [--only <qualname substring>] [--limit N] [--out file.json]

Generates small AST-level mutants (comparison / boolean / arithmetic operator, constant, est<->gt attribute,
dropped keyword, swapped positional arguments, deleted effect statement, negated branch, dropped break/continue/raise)
inside every function the property's rules analyse on the clean tree, runs the property's rules IN MEMORY on each
mutant (nothing is executed, /repo is not modified) and lists the mutants that stay silent.  A silent mutant is
either behaviour-preserving / outside what the property states, or a blind spot of the rules: the list is triaged by
reading, blind spots become new rule instances and self-test variants.  No verdict of a check depends on this tool.
"""
from __future__ import annotations

import argparse
import ast
import copy
import json
import os
import sys
from concurrent.futures import ProcessPoolExecutor
from typing import Any, Dict, List, Tuple

HERE = os.path.dirname(os.path.abspath(__file__))
sys.path.insert(0, os.path.dirname(HERE))

from sa.main import run_rules  # noqa: E402
from sa.report import open_known  # noqa: E402
from sa.source import SourceSet, repo_root  # noqa: E402

CMP_SWAP = {ast.Lt: [ast.LtE, ast.Gt], ast.LtE: [ast.Lt], ast.Gt: [ast.GtE, ast.Lt], ast.GtE: [ast.Gt], ast.Eq: [ast.NotEq], ast.NotEq: [ast.Eq],
            ast.Is: [ast.IsNot], ast.IsNot: [ast.Is], ast.In: [ast.NotIn], ast.NotIn: [ast.In]}
BIN_SWAP = {ast.Add: ast.Sub, ast.Sub: ast.Add, ast.Mult: ast.Div, ast.Div: ast.Mult}
ATTR_SWAP = {"estimated_object": "ground_truth_object", "ground_truth_object": "estimated_object"}


def _nodes(fn: ast.AST):
    """Nodes of the function, not descending into the docstring."""
    for n in ast.walk(fn):
        yield n


def mutants_of(fn: ast.FunctionDef) -> List[Tuple[str, Any]]:
    """Returns (description, mutator) pairs; mutator(fn_copy) edits the copy in place.  Nodes are addressed by walk index."""
    out: List[Tuple[str, Any]] = []
    nodes = list(ast.walk(fn))
    doc = None
    if fn.body and isinstance(fn.body[0], ast.Expr) and isinstance(fn.body[0].value, ast.Constant) and isinstance(fn.body[0].value.value, str):
        doc = fn.body[0]
    skip = set()
    if doc is not None:
        skip |= {id(n) for n in ast.walk(doc)}
    # annotations and decorators are not behaviour
    for n in nodes:
        if isinstance(n, ast.AnnAssign):
            skip |= {id(x) for x in ast.walk(n.annotation)}
        if isinstance(n, ast.arg) and n.annotation is not None:
            skip |= {id(x) for x in ast.walk(n.annotation)}
        if isinstance(n, (ast.FunctionDef, ast.AsyncFunctionDef)) and n.returns is not None:
            skip |= {id(x) for x in ast.walk(n.returns)}
        if isinstance(n, ast.Raise) and n.exc is not None:
            skip |= {id(x) for x in ast.walk(n.exc)}  # messages
        if isinstance(n, ast.Call) and isinstance(n.func, ast.Attribute) and isinstance(n.func.value, ast.Name) and n.func.value.id == "logging":
            skip |= {id(x) for x in ast.walk(n)}
        if isinstance(n, ast.JoinedStr):
            skip |= {id(x) for x in ast.walk(n)}

    def at(i):
        return lambda f: list(ast.walk(f))[i]

    for i, n in enumerate(nodes):
        if id(n) in skip:
            continue
        ln = getattr(n, "lineno", 0)
        if isinstance(n, ast.Compare) and len(n.ops) == 1:
            for new in CMP_SWAP.get(type(n.ops[0]), []):
                def m(f, i=i, new=new):
                    at(i)(f).ops = [new()]
                out.append((f"L{ln} cmp {type(n.ops[0]).__name__}->{new.__name__}: {ast.unparse(n)[:70]}", m))
        elif isinstance(n, ast.BoolOp):
            new = ast.Or if isinstance(n.op, ast.And) else ast.And

            def m(f, i=i, new=new):
                at(i)(f).op = new()
            out.append((f"L{ln} bool {type(n.op).__name__}->{new.__name__}: {ast.unparse(n)[:70]}", m))
        elif isinstance(n, ast.UnaryOp) and isinstance(n.op, ast.Not):
            def m(f, i=i):
                x = at(i)(f)
                x.op = ast.UAdd()  # placeholder replaced below
                x.__class__ = ast.Call
                x.func = ast.Name(id="bool", ctx=ast.Load())
                x.args = [x.operand]
                x.keywords = []
            out.append((f"L{ln} drop-not: {ast.unparse(n)[:70]}", m))
        elif isinstance(n, ast.UnaryOp) and isinstance(n.op, ast.USub) and not isinstance(n.operand, ast.Constant):
            def m(f, i=i):
                at(i)(f).op = ast.UAdd()
            out.append((f"L{ln} drop-neg: {ast.unparse(n)[:70]}", m))
        elif isinstance(n, ast.BinOp) and type(n.op) in BIN_SWAP:
            if isinstance(n.left, ast.Constant) and isinstance(n.left.value, str):
                continue
            new = BIN_SWAP[type(n.op)]

            def m(f, i=i, new=new):
                at(i)(f).op = new()
            out.append((f"L{ln} arith {type(n.op).__name__}->{new.__name__}: {ast.unparse(n)[:70]}", m))
        elif isinstance(n, ast.AugAssign) and type(n.op) in BIN_SWAP:
            new = BIN_SWAP[type(n.op)]

            def m(f, i=i, new=new):
                at(i)(f).op = new()
            out.append((f"L{ln} aug {type(n.op).__name__}->{new.__name__}: {ast.unparse(n)[:70]}", m))
        elif isinstance(n, ast.Constant) and not isinstance(n.value, str) and n.value is not None and n.value is not Ellipsis:
            if isinstance(n.value, bool):
                vals = [not n.value]
            elif isinstance(n.value, int) and -2 <= n.value <= 3:
                vals = [n.value + 1] + ([n.value - 1] if n.value > 0 else [])
            elif isinstance(n.value, float):
                vals = [n.value + 1.0 if n.value == 0.0 else n.value * 2]
            else:
                vals = []
            for v in vals:
                def m(f, i=i, v=v):
                    at(i)(f).value = v
                out.append((f"L{ln} const {n.value!r}->{v!r}", m))
        elif isinstance(n, ast.Attribute) and n.attr in ATTR_SWAP:
            def m(f, i=i):
                x = at(i)(f)
                x.attr = ATTR_SWAP[x.attr]
            out.append((f"L{ln} attr {n.attr}->{ATTR_SWAP[n.attr]}: {ast.unparse(n)[:70]}", m))
        elif isinstance(n, ast.Call):
            for k, kw in enumerate(n.keywords):
                if kw.arg is None:
                    continue

                def m(f, i=i, k=k):
                    del at(i)(f).keywords[k]
                out.append((f"L{ln} drop-kw {kw.arg}= in {ast.unparse(n.func)[:50]}(...)", m))
            if len(n.args) >= 2 and not any(isinstance(a, ast.Starred) for a in n.args[:2]):
                def m(f, i=i):
                    x = at(i)(f)
                    x.args[0], x.args[1] = x.args[1], x.args[0]
                out.append((f"L{ln} swap-args in {ast.unparse(n)[:70]}", m))
        elif isinstance(n, ast.If):
            def m(f, i=i):
                x = at(i)(f)
                x.test = ast.UnaryOp(op=ast.Not(), operand=x.test)
            out.append((f"L{ln} negate-if: {ast.unparse(n.test)[:70]}", m))
        elif isinstance(n, ast.IfExp):
            def m(f, i=i):
                x = at(i)(f)
                x.body, x.orelse = x.orelse, x.body
            out.append((f"L{ln} swap-ifexp: {ast.unparse(n)[:70]}", m))
        # statement-level
        if isinstance(n, (ast.Continue, ast.Break, ast.Raise)):
            def m(f, i=i):
                x = at(i)(f)
                x.__class__ = ast.Pass
            out.append((f"L{ln} drop-{type(n).__name__.lower()}", m))
        elif isinstance(n, ast.Expr) and isinstance(n.value, ast.Call) and id(n) not in skip:
            def m(f, i=i):
                x = at(i)(f)
                x.__class__ = ast.Pass
            out.append((f"L{ln} drop-stmt: {ast.unparse(n)[:70]}", m))
        elif isinstance(n, ast.AugAssign) or (isinstance(n, ast.Assign) and all(isinstance(t, (ast.Attribute, ast.Subscript)) for t in n.targets)):
            def m(f, i=i):
                x = at(i)(f)
                x.__class__ = ast.Pass
            out.append((f"L{ln} drop-store: {ast.unparse(n)[:70]}", m))
    return out


def _find(tree: ast.Module, qual: List[str]):
    body = tree.body
    node = None
    for part in qual:
        if part == "<locals>":
            continue
        node = next((x for x in body if isinstance(x, (ast.FunctionDef, ast.ClassDef, ast.AsyncFunctionDef)) and x.name == part), None)
        if node is None:
            return None
        body = node.body
    return node


def _job(job) -> Dict[str, Any]:
    pids, relpath, modname, qual, idx = job
    root = repo_root()
    path = os.path.join(root, relpath)
    text = open(path, encoding="utf-8").read()
    tree = ast.parse(text)
    fn = _find(tree, qual)
    desc, mut = mutants_of(fn)[idx]
    mut(fn)
    ast.fix_missing_locations(tree)
    try:
        new = ast.unparse(tree)
        ast.parse(new)
    except Exception as exc:  # pragma: no cover
        return {"desc": desc, "status": "bad", "detail": str(exc)}
    src = SourceSet.load(root, {relpath: new})
    status, keys, errs, by = "silent", [], [], []
    for pid in pids.split(","):
        ctx, err = run_rules(pid, "quick", 0, src)
        known = open_known(pid)
        k = [f.key for f in (ctx.findings if ctx else []) if f.key not in known]
        if k:
            status = "killed"
            keys += k[:2]
            by.append(pid)
            break
        if err:
            errs.append(f"{pid}: {err[:120]}")
    if status != "killed" and errs:
        status = "error"
    return {"fn": ".".join(qual), "file": relpath, "desc": desc, "status": status, "keys": keys[:3], "err": "; ".join(errs)[:200], "by": by, "pids": pids}


def main() -> int:
    ap = argparse.ArgumentParser()
    ap.add_argument("pid")
    ap.add_argument("--jobs", type=int, default=16)
    ap.add_argument("--only", default=None)
    ap.add_argument("--limit", type=int, default=0)
    ap.add_argument("--out", default=None)
    ap.add_argument("--union", action="store_true", help="a mutant counts as reported if ANY property whose rules analyse the function reports it")
    a = ap.parse_args()
    src = SourceSet.load(repo_root())
    all_pids = [f"C{i:02d}" for i in range(1, 21)]
    owners: Dict[str, List[str]] = {}
    ctx = None
    for pid in (all_pids if a.pid == "all" or a.union else [a.pid]):
        c, err = run_rules(pid, "quick", 0, src)
        if err:
            print("clean tree does not pass:", pid, err)
            return 2
        for qn in c.functions:
            owners.setdefault(qn, []).append(pid)
        if pid == a.pid or a.pid == "all":
            ctx = c
    if a.pid != "all":
        owners = {qn: ps for qn, ps in owners.items() if a.pid in ps}
        for qn in owners:  # the property's own check first
            owners[qn] = [a.pid] + [x for x in owners[qn] if x != a.pid]
    jobs = []
    for qn in sorted(owners):
        if a.only and a.only not in qn:
            continue
        fi = ctx.index.functions.get(qn) or ctx.index.functions.get("perception_eval." + qn)
        if fi is None:
            continue
        rel = fi.module.relpath
        full = fi.qualname
        modname = fi.module.name
        qual = full[len(modname) + 1:].split(".")
        tree = ast.parse(fi.module.text)
        fn = _find(tree, qual)
        if fn is None or not isinstance(fn, (ast.FunctionDef, ast.AsyncFunctionDef)):
            continue
        n = len(mutants_of(fn))
        for i in range(n):
            jobs.append((",".join(owners[qn]), rel, modname, qual, i))
    if a.limit:
        jobs = jobs[: a.limit]
    print(f"{a.pid}: {len(owners)} functions analysed by the rules, {len(jobs)} mutants")
    with ProcessPoolExecutor(max_workers=a.jobs) as ex:
        res = list(ex.map(_job, jobs, chunksize=4))
    tot = {"killed": 0, "error": 0, "silent": 0, "bad": 0}
    for r in res:
        tot[r["status"]] += 1
    print(tot)
    for r in res:
        if r["status"] == "silent":
            print(f"SILENT {r['fn']} [{r['pids']}]: {r['desc']}")
    for r in res:
        if r["status"] == "error":
            print(f"ERROR  {r['fn']} [{r['pids']}]: {r['desc']} :: {r['err'][:110]}")
    if a.out:
        json.dump({"totals": tot, "results": res}, open(a.out, "w"), indent=1)
    return 0


if __name__ == "__main__":
    sys.exit(main())
