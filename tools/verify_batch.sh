#!/bin/bash
# usage: tools/verify_batch.sh <src_root> <res_dir> <jobs> <pid>...   -- verify every <src_root>/<pid>/{1,2,3} with verify_seed2.sh
ROOT=$1; RES=$2; J=$3; shift 3
mkdir -p $RES
for P in "$@"; do for k in 1 2 3; do [ -f $ROOT/$P/$k/patch.diff ] && echo "$P $k"; done; done | xargs -P $J -L 1 bash -c 'sleep $((RANDOM % 5)); /verif/tools/verify_seed2.sh '$ROOT'/$0/$1 '$RES'/$0-$1.txt'
for P in "$@"; do for k in 1 2 3; do [ -f $RES/$P-$k.txt ] && echo "$P-$k $(grep -E "^demo_with" $RES/$P-$k.txt | cut -c1-120) $(grep DETECTED_BY $RES/$P-$k.txt)"; done; done
