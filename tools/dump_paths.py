"""usage: [VERIF_REPO=<tree>] dump_paths.py <qualname> [bool]  -- print the enumerated paths of one function (development aid)"""
import sys; sys.path.insert(0, '/verif')
from sa.main import run_rules
from sa.source import SourceSet, repo_root
from sa.paths import strip_v, U
from rules.common import enum_paths, S
import sa.main as M
src = SourceSet.load(repo_root(), {})
from sa.report import Ctx
ctx = Ctx('C01', 'quick', 0, src, quiet=True)
fi = ctx.func(sys.argv[1])
for p in enum_paths(ctx, fi, bool_returns=len(sys.argv) > 2):
    print("PATH", p.exit, "ret=", S(p.retval) if p.retval is not None else None)
    print("   facts:", {strip_v(k): v for k, v in p.facts.items()})
    for e in p.effects:
        print("   ", e.kind, strip_v(e.recv or ""), e.name, S(e.value) if e.value is not None else "", strip_v(e.text or "")[:100])
