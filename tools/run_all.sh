#!/bin/bash
# run every claimed check (default quick) on the current tree; print one line each; exit 1 if any is not OK
TIER=${1:-quick}; BAD=0
for P in $(/venv/bin/python -c "import json;print(' '.join(c['property_id'] for c in json.load(open('/verif/MANIFEST.json'))['checks']))"); do
  O=$(./check $P --tier $TIER 2>&1); RC=$?
  echo "$P rc=$RC $(echo "$O" | grep -E '^(OK|VIOLATION|ANALYSIS-ERROR)' | head -2 | cut -c1-220)"
  [ $RC -ne 0 ] && BAD=1
done
exit $BAD
