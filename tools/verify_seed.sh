#!/bin/bash
# usage: tools/verify_seed.sh <dir with patch.diff + demo.py> [--no-suite]
# 1. confirms in a scratch worktree: demo fails with the patch, suite passes with it, demo passes without it
# 2. applies the patch to /repo, runs every claimed check (quick), reverts /repo
set -u
D="$1"; NOSUITE="${2:-}"
W=/tmp/vw_$$
git -C /repo worktree add -q --detach $W HEAD || exit 3
cd $W
if ! git apply "$D/patch.diff"; then echo "PATCH-DOES-NOT-APPLY"; git -C /repo worktree remove --force $W; exit 3; fi
PYTHONPATH=$W/perception_eval timeout 600 /venv/bin/python "$D/demo.py" > /tmp/vw_demo_with.log 2>&1; RC_WITH=$?
if [ "$NOSUITE" != "--no-suite" ]; then
  PYTHONPATH=$W/perception_eval timeout 1200 /venv/bin/python -m pytest -q -p no:cacheprovider --timeout=900 -n 8 > /tmp/vw_suite.log 2>&1; RC_SUITE=$?
  SUITE=$(tail -1 /tmp/vw_suite.log)
else RC_SUITE=skipped; SUITE=skipped; fi
git checkout -q -- .
PYTHONPATH=$W/perception_eval timeout 600 /venv/bin/python "$D/demo.py" > /tmp/vw_demo_without.log 2>&1; RC_WITHOUT=$?
cd /verif
git -C /repo worktree remove --force $W
echo "demo_with_patch_rc=$RC_WITH demo_without_patch_rc=$RC_WITHOUT suite_rc=$RC_SUITE suite='$SUITE'"
# checks on /repo itself
git -C /repo apply "$D/patch.diff" || { echo "cannot apply to /repo"; exit 3; }
DET=""
for P in $(/venv/bin/python -c "import json;print(' '.join(c['property_id'] for c in json.load(open('/verif/MANIFEST.json'))['checks']))"); do
  OUT=$(./check $P --no-evidence 2>&1); RC=$?
  if [ $RC -eq 1 ]; then DET="$DET $P"; echo "$OUT" | grep -A2 "^VIOLATION" | head -6; fi
  if [ $RC -eq 2 ]; then echo "  $P: ANALYSIS-ERROR $(echo "$OUT" | grep ANALYSIS-ERROR | cut -c1-200)"; fi
done
git -C /repo checkout -q -- .
echo "DETECTED_BY:$DET"
