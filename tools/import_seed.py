"""Import a verified seeded change: tools/import_seed.py <pid> <k> <result file> [src_root=/tmp/seed_out] [new_k]"""
import json, os, re, shutil, sys
pid, k, res = sys.argv[1], sys.argv[2], sys.argv[3]
root = sys.argv[4] if len(sys.argv) > 4 else "/tmp/seed_out"
src = f"{root}/{pid}/{k}"
nk = sys.argv[5] if len(sys.argv) > 5 else k
txt = open(res).read()
m = re.search(r"demo_with_patch_rc=(\S+) demo_without_patch_rc=(\S+) suite_rc=(\S+) suite='([^']*)'", txt)
det = re.search(r"DETECTED_BY:(.*)", txt)
assert m, res
ok = m.group(1) != "0" and m.group(2) == "0" and m.group(3) == "0"
name = f"{pid}-{nk}"
dst = f"/verif/seeded/{name}"
os.makedirs(dst, exist_ok=True)
shutil.copy(f"{src}/patch.diff", f"{dst}/patch.diff")
shutil.copy(f"{src}/demo.py", f"{dst}/demo.py")
viol = re.findall(r"rule=(\S+) construct=(\S+) instance=(.*)", txt)
meta = {
    "id": name,
    "property": pid,
    "origin": "independent sub-agent given only the property text and a scratch worktree",
    "description": open(f"{src}/meta.txt").read().strip(),
    "confirmed": {
        "existing_suite_with_change": m.group(4),
        "demo_with_change_exit": int(m.group(1)),
        "demo_without_change_exit": int(m.group(2)),
        "how": "scratch git worktree of /repo HEAD: git apply patch.diff; PYTHONPATH=<wt>/perception_eval /venv/bin/python demo.py; pytest -q -n 4 (110 tests); git checkout; demo.py again",
        "valid": ok,
    },
    "checks_run": "every claimed check, quick tier, VERIF_REPO=<patched worktree> ./check <id> --no-evidence",
    "detected_by": det.group(1).split() if det else [],
    "reported": [{"rule": r, "construct": c, "instance": i.strip()} for r, c, i in viol][:6],
}
json.dump(meta, open(f"{dst}/meta.json", "w"), indent=1)
print(name, "valid" if ok else "INVALID", meta["detected_by"])
