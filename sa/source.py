"""SourceSet: the parsed working tree of the package under analysis.

Every check builds one SourceSet from the *current* working tree
(``$VERIF_REPO`` or /repo).  The self-test overlays mutated texts in memory.
Nothing from the analysed package is ever imported or executed.
"""
from __future__ import annotations

import ast
import hashlib
import os
from typing import Dict, Iterable, Optional

PKG = "perception_eval"


def repo_root() -> str:
    return os.environ.get("VERIF_REPO", "/repo")


def pkg_dir(root: Optional[str] = None) -> str:
    return os.path.join(root or repo_root(), "perception_eval", "perception_eval")


class AnalysisError(Exception):
    """The analysis cannot give a verdict (anchor vanished, unknown idiom).

    Mapped to exit code 2 – never a violation and never a pass.
    """


# parent links live in a side table (an attribute on the nodes would drag the whole
# module into every copy of a sub-expression)
PARENTS: Dict[int, ast.AST] = {}


def parent_of(node: ast.AST) -> Optional[ast.AST]:
    return PARENTS.get(id(node))


class Module:
    __slots__ = ("name", "path", "relpath", "text", "tree", "is_pkg", "digest")

    def __init__(self, name: str, path: str, relpath: str, text: str, is_pkg: bool):
        self.name = name
        self.path = path
        self.relpath = relpath
        self.text = text
        self.is_pkg = is_pkg
        self.digest = hashlib.sha256(text.encode()).hexdigest()[:16]
        try:
            self.tree = ast.parse(text, filename=path)
        except SyntaxError as exc:  # the tree must at least compile
            raise AnalysisError(f"syntax error in {relpath}: {exc}") from exc
        from .normalise import normalise_module

        normalise_module(self.tree, name)
        for node in ast.walk(self.tree):
            for child in ast.iter_child_nodes(node):
                PARENTS[id(child)] = node


class SourceSet:
    def __init__(self, modules: Dict[str, Module], root: str):
        self.modules = modules
        self.root = root

    @classmethod
    def load(cls, root: Optional[str] = None, overlay: Optional[Dict[str, str]] = None) -> "SourceSet":
        """Parse every module of the package.  ``overlay`` maps relpath -> text."""
        root = root or repo_root()
        base = pkg_dir(root)
        if not os.path.isdir(base):
            raise AnalysisError(f"package directory not found: {base}")
        modules: Dict[str, Module] = {}
        for dirpath, dirnames, filenames in os.walk(base):
            dirnames[:] = sorted(d for d in dirnames if d != "__pycache__")
            for fn in sorted(filenames):
                if not fn.endswith(".py"):
                    continue
                path = os.path.join(dirpath, fn)
                rel = os.path.relpath(path, root)
                sub = os.path.relpath(path, base)[:-3].replace(os.sep, ".")
                is_pkg = fn == "__init__.py"
                if is_pkg:
                    sub = sub[: -len("__init__")].rstrip(".")
                name = PKG + ("." + sub if sub else "")
                if overlay and rel in overlay:
                    text = overlay[rel]
                else:
                    with open(path, encoding="utf-8") as fh:
                        text = fh.read()
                modules[name] = Module(name, path, rel, text, is_pkg)
        if len(modules) < 40:
            raise AnalysisError(f"only {len(modules)} modules found under {base}")
        return cls(modules, root)

    def module(self, name: str) -> Module:
        if name not in self.modules:
            raise AnalysisError(f"anchor module vanished: {name}")
        return self.modules[name]

    def by_relpath(self, rel: str) -> Module:
        for m in self.modules.values():
            if m.relpath == rel or m.relpath.endswith(rel):
                return m
        raise AnalysisError(f"anchor file vanished: {rel}")

    def __iter__(self) -> Iterable[Module]:
        return iter(self.modules.values())
