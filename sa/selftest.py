"""Self-test battery (thorough tier): in-memory variants of the *current* tree.

A *breaking* variant edits one rule instance so that the property is broken; the
rules must report it.  A *benign* variant is a behaviour-preserving refactor; the
rules must stay silent (no finding, no analysis error).  A battery failure makes
the run analysis-broken (exit 2), never a violation.  Variants whose anchor text
no longer exists in the current tree are skipped and listed.
"""
from __future__ import annotations

import importlib
import os
import random
from concurrent.futures import ProcessPoolExecutor
from typing import Any, Dict, List, Tuple

from .report import open_known
from .source import AnalysisError, SourceSet, repo_root


def _apply(edits: List[Tuple[str, str, str]], root: str) -> Dict[str, str] | None:
    overlay: Dict[str, str] = {}
    for rel, old, new in edits:
        path = os.path.join(root, "perception_eval", "perception_eval", rel)
        key = os.path.relpath(path, root)
        if key in overlay:
            text = overlay[key]
        else:
            try:
                with open(path, encoding="utf-8") as fh:
                    text = fh.read()
            except OSError:
                return None
        if text.count(old) != 1:
            return None
        overlay[key] = text.replace(old, new)
    return overlay


def _one(job) -> Dict[str, Any]:
    pid, idx, seed = job
    from .main import run_rules

    mod = importlib.import_module(f"selftest.{pid}")
    v = mod.VARIANTS[idx]
    root = repo_root()
    overlay = _apply(v["edits"], root)
    if overlay is None:
        return {"name": v["name"], "kind": v["kind"], "status": "skipped"}
    try:
        src = SourceSet.load(root, overlay)
    except AnalysisError as exc:
        return {"name": v["name"], "kind": v["kind"], "status": "bad-variant", "detail": str(exc)}
    ctx, err = run_rules(pid, "quick", seed, src)
    known = open_known(pid)
    keys = [f.key for f in (ctx.findings if ctx else []) if f.key not in known]
    want = v.get("rule")
    hit = [k for k in keys if want is None or k.startswith(want)]
    return {"name": v["name"], "kind": v["kind"], "status": "ran", "keys": keys, "hit": hit, "error": err}


def run_battery(pid: str, seed: int = 0) -> Dict[str, Any]:
    try:
        mod = importlib.import_module(f"selftest.{pid}")
    except ModuleNotFoundError:
        return {"breaking": 0, "breaking_detected": 0, "benign": 0, "benign_silent": 0, "skipped": [], "failed": [], "variants": []}
    jobs = [(pid, i, seed) for i in range(len(mod.VARIANTS))]
    random.Random(seed).shuffle(jobs)
    workers = min(16, max(1, len(jobs)))
    with ProcessPoolExecutor(max_workers=workers) as ex:
        results = list(ex.map(_one, jobs))
    out = {"breaking": 0, "breaking_detected": 0, "benign": 0, "benign_silent": 0, "skipped": [], "failed": [], "variants": []}
    for r in sorted(results, key=lambda r: r["name"]):
        if r["status"] == "skipped":
            out["skipped"].append(r["name"])
            continue
        if r["status"] == "bad-variant":
            out["failed"].append(f"{r['name']}: variant does not parse ({r.get('detail')})")
            continue
        if r["kind"] == "break":
            out["breaking"] += 1
            if r["hit"]:
                out["breaking_detected"] += 1
                out["variants"].append({"name": r["name"], "kind": "break", "reported": r["hit"][:3]})
            else:
                out["failed"].append(f"breaking variant missed: {r['name']} (keys={r['keys'][:3]}, error={str(r['error'])[:160]})")
        else:
            out["benign"] += 1
            if not r["keys"] and not r["error"]:
                out["benign_silent"] += 1
                out["variants"].append({"name": r["name"], "kind": "benign", "reported": []})
            else:
                out["failed"].append(f"benign variant flagged: {r['name']} (keys={r['keys'][:3]}, error={str(r['error'])[:160]})")
    return out
