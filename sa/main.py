"""./check driver: runs the rules of one property on the current working tree."""
from __future__ import annotations

import argparse
import importlib
import json
import os
import sys
import time
import traceback

HERE = os.path.dirname(os.path.abspath(__file__))
VERIF = os.path.dirname(HERE)
if VERIF not in sys.path:
    sys.path.insert(0, VERIF)

from sa.report import Ctx, open_known  # noqa: E402
from sa.source import AnalysisError, SourceSet  # noqa: E402

PIDS = [f"C{i:02d}" for i in range(1, 21)]


def run_rules(pid: str, tier: str, seed: int, src: SourceSet, quiet: bool = True):
    """Returns (ctx, error_or_None).  Never raises."""
    ctx = None
    try:
        ctx = Ctx(pid, tier, seed, src, quiet=quiet)
        mod = importlib.import_module(f"rules.{pid}")
        ctx.explanation = getattr(mod, "EXPLANATION", "")
        mod.run(ctx)
        if ctx.errors:
            return ctx, "; ".join(ctx.errors)
        return ctx, None
    except AnalysisError as exc:
        return ctx, f"{exc}"
    except RecursionError as exc:  # pragma: no cover
        return ctx, f"recursion limit in checker: {exc}"
    except Exception as exc:  # any checker bug is analysis-broken, never a violation
        tb = traceback.format_exc(limit=6)
        return ctx, f"checker exception {type(exc).__name__}: {exc}\n{tb}"


def write_evidence(pid: str, ev: dict) -> None:
    d = os.path.join(VERIF, "evidence")
    os.makedirs(d, exist_ok=True)
    tmp = os.path.join(d, f".{pid}.json.tmp{os.getpid()}")
    with open(tmp, "w") as fh:
        json.dump(ev, fh, indent=1, sort_keys=False, default=str)
    os.replace(tmp, os.path.join(d, f"{pid}.json"))


def safe_name(s: str) -> str:
    return "".join(c if c.isalnum() or c in "-_." else "_" for c in s)[:150]


def main(argv=None) -> int:
    ap = argparse.ArgumentParser(prog="check")
    ap.add_argument("pid")
    ap.add_argument("--tier", default=os.environ.get("VERIF_TIER", "quick"), choices=["quick", "thorough"])
    ap.add_argument("--replay", default=None)
    ap.add_argument("--no-evidence", action="store_true")
    ap.add_argument("--no-selftest", action="store_true")
    args = ap.parse_args(argv)
    pid = args.pid
    if pid not in PIDS:
        print(f"ANALYSIS-ERROR property={pid} unknown property id")
        return 2
    try:
        seed = int(os.environ.get("VERIF_SEED", "0"))
    except ValueError:
        seed = 0
    t0 = time.time()
    try:
        src = SourceSet.load()
    except AnalysisError as exc:
        print(f"ANALYSIS-ERROR property={pid} {exc}")
        return 2
    ctx, err = run_rules(pid, args.tier, seed, src, quiet=False)

    selftest = None
    if err is None and args.tier == "thorough" and not args.replay and not args.no_selftest:
        try:
            from sa import selftest as st

            selftest = st.run_battery(pid, seed)
        except Exception as exc:  # pragma: no cover
            err = f"self-test battery crashed: {type(exc).__name__}: {exc}"
        if selftest is not None:
            ctx.extra["selftest"] = selftest
            if selftest["failed"]:
                err = "self-test battery: " + "; ".join(selftest["failed"][:5])

    known = open_known(pid)
    findings = list(ctx.findings) if ctx is not None else []
    if args.replay:
        try:
            with open(args.replay) as fh:
                want = json.load(fh).get("key")
        except Exception as exc:
            print(f"ANALYSIS-ERROR property={pid} cannot read replay file: {exc}")
            return 2
        findings = [f for f in findings if f.key == want]
        if err is None and not findings:
            print(f"REPLAY property={pid} key={want}: instance no longer violates on the current tree")
            return 0

    new = [f for f in findings if f.key not in known]
    old = [f for f in findings if f.key in known]
    for f in old:
        print(f"KNOWN-FINDING: property={pid} {f.key} -- {known[f.key].get('what', f.detail)}")
    rc = 0
    if new:
        rc = 1
        os.makedirs(os.path.join(VERIF, "replay", pid), exist_ok=True)
        for f in new:
            rp = os.path.join(VERIF, "replay", pid, safe_name(f.key) + ".json")
            with open(rp, "w") as fh:
                json.dump(f.to_json(), fh, indent=1)
            print(f"VIOLATION property={pid} replay={rp}")
            print(f"  rule={f.rule} construct={f.construct} instance={f.instance}")
            print(f"  at {f.file}:{f.line}: {f.detail}")
            if f.expected or f.found:
                print(f"  expected: {f.expected}\n  found:    {f.found}")
    if err is not None:
        # an unrecognised shape never hides a positively recognised violation
        print(f"ANALYSIS-ERROR property={pid} {err}")
        if rc == 0:
            rc = 2
    if ctx is not None and not args.no_evidence and not args.replay:
        status = {0: "held", 1: "violation", 2: "analysis-error"}[rc]
        write_evidence(pid, ctx.evidence(len(new), len(old), status, err or ""))
    if ctx is not None and rc == 0:
        n = sum(r["instances"] for r in ctx.rules.values())
        st = ""
        if selftest is not None:
            st = f", self-test {selftest['breaking_detected']}/{selftest['breaking']} breaking detected, {selftest['benign_silent']}/{selftest['benign']} benign silent, {len(selftest['skipped'])} skipped"
        print(f"OK property={pid} tier={args.tier} rule-instances={n} rules={len(ctx.rules)} functions={len(ctx.functions)}{st} wall={time.time()-t0:.2f}s")
        for m in ctx.infos[:12]:
            print(f"  INFO {m}")
    return rc


if __name__ == "__main__":
    try:
        rc = main()
    except SystemExit as exc:
        rc = exc.code if isinstance(exc.code, int) else 2
    except BaseException as exc:  # pragma: no cover
        print(f"ANALYSIS-ERROR checker crashed: {type(exc).__name__}: {exc}")
        rc = 2
    sys.stdout.flush()
    os._exit(rc)
