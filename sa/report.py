"""Run context, findings, evidence and known-findings plumbing."""
from __future__ import annotations

import ast
import json
import os
import time
from dataclasses import dataclass, field
from typing import Any, Dict, List, Optional

from .index import FuncInfo, Index, Resolver
from .source import AnalysisError, SourceSet

VERIF_DIR = os.path.dirname(os.path.dirname(os.path.abspath(__file__)))


@dataclass
class Finding:
    rule: str
    construct: str  # qualified function / class / table
    instance: str  # the concrete instance inside the construct (keyword, row, entry)
    detail: str
    file: str = ""
    line: int = 0
    expected: str = ""
    found: str = ""

    @property
    def key(self) -> str:
        return f"{self.rule}:{self.construct}:{self.instance}"

    def to_json(self) -> Dict[str, Any]:
        return {
            "key": self.key,
            "rule": self.rule,
            "construct": self.construct,
            "instance": self.instance,
            "detail": self.detail,
            "file": self.file,
            "line": self.line,
            "expected": self.expected,
            "found": self.found,
        }


class Ctx:
    """Everything a property module needs, and everything the evidence file reports."""

    def __init__(self, pid: str, tier: str, seed: int, src: SourceSet, quiet: bool = False):
        self.pid = pid
        self.tier = tier
        self.seed = seed
        self.src = src
        self.index = Index(src)
        self.resolver = Resolver(self.index)
        from .normalise import reorder_keywords

        self.kw_reordered = reorder_keywords(self.index, self.resolver)
        self.quiet = quiet
        self.findings: List[Finding] = []
        self.infos: List[str] = []
        self.rules: Dict[str, Dict[str, int]] = {}
        self.samples: List[Any] = []
        self.functions: Dict[str, str] = {}
        self.assumptions: List[str] = []
        self.nontrivial: set = set()
        self.paths_enumerated = 0
        self.table_rows = 0
        self.call_sites = 0
        self.explanation = ""
        self.exhaustive: Optional[bool] = None
        self.extra: Dict[str, Any] = {}
        self.errors: List[str] = []
        self.t0 = time.time()

    def run(self, fn, *args, **kw):
        """Run one sub-rule; an AnalysisError (or a checker bug) in it does not stop the others."""
        try:
            return fn(self, *args, **kw)
        except AnalysisError as exc:
            self.errors.append(f"[{getattr(fn, '__name__', '?')}] {exc}")
        except RecursionError as exc:
            self.errors.append(f"[{getattr(fn, '__name__', '?')}] recursion limit: {exc}")
        except Exception as exc:
            import traceback

            tb = traceback.format_exc(limit=5).strip().splitlines()
            self.errors.append(f"[{getattr(fn, '__name__', '?')}] checker exception {type(exc).__name__}: {exc} :: {' | '.join(tb[-4:])}")
        return None

    # -- bookkeeping ------------------------------------------------------------
    def _rule(self, rule: str) -> Dict[str, int]:
        return self.rules.setdefault(rule, {"instances": 0, "satisfied": 0, "violated": 0})

    def touch(self, fi: FuncInfo) -> FuncInfo:
        seg = ast.get_source_segment(fi.module.text, fi.node) or ""
        import hashlib

        self.functions[fi.qualname] = hashlib.sha256(seg.encode()).hexdigest()[:12]
        return fi

    def func(self, qualname: str) -> FuncInfo:
        return self.touch(self.index.func(qualname))

    def ok(self, rule: str, construct: str, instance: str, sample: Any = None, nontrivial: bool = True) -> None:
        r = self._rule(rule)
        r["instances"] += 1
        r["satisfied"] += 1
        if nontrivial:
            self.nontrivial.add(f"{rule}:{construct}:{instance}")
        if sample is not None and len(self.samples) < 40:
            self.samples.append({"rule": rule, "construct": construct, "instance": instance, "verdict": "ok", "case": sample})

    def violate(
        self,
        rule: str,
        construct: str,
        instance: str,
        detail: str,
        fi: Optional[FuncInfo] = None,
        node: Optional[ast.AST] = None,
        expected: str = "",
        found: str = "",
        file: str = "",
    ) -> None:
        r = self._rule(rule)
        r["instances"] += 1
        r["violated"] += 1
        self.nontrivial.add(f"{rule}:{construct}:{instance}")
        line = getattr(node, "lineno", 0) or (fi.node.lineno if fi is not None else 0)
        f = Finding(rule, construct, instance, detail, file or (fi.module.relpath if fi else ""), line, expected, found)
        if all(x.key != f.key for x in self.findings):
            self.findings.append(f)

    def check(self, cond: bool, rule: str, construct: str, instance: str, detail: str, **kw) -> bool:
        if cond:
            self.ok(rule, construct, instance, kw.pop("sample", None))
        else:
            kw.pop("sample", None)
            self.violate(rule, construct, instance, detail, **kw)
        return cond

    def info(self, msg: str) -> None:
        if msg not in self.infos:
            self.infos.append(msg)

    def require(self, cond: bool, msg: str) -> None:
        """An anchor or idiom the rule depends on; failing it is analysis-broken, not a violation."""
        if not cond:
            raise AnalysisError(msg)

    def min_instances(self, rule: str, n: int) -> None:
        got = self.rules.get(rule, {}).get("instances", 0)
        if got < n:
            raise AnalysisError(f"rule {rule}: only {got} instances recognised, hand-confirmed minimum is {n}")

    # -- evidence ------------------------------------------------------------------
    def evidence(self, violations: int, known: int, status: str, error: str = "") -> Dict[str, Any]:
        evaluations = sum(r["instances"] for r in self.rules.values())
        cov: Dict[str, Any] = {
            "explanation": self.explanation or "see DESIGN.md",
            "evaluations": evaluations,
            "distinct_nontrivial": len(self.nontrivial),
            "rule": "one evaluation = one rule instance (a call site, a decision-table row, a table entry, a formula, "
            "a path obligation) recognised in the current source and decided; distinct_nontrivial counts distinct "
            "(rule, construct, instance) keys whose verdict required analysing a non-empty path/table/expression",
            "samples": self.samples[:40] or [{"note": "no instance recognised"}],
            "obligations": evaluations,
            "discharged": sum(r["satisfied"] for r in self.rules.values()),
            "rules": self.rules,
            "functions_analysed": self.functions,
            "paths_enumerated": self.paths_enumerated,
            "table_rows": self.table_rows,
            "call_sites": self.call_sites,
            "resolver": self.resolver.stats,
            "modules_parsed": len(self.src.modules),
            "infos": self.infos[:60],
            "status": status,
            "known_findings_reported": known,
            "findings": [f.to_json() for f in self.findings],
        }
        if self.exhaustive is not None:
            cov["exhaustive"] = self.exhaustive
        if error:
            cov["analysis_error"] = error
        cov.update(self.extra)
        return {
            "property_id": self.pid,
            "tier": self.tier,
            "seed": self.seed,
            "level": "other",
            "coverage": cov,
            "assumptions": self.assumptions
            or [
                "CPython ast parser",
                "name/import/class/annotation based callee resolution (no type checker available)",
                "numpy / shapely / pyquaternion / nuscenes-devkit calls named by the rules are opaque",
            ],
            "wall_s": round(time.time() - self.t0, 3),
            "violations": violations,
        }


# ----------------------------------------------------------------------------
def load_known() -> List[Dict[str, Any]]:
    p = os.path.join(VERIF_DIR, "known_findings.json")
    if not os.path.exists(p):
        return []
    with open(p) as fh:
        return json.load(fh).get("findings", [])


def open_known(pid: str) -> Dict[str, Dict[str, Any]]:
    return {k["key"]: k for k in load_known() if k.get("property") == pid and k.get("status") == "open"}
