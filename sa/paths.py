"""E3 – finite-domain path enumerator.

A small abstract interpreter over one function (or one loop body).  It enumerates
*all* paths through the statement kinds the package uses, decomposing every test
into atoms (None-ness, truthiness, equality with constants, membership,
isinstance, opaque comparisons / calls keyed by their normalised, substituted
text).  Locals that hold plain expressions are substituted symbolically
(def-use provenance, E5); locals that are mutated in place (containers,
counters) keep their name and every mutation is recorded as an effect.

Over-approximation only: an uninterpretable test forks both ways.
"""
from __future__ import annotations

import ast
import copy
from dataclasses import dataclass, field
from typing import Callable, Dict, Iterable, List, Optional, Sequence, Set, Tuple

from .binder import bind
from .index import ClassInfo, FuncInfo, Index, Resolver
from .source import AnalysisError

MUTATORS = {
    "append", "extend", "insert", "pop", "remove", "sort", "reverse", "clear", "update", "add",
    "discard", "setdefault", "popitem", "__setitem__", "__delitem__",
}

MAX_PATHS = 60000


# ----------------------------------------------------------------------------
def U(e: ast.AST) -> str:
    """Canonical text of an expression."""
    return ast.unparse(e)


def clone(e):
    """Fast structural copy of an AST (expressions only need fields, not positions)."""
    if isinstance(e, ast.AST):
        new = e.__class__.__new__(e.__class__)
        for f in e._fields:
            try:
                v = getattr(e, f)
            except AttributeError:
                continue
            if isinstance(v, list):
                setattr(new, f, [clone(x) for x in v])
            elif isinstance(v, ast.AST):
                setattr(new, f, clone(v))
            else:
                setattr(new, f, v)
        ln = getattr(e, "lineno", None)
        if ln is not None:
            new.lineno = ln
        return new
    return e


def is_none(e: ast.AST) -> bool:
    return isinstance(e, ast.Constant) and e.value is None


@dataclass
class Effect:
    kind: str  # call | aug | store | assign | loop | delete | del
    node: Optional[ast.AST] = None
    recv: str = ""  # receiver text (method calls) / target text
    name: str = ""  # method / function name / operator
    args: List[ast.expr] = field(default_factory=list)
    kwargs: Dict[str, ast.expr] = field(default_factory=dict)
    value: Optional[ast.expr] = None
    body: Optional[List["Path"]] = None
    text: str = ""
    fi: Optional[FuncInfo] = None
    orig: Optional[ast.AST] = None
    pre: Optional[Dict[str, ast.expr]] = None  # loops: env at loop entry
    pre_facts: Optional[Dict[str, bool]] = None

    def __repr__(self) -> str:  # pragma: no cover
        if self.kind == "call":
            return f"call {self.text}"
        if self.kind == "loop":
            return f"loop[{len(self.body or [])} body paths]"
        return f"{self.kind} {self.recv} {self.name} {U(self.value) if self.value is not None else ''}"


class Path:
    __slots__ = ("env", "facts", "conds", "effects", "versions", "exit", "retval", "depth", "nested")

    def __init__(self):
        self.env: Dict[str, ast.expr] = {}
        self.facts: Dict[str, bool] = {}
        self.conds: List[Tuple[str, bool]] = []
        self.effects: List[Effect] = []
        self.versions: Dict[str, int] = {}
        self.exit: Optional[Tuple] = None
        self.retval: Optional[ast.expr] = None
        self.depth = 0
        self.nested: Dict[str, FuncInfo] = {}

    def fork(self) -> "Path":
        q = Path()
        q.env = dict(self.env)
        q.facts = dict(self.facts)
        q.conds = list(self.conds)
        q.effects = list(self.effects)
        q.versions = dict(self.versions)
        q.exit = self.exit
        q.retval = self.retval
        q.depth = self.depth
        q.nested = self.nested
        return q

    # convenience for rules ---------------------------------------------------
    def fact(self, key: str) -> Optional[bool]:
        return self.facts.get(key)

    def calls(self, name: Optional[str] = None, recv: Optional[str] = None) -> List[Effect]:
        out = []
        for e in self.effects:
            if e.kind != "call":
                continue
            if name is not None and e.name != name:
                continue
            if recv is not None and e.recv != recv:
                continue
            out.append(e)
        return out

    def all_effects(self) -> Iterable[Effect]:
        """Effects including those inside summarised loop bodies (flattened)."""
        for e in self.effects:
            yield e
            if e.kind == "loop" and e.body:
                for bp in e.body:
                    yield from bp.all_effects()

    def cond_text(self) -> str:
        return " & ".join(("" if v else "!") + k for k, v in self.conds)


# ----------------------------------------------------------------------------
class _Subst(ast.NodeTransformer):
    def __init__(self, env: Dict[str, ast.expr], versions: Dict[str, int]):
        self.env = env
        self.versions = versions
        self.bound: List[Set[str]] = []

    def visit_Name(self, node: ast.Name):
        if not isinstance(node.ctx, ast.Load):
            return node
        for b in self.bound:
            if node.id in b:
                return node
        if node.id in self.env:
            return clone(self.env[node.id])
        v = self.versions.get(node.id, 0)
        if v:
            return ast.Name(id=f"{node.id}@{v}", ctx=ast.Load())
        return node

    def _comp(self, node):
        names: Set[str] = set()
        for g in node.generators:
            for n in ast.walk(g.target):
                if isinstance(n, ast.Name):
                    names.add(n.id)
        # iterables are evaluated outside the comprehension's scope (first one) – good enough:
        # substitute iters with the outer env, the element with targets bound
        new_gens = []
        self.bound.append(set())
        for g in node.generators:
            it = self.visit(clone(g.iter))
            for n in ast.walk(g.target):
                if isinstance(n, ast.Name):
                    self.bound[-1].add(n.id)
            ifs = [self.visit(clone(i)) for i in g.ifs]
            new_gens.append(ast.comprehension(target=g.target, iter=it, ifs=ifs, is_async=g.is_async))
        if isinstance(node, ast.DictComp):
            res = ast.DictComp(key=self.visit(clone(node.key)), value=self.visit(clone(node.value)), generators=new_gens)
        else:
            res = type(node)(elt=self.visit(clone(node.elt)), generators=new_gens)
        self.bound.pop()
        return res

    visit_ListComp = _comp
    visit_SetComp = _comp
    visit_GeneratorExp = _comp
    visit_DictComp = _comp

    def visit_Lambda(self, node: ast.Lambda):
        names = {a.arg for a in node.args.args + node.args.kwonlyargs + node.args.posonlyargs}
        self.bound.append(names)
        body = self.visit(clone(node.body))
        self.bound.pop()
        return ast.Lambda(args=node.args, body=body)


def _replace_node(root: ast.expr, target: ast.AST, new: ast.expr) -> ast.expr:
    """Copy of root with the node `target` (by identity) replaced by `new`."""

    class R(ast.NodeTransformer):
        def generic_visit(self, node):
            for field, old in ast.iter_fields(node):
                if isinstance(old, list):
                    for i, x in enumerate(old):
                        if x is target:
                            old[i] = new
                        elif isinstance(x, ast.AST):
                            self.generic_visit(x)
                elif old is target:
                    setattr(node, field, new)
                elif isinstance(old, ast.AST):
                    self.generic_visit(old)
            return node

    import copy as _copy

    memo = {id(target): target}
    root2 = _copy.deepcopy(root, memo)  # target keeps its identity inside the copy
    if root2 is target:
        return new
    R().generic_visit(root2)
    return root2


def subst(e: ast.expr, p: Path) -> ast.expr:
    if e is None:
        return None
    return _Subst(p.env, p.versions).visit(clone(e))


# ----------------------------------------------------------------------------
@dataclass
class Options:
    inline: Callable[[FuncInfo], bool] = lambda fi: False
    max_depth: int = 2
    bool_returns: bool = False
    loop_mode: str = "summary"  # summary | unroll
    unroll: int = 3
    record_cond_calls: bool = True
    fork_ifexp: bool = True  # fork on a conditional expression assigned / returned (else keep it symbolic)
    stateful_extra: frozenset = frozenset()  # locals a rule wants to see as a chain of assignments whether or not the function happens to mutate them in place


class Enumerator:
    def __init__(self, index: Index, resolver: Resolver, opts: Optional[Options] = None):
        self.ix = index
        self.rs = resolver
        self.o = opts or Options()
        self.count = 0
        self.unknown_tests: List[str] = []
        self._enum_by_name: Dict[str, Optional[ClassInfo]] = {}
        names: Dict[str, List[ClassInfo]] = {}
        for c in index.classes.values():
            if c.is_enum:
                names.setdefault(c.name, []).append(c)
        for n, cs in names.items():
            self._enum_by_name[n] = cs[0] if len(cs) == 1 else None
        # callables that never return None: every repo definition of that name has a return annotation without Optional / None
        self._never_none_calls: Set[str] = set()
        by_name: Dict[str, List[FuncInfo]] = {}
        for f in index.functions.values():
            by_name.setdefault(f.name, []).append(f)
        for nm, fs in by_name.items():
            ok = True
            for f in fs:
                r = f.node.returns
                if r is None:
                    ok = False
                    break
                t = ast.unparse(r)
                if "Optional" in t or "None" in t or t in ("Any", "object"):
                    ok = False
                    break
            if ok and nm not in ("get", "pop", "__init__"):
                self._never_none_calls.add(nm)
        # enums whose __eq__ compares .value with a str operand (so `"detection" == Task.DETECTION` holds)
        self._str_eq: Dict[str, Dict[str, object]] = {}
        for c in index.classes.values():
            if not c.is_enum:
                continue
            m = c.find_method("__eq__")
            if m is None:
                continue
            src = ast.unparse(m.node)
            if "isinstance(" in src and "str)" in src and ("self.value ==" in src or "== self.value" in src):
                vals = {}
                for name, v in c.enum_members:
                    try:
                        vals[name] = ast.literal_eval(v)
                    except Exception:
                        pass
                self._str_eq[c.qualname] = vals

    # -- public -------------------------------------------------------------------
    def function(self, fi: FuncInfo, env: Optional[Dict[str, ast.expr]] = None, base: Optional[Path] = None) -> List[Path]:
        p = base.fork() if base is not None else Path()
        if env:
            p.env.update(env)
        stateful = self._stateful(fi.node, fi)
        paths = self._block(fi.node.body, [p], fi, stateful)
        for q in paths:
            if q.exit is None:
                q.exit = ("return",)
                q.retval = ast.Constant(value=None)
        self.count += len(paths)
        return paths

    def loop_body(self, fi: FuncInfo, loop: ast.AST, env: Optional[Dict[str, ast.expr]] = None, base: Optional[Path] = None) -> List[Path]:
        """Paths through ONE iteration of ``loop`` (exit kinds: fall / continue / break / return / raise)."""
        p = base.fork() if base is not None else Path()
        if env:
            p.env.update(env)
        stateful = self._stateful(fi.node, fi)
        for n in _target_names(loop.target) if isinstance(loop, ast.For) else []:
            p.env.pop(n, None)
        paths = self._block(loop.body, [p], fi, stateful)
        for q in paths:
            if q.exit is None:
                q.exit = ("fall",)
        self.count += len(paths)
        return paths

    def truth(self, e: ast.expr, p: Path, fi: FuncInfo) -> List[Tuple[Path, bool]]:
        return self._truth(e, p, fi, orig=e)

    # -- statements ---------------------------------------------------------------
    def _stateful(self, fnode: ast.AST, fi: Optional[FuncInfo] = None) -> Set[str]:
        """Locals mutated in place or assigned inside loops: they keep their name.  A local handed to a callee that is going to be inlined and that mutates
        the corresponding parameter in place is mutated, too."""
        cache = self.__dict__.setdefault("_stateful_cache", {})
        key = id(fnode)
        if key in cache:
            return set(cache[key])
        cache[key] = set()  # recursion guard
        out: Set[str] = set()
        from .index import walk_own

        for n in walk_own(fnode):
            if isinstance(n, ast.Call) and fi is not None and not (isinstance(n.func, ast.Attribute) and n.func.attr in MUTATORS):
                try:
                    cands, kind = self.rs.resolve_call(n, fi, count=False)
                except Exception:
                    cands, kind = [], "none"
                if kind == "unique" and len(cands) == 1 and cands[0].name != "__init__" and cands[0].node is not fnode and self.o.inline(cands[0]):
                    callee = cands[0]
                    cs = self._stateful(callee.node, callee)
                    if cs:
                        try:
                            b = bind(n, callee)
                        except Exception:
                            b = None
                        if b is not None and not (b.star_args or b.star_kwargs):
                            for k, v in b.bound.items():
                                if k in cs and isinstance(v, ast.Name):
                                    out.add(v.id)
            if isinstance(n, ast.Call) and isinstance(n.func, ast.Attribute) and n.func.attr in MUTATORS:
                r = n.func.value
                while isinstance(r, (ast.Subscript, ast.Attribute)):
                    r = r.value  # d[k].append(x) mutates the contents of d
                if isinstance(r, ast.Name):
                    out.add(r.id)
            elif isinstance(n, ast.AugAssign):
                t = n.target
                while isinstance(t, (ast.Subscript, ast.Attribute)):
                    t = t.value
                if isinstance(t, ast.Name):
                    out.add(t.id)
            elif isinstance(n, (ast.Assign, ast.AnnAssign)):
                tgts = n.targets if isinstance(n, ast.Assign) else [n.target]
                for t in tgts:
                    # accumulator spelled out: x = x + k
                    if (
                        isinstance(t, ast.Name)
                        and isinstance(n.value, ast.BinOp)
                        and isinstance(n.value.op, (ast.Add, ast.Sub, ast.Mult))
                        and isinstance(n.value.left, ast.Name)
                        and n.value.left.id == t.id
                    ):
                        out.add(t.id)
                    if isinstance(t, ast.Subscript):
                        b = t.value
                        while isinstance(b, (ast.Subscript, ast.Attribute)):
                            b = b.value
                        if isinstance(b, ast.Name):
                            out.add(b.id)
            elif isinstance(n, ast.Delete):
                for t in n.targets:
                    b = t
                    while isinstance(b, (ast.Subscript, ast.Attribute)):
                        b = b.value
                    if isinstance(b, ast.Name):
                        out.add(b.id)
        out |= set(self.o.stateful_extra)
        out.discard("self")
        cache[key] = set(out)
        return out

    def _block(self, stmts: Sequence[ast.stmt], paths: List[Path], fi: FuncInfo, stateful: Set[str]) -> List[Path]:
        for st in stmts:
            live = [p for p in paths if p.exit is None]
            done = [p for p in paths if p.exit is not None]
            if not live:
                return paths
            new: List[Path] = []
            for p in live:
                new.extend(self._stmt(st, p, fi, stateful))
            paths = done + new
            if len(paths) > MAX_PATHS:
                raise AnalysisError(f"path explosion in {fi.qualname} ({len(paths)} paths)")
        return paths

    def _stmt(self, st: ast.stmt, p: Path, fi: FuncInfo, stateful: Set[str]) -> List[Path]:
        if isinstance(st, (ast.Assign, ast.AnnAssign)):
            if isinstance(st, ast.AnnAssign):
                if st.value is None:
                    return [p]
                targets, value = [st.target], st.value
            else:
                targets, value = st.targets, st.value
            out: List[Path] = []
            for q, v in self._value(value, p, fi):
                if q.exit is not None:
                    out.append(q)
                    continue
                for t in targets:
                    self._assign(t, v, q, fi, stateful, st)
                out.append(q)
            return out
        if isinstance(st, ast.AugAssign):
            self._record_calls(st.value, p, fi)
            v = subst(st.value, p)
            if isinstance(st.target, ast.Name) and st.target.id in p.env:
                # a substituted local / inlined parameter: keep it symbolic
                p.env[st.target.id] = ast.BinOp(left=p.env[st.target.id], op=st.op, right=v)
                return [p]
            tgt = U(subst(_as_load(st.target), p)) if not isinstance(st.target, ast.Name) else st.target.id
            p.effects.append(Effect("aug", st, recv=tgt, name=type(st.op).__name__, value=v, fi=fi))
            b = st.target
            while isinstance(b, (ast.Subscript, ast.Attribute)):
                b = b.value
            if isinstance(b, ast.Name):
                self._bump(p, b.id)
            return [p]
        if isinstance(st, ast.Expr):
            if isinstance(st.value, ast.Constant):
                return [p]
            out = []
            for q, _v in self._value(st.value, p, fi, stmt_call=True):
                out.append(q)
            return out
        if isinstance(st, ast.If):
            out = []
            for q, val in self._truth(st.test, p, fi, orig=st.test):
                out.extend(self._block(st.body if val else st.orelse, [q], fi, stateful))
            return out
        if isinstance(st, ast.Return):
            if st.value is None:
                p.exit = ("return",)
                p.retval = ast.Constant(value=None)
                return [p]
            out = []
            if self.o.bool_returns and p.depth == 0 or getattr(self, "_force_bool", False):
                for q, val in self._truth(st.value, p, fi, orig=st.value):
                    if q.exit is None:
                        q.exit = ("return",)
                        q.retval = ast.Constant(value=val)
                    out.append(q)
                return out
            for q, v in self._value(st.value, p, fi):
                if q.exit is None:
                    q.exit = ("return",)
                    q.retval = v
                out.append(q)
            return out
        if isinstance(st, ast.Raise):
            self._record_calls(st.exc, p, fi) if st.exc is not None and not isinstance(st.exc, ast.Call) else None
            p.exit = ("raise", _exc_name(st.exc))
            return [p]
        if isinstance(st, ast.Assert):
            out = []
            for q, val in self._truth(st.test, p, fi, orig=st.test):
                if not val:
                    q.exit = ("raise", "AssertionError")
                out.append(q)
            return out
        if isinstance(st, (ast.For, ast.While)):
            return self._loop(st, p, fi, stateful)
        if isinstance(st, ast.Continue):
            p.exit = ("continue",)
            return [p]
        if isinstance(st, ast.Break):
            p.exit = ("break",)
            return [p]
        if isinstance(st, (ast.Pass, ast.Import, ast.ImportFrom, ast.Global, ast.Nonlocal)):
            return [p]
        if isinstance(st, (ast.FunctionDef, ast.AsyncFunctionDef, ast.ClassDef)):
            return [p]
        if isinstance(st, ast.With):
            for it in st.items:
                self._record_calls(it.context_expr, p, fi)
                if it.optional_vars is not None:
                    for n in _target_names(it.optional_vars):
                        p.env.pop(n, None)
                        self._bump(p, n)
            return self._block(st.body, [p], fi, stateful)
        if isinstance(st, ast.Try):
            # body paths; a handler may also run after any prefix of the body: over-approximate by
            # running each handler from the state before the body (effects of the partial body unknown)
            out = self._block(st.body, [p.fork()], fi, stateful)
            for h in st.handlers:
                q = p.fork()
                q.conds.append((f"except:{U(h.type) if h.type is not None else '*'}", True))
                if h.name:
                    q.env.pop(h.name, None)
                out.extend(self._block(h.body, [q], fi, stateful))
            if st.orelse:
                out = self._block(st.orelse, out, fi, stateful)
            if st.finalbody:
                fin: List[Path] = []
                for q in out:
                    ex, rv = q.exit, q.retval
                    q.exit = None
                    for r in self._block(st.finalbody, [q], fi, stateful):
                        if r.exit is None:
                            r.exit, r.retval = ex, rv
                        fin.append(r)
                out = fin
            return out
        if isinstance(st, ast.Delete):
            for t in st.targets:
                p.effects.append(Effect("del", st, recv=U(subst(_as_load(t), p)), fi=fi))
                b = t
                while isinstance(b, (ast.Subscript, ast.Attribute)):
                    b = b.value
                if isinstance(b, ast.Name):
                    self._bump(p, b.id)
            return [p]
        raise AnalysisError(f"unsupported statement {type(st).__name__} at {fi.module.relpath}:{st.lineno}")

    def _bump(self, p: Path, name: str) -> None:
        p.versions[name] = p.versions.get(name, 0) + 1

    def _freeze_readers(self, p: Path, stored: str) -> None:
        """A heap location is overwritten: locals whose substituted value still READS that location keep the old value,
        so they become opaque snapshots (`name@k`) instead of text that would now denote the new value."""
        key = strip_v(stored)
        for name, val in list(p.env.items()):
            if val is None or isinstance(val, ast.Name):
                continue
            for n in ast.walk(val):
                if isinstance(n, (ast.Attribute, ast.Subscript)) and strip_v(U(n)) == key:
                    self._bump(p, name)
                    p.env[name] = ast.Name(id=f"{name}@{p.versions[name]}", ctx=ast.Load())
                    break

    def _assign(self, t: ast.expr, v: ast.expr, p: Path, fi: FuncInfo, stateful: Set[str], st: ast.stmt) -> None:
        if isinstance(t, ast.Name):
            if t.id in stateful:
                p.env.pop(t.id, None)
                # x = x + k  is the spelled-out form of  x += k
                if (
                    isinstance(v, ast.BinOp)
                    and isinstance(v.op, (ast.Add, ast.Sub, ast.Mult))
                    and isinstance(v.left, ast.Name)
                    and strip_v(v.left.id) == t.id
                    and not any(isinstance(n, ast.Name) and strip_v(n.id) == t.id for n in ast.walk(v.right))
                ):
                    p.effects.append(Effect("aug", st, recv=t.id, name=type(v.op).__name__, value=v.right, fi=fi))
                    self._bump(p, t.id)
                    return
                self._bump(p, t.id)
                p.effects.append(Effect("assign", st, recv=t.id, value=v, fi=fi))
            else:
                p.env[t.id] = v
            return
        if isinstance(t, (ast.Tuple, ast.List)):
            if isinstance(v, (ast.Tuple, ast.List)) and len(v.elts) == len(t.elts) and not any(isinstance(x, ast.Starred) for x in t.elts):
                for tt, vv in zip(t.elts, v.elts):
                    self._assign(tt, vv, p, fi, stateful, st)
            else:
                for i, tt in enumerate(t.elts):
                    if isinstance(tt, ast.Starred):
                        self._assign(tt.value, ast.Subscript(value=v, slice=ast.Slice(lower=ast.Constant(value=i)), ctx=ast.Load()), p, fi, stateful, st)
                    else:
                        self._assign(tt, ast.Subscript(value=v, slice=ast.Constant(value=i), ctx=ast.Load()), p, fi, stateful, st)
            return
        if isinstance(t, (ast.Attribute, ast.Subscript)):
            tt = U(subst(_as_load(t), p))
            # x[k] = x[k] + v  is the spelled-out form of  x[k] += v
            if isinstance(v, ast.BinOp) and isinstance(v.op, (ast.Add, ast.Sub, ast.Mult)) and strip_v(U(v.left)) == strip_v(tt):
                p.effects.append(Effect("aug", st, recv=tt, name=type(v.op).__name__, value=v.right, fi=fi))
            else:
                p.effects.append(Effect("store", st, recv=tt, value=v, fi=fi))
            b = t
            while isinstance(b, (ast.Subscript, ast.Attribute)):
                b = b.value
            if isinstance(b, ast.Name) and isinstance(t, ast.Subscript) and b.id != "self":
                self._bump(p, b.id)
            self._freeze_readers(p, tt)
            return
        raise AnalysisError(f"unsupported assignment target {type(t).__name__} in {fi.qualname}")

    # -- loops ----------------------------------------------------------------------
    def _assigned_in(self, stmts: Sequence[ast.stmt]) -> Set[str]:
        out: Set[str] = set()
        for st in stmts:
            for n in ast.walk(st):
                if isinstance(n, (ast.Assign, ast.AnnAssign, ast.AugAssign, ast.For, ast.NamedExpr, ast.With)):
                    tgts = (
                        n.targets if isinstance(n, ast.Assign) else [n.target] if not isinstance(n, ast.With) else [i.optional_vars for i in n.items if i.optional_vars is not None]
                    )
                    for t in tgts:
                        out |= set(_target_names(t))
        return out

    def _mutated_in(self, stmts: Sequence[ast.stmt]) -> Set[str]:
        out: Set[str] = set()
        for st in stmts:
            for n in ast.walk(st):
                if isinstance(n, ast.Call) and isinstance(n.func, ast.Attribute) and n.func.attr in MUTATORS:
                    r = n.func.value
                    while isinstance(r, (ast.Subscript, ast.Attribute)):
                        r = r.value
                    if isinstance(r, ast.Name) and r.id != "self":
                        out.add(r.id)
        return out

    def _loop(self, st, p: Path, fi: FuncInfo, stateful: Set[str]) -> List[Path]:
        if isinstance(st, ast.For):
            self._record_calls(st.iter, p, fi)
        assigned = self._assigned_in(st.body) | (set(_target_names(st.target)) if isinstance(st, ast.For) else set())
        mutated = self._mutated_in(st.body)
        depth = getattr(self, "_loop_depth", 0)
        if self.o.loop_mode == "unroll" or (self.o.loop_mode == "inner-unroll" and depth >= 1):
            return self._loop_unroll(st, p, fi, stateful, assigned, mutated)
        # summary mode: one symbolic iteration from a havocked state
        q = p.fork()
        q.effects = []
        q.conds = []
        for n in assigned:
            q.env.pop(n, None)
            self._bump(q, n)
        for n in mutated:
            self._bump(q, n)
        self._loop_depth = depth + 1
        try:
            body = self._block(st.body, [q], fi, stateful)
        finally:
            self._loop_depth = depth
        for b in body:
            if b.exit is None:
                b.exit = ("fall",)
        iter_text = U(subst(st.iter, p)) if isinstance(st, ast.For) else U(subst(st.test, p))
        eff = Effect("loop", st, body=body, text=iter_text, fi=fi, value=subst(st.iter, p) if isinstance(st, ast.For) else None,
                     pre=dict(p.env), pre_facts=dict(p.facts))
        out: List[Path] = []
        after = p.fork()
        after.effects.append(eff)
        for n in assigned:
            if n in after.env or True:
                after.env.pop(n, None)
                self._bump(after, n)
        for n in mutated:
            self._bump(after, n)
        # drop memoised facts that mention havocked names
        _forget(after, assigned | mutated)
        out.append(after)
        seen_exits = set()
        for b in body:
            if b.exit and b.exit[0] in ("return", "raise"):
                key = (b.exit, U(b.retval) if b.retval is not None else "")
                if key in seen_exits:
                    continue
                seen_exits.add(key)
                r = p.fork()
                r.effects.append(eff)
                r.conds.append((f"loop-exit:{iter_text}:{b.cond_text()}", True))
                r.exit, r.retval = b.exit, b.retval
                out.append(r)
        if st.orelse:
            out = [x for x in out if x.exit is not None] + self._block(st.orelse, [x for x in out if x.exit is None], fi, stateful)
        return out

    def _loop_unroll(self, st, p: Path, fi, stateful, assigned, mutated) -> List[Path]:
        """Bounded unrolling with a convergence check on the loop-carried abstract state."""
        carried = sorted((assigned - (set(_target_names(st.target)) if isinstance(st, ast.For) else set())))
        exits: List[Path] = []
        frontier = [p]
        seen_states: Set[Tuple] = set()
        tnames = set(_target_names(st.target)) if isinstance(st, ast.For) else set()

        def state_of(q: Path, base_effects: int) -> Tuple:
            vals = []
            for n in carried:
                v = q.env.get(n)
                if v is None:
                    # a stateful carried local: its current value is the last assignment recorded on the path
                    for e in reversed(q.effects[base_effects:]):
                        if e.kind == "assign" and e.recv == n:
                            v = e.value
                            break
                if v is None:
                    vals.append((n, "?"))
                elif isinstance(v, ast.Constant):
                    vals.append((n, repr(v.value)))
                else:
                    k = self._atom_key_for_truth(v)
                    vals.append((n, q.facts.get(k, "?") if k else "?"))
            effs = tuple(
                (e.kind, e.recv, e.name)
                for e in q.effects[base_effects:]
                if e.kind in ("aug", "store", "del", "assign") or (e.kind == "call" and e.name in MUTATORS)
            )
            # history summary: which (version-free) tests have been seen with which outcome since the loop was entered.  Two paths with the
            # same carried values but different histories are NOT merged: rules may state obligations over the history ("some previous ... was ...")
            hist = frozenset((strip_v(k), v) for k, v in q.facts.items() if k not in base_facts)
            return (tuple(vals), effs, hist)

        base_facts = set(p.facts)
        base_effects = len(p.effects)
        for it in range(self.o.unroll + 1):
            # leaving the loop after `it` iterations
            for q in frontier:
                exits.append(q.fork())
            if it == self.o.unroll:
                break
            nxt: List[Path] = []
            new_state = False
            for q in frontier:
                r = q.fork()
                for n in tnames:
                    r.env.pop(n, None)
                    self._bump(r, n)
                if isinstance(st, ast.While):
                    pairs = self._truth(st.test, r, fi, orig=st.test)
                else:
                    pairs = [(r, True)]
                for r2, val in pairs:
                    if not val:
                        continue
                    for b in self._block(st.body, [r2], fi, stateful):
                        if b.exit is None or b.exit[0] == "continue":
                            b.exit = None
                            s = state_of(b, base_effects)
                            if s not in seen_states:
                                seen_states.add(s)
                                new_state = True
                                nxt.append(b)
                        elif b.exit[0] == "break":
                            b.exit = None
                            exits.append(b)
                        else:
                            exits.append(b)
            frontier = nxt
            if not new_state:
                break
        else:
            pass
        if frontier and any(True for _ in frontier) and it == self.o.unroll:
            raise AnalysisError(
                f"loop at {fi.module.relpath}:{st.lineno} did not reach a fixpoint of its carried state within {self.o.unroll} unrollings"
            )
        for q in exits:
            if q.exit is None:
                for n in tnames:
                    q.env.pop(n, None)
        if st.orelse:
            exits = [x for x in exits if x.exit is not None] + self._block(st.orelse, [x for x in exits if x.exit is None], fi, stateful)
        return exits

    def _atom_key_for_truth(self, v: ast.expr) -> Optional[str]:
        if isinstance(v, ast.Call):
            return "call:" + U(v)
        if isinstance(v, (ast.Name, ast.Attribute, ast.Subscript)):
            return "truthy:" + U(v)
        return None

    # -- values (with inlining and IfExp forking) --------------------------------------
    def _value(self, e: ast.expr, p: Path, fi: FuncInfo, stmt_call: bool = False) -> List[Tuple[Path, ast.expr]]:
        if isinstance(e, ast.IfExp) and self.o.fork_ifexp:
            out = []
            for q, val in self._truth(e.test, p, fi, orig=e.test):
                out.extend(self._value(e.body if val else e.orelse, q, fi))
            return out
        if isinstance(e, ast.Call):
            callee = self._inlinable(e, fi, p)
            if callee is not None:
                return self._inline(e, callee, p, fi)
        # helper calls nested inside the expression (f(g(x)) with g inlinable): replace them by what they return
        nested = [n for n in ast.walk(e) if isinstance(n, ast.Call) and n is not e]
        if nested and not getattr(self, "_in_nested", False):
            for n in reversed(nested):  # innermost last in walk order -> try inner ones first
                callee = self._inlinable(n, fi, p)
                if callee is None or callee.is_property:
                    continue
                self._in_nested = True
                try:
                    res = self._inline(n, callee, p, fi)
                finally:
                    self._in_nested = False
                out = []
                for q, v in res:
                    if q.exit is not None:
                        out.append((q, ast.Constant(value=None)))
                        continue
                    # the inlined value stands for the call: it is bound to a temporary so that the calls INSIDE it (already recorded while the callee's
                    # statements were read) are not recorded a second time when the enclosing expression is evaluated
                    self._inl_counter = getattr(self, "_inl_counter", 0) + 1
                    tmp = f"__inl{self._inl_counter}"
                    q.env[tmp] = v
                    e2 = _replace_node(e, n, ast.Name(id=tmp, ctx=ast.Load()))
                    r2 = self._value(e2, q, fi)
                    for q2, _v2 in r2:
                        q2.env.pop(tmp, None)
                    out.extend(r2)
                return out
        self._record_calls(e, p, fi)
        return [(p, subst(e, p))]

    def _inlinable(self, call: ast.Call, fi: FuncInfo, p: Path) -> Optional[FuncInfo]:
        if p.depth >= self.o.max_depth:
            return None
        cands, kind = self.rs.resolve_call(call, fi, count=False)
        if kind != "unique" or len(cands) != 1:
            return None
        c = cands[0]
        if c.name == "__init__":
            return None
        if not self.o.inline(c):
            return None
        return c

    def _inline(self, call: ast.Call, callee: FuncInfo, p: Path, fi: FuncInfo, as_bool: bool = False):
        b = bind(call, callee)
        if b.star_args or b.star_kwargs or b.missing:
            return [(p, subst(call, p))]
        env: Dict[str, ast.expr] = {}
        for k, v in b.bound.items():
            env[k] = subst(v, p)
        for k, v in b.defaults.items():
            env[k] = clone(v) if v is not None else ast.Constant(value=None)
        if callee.cls is not None and not callee.is_static and callee.parent is None:
            selfname = callee.node.args.args[0].arg
            if isinstance(call.func, ast.Attribute):
                if callee.is_classmethod:
                    env[selfname] = ast.Name(id=callee.cls.name, ctx=ast.Load())
                else:
                    env[selfname] = subst(call.func.value, p)
        # nested function: closure variables come from the caller's env
        q = p.fork()
        saved_env = q.env
        if callee.parent is not None and callee.parent is fi or (callee.parent is not None and callee.parent.qualname == fi.qualname):
            newenv = dict(saved_env)
            newenv.update(env)
            q.env = newenv
        else:
            q.env = env
        q.depth += 1
        q.effects.append(Effect("inline", call, name=callee.name, text=callee.qualname, fi=fi))
        old_force = getattr(self, "_force_bool", False)
        self._force_bool = as_bool
        try:
            stateful = self._stateful(callee.node, callee)
            body = callee.node.body
            # a parameter the callee mutates in place, bound to a (stateful) local of the caller, IS that local: the callee's statements are read with the
            # caller's name, so that the mutation is recorded on the caller's variable (and the parameter name cannot capture a name of the caller)
            caller_stateful = self._stateful(fi.node, fi)
            own_names = {x.id for x in ast.walk(callee.node) if isinstance(x, ast.Name)} | {a.arg for a in callee.node.args.posonlyargs + callee.node.args.args + callee.node.args.kwonlyargs}
            ren: Dict[str, str] = {}
            for k, v in b.bound.items():
                if k in stateful and isinstance(v, ast.Name) and strip_v(v.id) in caller_stateful and (strip_v(v.id) == k or strip_v(v.id) not in own_names) and strip_v(v.id) not in ren.values():
                    ren[k] = strip_v(v.id)
            if ren:
                rcache = self.__dict__.setdefault("_renamed_bodies", {})
                rkey = (id(callee.node), tuple(sorted(ren.items())))
                if rkey not in rcache:
                    nb = copy.deepcopy(callee.node.body)
                    for st_ in nb:
                        for x in ast.walk(st_):
                            if isinstance(x, ast.Name) and x.id in ren:
                                x.id = ren[x.id]
                    rcache[rkey] = nb
                body = rcache[rkey]
                for k in ren:
                    q.env.pop(k, None)
                stateful = (set(stateful) - set(ren)) | set(ren.values())
            res = self._block(body, [q], callee, stateful)
        finally:
            self._force_bool = old_force
        out = []
        for r in res:
            r.depth -= 1
            r.env = dict(saved_env)
            if r.exit is None:
                out.append((r, ast.Constant(value=None)))
            elif r.exit[0] == "return":
                v = r.retval if r.retval is not None else ast.Constant(value=None)
                r.exit = None
                r.retval = None
                out.append((r, v))
            else:  # raise propagates
                out.append((r, ast.Constant(value=None)))
        return out

    def _record_calls(self, e: Optional[ast.AST], p: Path, fi: FuncInfo, cond: bool = False) -> None:
        if e is None:
            return
        for n in _calls_outer_first(e):
            f = n.func
            if isinstance(f, ast.Attribute):
                recv_node = f.value
                recv = strip_v(U(subst(recv_node, p)))
                name = f.attr
            elif isinstance(f, ast.Name):
                recv, name = "", f.id
            else:
                recv, name = "", U(f)
            try:
                args = [subst(a, p) for a in n.args]
                kwargs = {k.arg or "**": subst(k.value, p) for k in n.keywords}
            except RecursionError:  # pragma: no cover
                args, kwargs = [], {}
            p.effects.append(Effect("ccall" if cond else "call", n, recv=recv, name=name, args=args, kwargs=kwargs, text=U(subst(n, p)), fi=fi, orig=n))
            if isinstance(f, ast.Attribute) and name in MUTATORS:
                root = recv_node
                while isinstance(root, (ast.Subscript, ast.Attribute)):
                    root = root.value
                if isinstance(root, ast.Name) and root.id != "self":
                    self._bump(p, root.id)
                    _forget(p, {root.id})

    # -- tests ----------------------------------------------------------------------------
    def _decide(self, p: Path, key: str, implied: Optional[bool] = None) -> List[Tuple[Path, bool]]:
        if key in p.facts:
            return [(p, p.facts[key])]
        forced = implied if implied is not None else self._implied(p, key)
        if forced is not None:
            p.facts[key] = forced
            return [(p, forced)]
        a, b = p, p.fork()
        a.facts[key] = True
        a.conds.append((key, True))
        b.facts[key] = False
        b.conds.append((key, False))
        return [(a, True), (b, False)]

    def _implied(self, p: Path, key: str) -> Optional[bool]:
        kind, _, rest = key.partition(":")
        if kind == "truthy":
            if p.facts.get("none:" + rest) is True:
                return False
        elif kind == "none":
            if p.facts.get("truthy:" + rest) is True:
                return False
            for k, v in p.facts.items():
                if v and (k.startswith("isinstance:" + rest + ",") or k.startswith("eq:" + rest + "==")):
                    if k.startswith("eq:") and k.endswith("==None"):
                        continue
                    return False
        elif kind == "eq":
            lhs, _, rhs = rest.partition("==")
            # the right-hand side of an `eq:` atom is always a compile-time constant
            for k, v in p.facts.items():
                if v and k.startswith("eq:" + lhs + "==") and k != key:
                    return False
            if rhs != "None" and p.facts.get("none:" + lhs) is True:
                return False
        return None

    def _const(self, e: ast.expr) -> Optional[Tuple]:
        """Recognise compile-time constants: literals and enum members."""
        if isinstance(e, ast.Constant):
            return ("lit", e.value)
        if isinstance(e, ast.UnaryOp) and isinstance(e.op, ast.USub) and isinstance(e.operand, ast.Constant):
            return ("lit", -e.operand.value)
        if isinstance(e, ast.Attribute) and isinstance(e.value, ast.Name):
            c = self._enum_by_name.get(e.value.id)
            if c is not None and any(m == e.attr for m, _ in c.enum_members):
                return ("enum", c.qualname, e.attr)
        if isinstance(e, (ast.Tuple, ast.List)):
            parts = [self._const(x) for x in e.elts]
            if all(x is not None for x in parts):
                return ("tuple", tuple(parts))
        return None

    def _never_none(self, e: ast.expr) -> bool:
        if self._const(e) is not None and not is_none(e):
            return True
        if isinstance(e, ast.Call):
            f = e.func
            nm = f.id if isinstance(f, ast.Name) else f.attr if isinstance(f, ast.Attribute) else None
            if nm in self._never_none_calls:
                return True
            if isinstance(f, ast.Name) and f.id in ("len", "int", "float", "str", "list", "tuple", "dict", "set", "abs", "sum", "sorted", "bool"):
                return True
        return isinstance(e, (ast.List, ast.Dict, ast.Set, ast.Tuple, ast.ListComp, ast.DictComp, ast.JoinedStr, ast.Compare, ast.BoolOp, ast.BinOp, ast.Lambda))

    def _truth(self, e: ast.expr, p: Path, fi: FuncInfo, orig: Optional[ast.expr] = None, substituted: bool = False) -> List[Tuple[Path, bool]]:
        """Evaluate the truth of ``e`` on ``p``; forks on undecided atoms."""
        if p.exit is not None:
            return [(p, False)]
        # inline calls and record calls on the ORIGINAL (unsubstituted) expression
        if not substituted:
            if isinstance(e, ast.Call):
                callee = self._inlinable(e, fi, p)
                if callee is not None:
                    out = []
                    for q, v in self._inline(e, callee, p, fi, as_bool=True):
                        if q.exit is not None:
                            out.append((q, False))
                        elif isinstance(v, ast.Constant):
                            out.append((q, bool(v.value)))
                        else:
                            out.extend(self._truth(v, q, fi, substituted=True))
                    return out
            if isinstance(e, ast.BoolOp):
                return self._boolop(e, p, fi, substituted=False)
            if isinstance(e, ast.UnaryOp) and isinstance(e.op, ast.Not):
                return [(q, not v) for q, v in self._truth(e.operand, p, fi)]
            if isinstance(e, ast.IfExp):
                out = []
                for q, val in self._truth(e.test, p, fi):
                    out.extend(self._truth(e.body if val else e.orelse, q, fi))
                return out
            if self.o.record_cond_calls:
                self._record_calls(e, p, fi, cond=True)
            e = subst(e, p)
        return self._truth_s(e, p, fi)

    def _boolop(self, e: ast.BoolOp, p: Path, fi: FuncInfo, substituted: bool) -> List[Tuple[Path, bool]]:
        is_and = isinstance(e.op, ast.And)
        results: List[Tuple[Path, bool]] = [(p, is_and)]
        for v in e.values:
            new: List[Tuple[Path, bool]] = []
            for q, val in results:
                if q.exit is not None or val != is_and:
                    new.append((q, val))
                    continue
                new.extend(self._truth(v, q, fi, substituted=substituted) if not substituted else self._truth_s(v, q, fi))
            results = new
        return results

    def _truth_s(self, e: ast.expr, p: Path, fi: FuncInfo) -> List[Tuple[Path, bool]]:
        """Truth of an already substituted expression."""
        if isinstance(e, ast.Constant):
            return [(p, bool(e.value))]
        if isinstance(e, ast.BoolOp):
            return self._boolop(e, p, fi, substituted=True)
        if isinstance(e, ast.UnaryOp) and isinstance(e.op, ast.Not):
            return [(q, not v) for q, v in self._truth_s(e.operand, p, fi)]
        if isinstance(e, ast.IfExp):
            out = []
            for q, val in self._truth_s(e.test, p, fi):
                out.extend(self._truth_s(e.body if val else e.orelse, q, fi))
            return out
        if isinstance(e, ast.BinOp) and isinstance(e.op, ast.Mult) and _boolish(e.left) and _boolish(e.right):
            return self._boolop(ast.BoolOp(op=ast.And(), values=[e.left, e.right]), p, fi, substituted=True)
        if isinstance(e, ast.Call) and isinstance(e.func, ast.Name) and e.func.id == "bool" and len(e.args) == 1:
            return self._truth_s(e.args[0], p, fi)
        if isinstance(e, ast.Compare):
            if len(e.ops) > 1:
                parts = []
                left = e.left
                for op, right in zip(e.ops, e.comparators):
                    parts.append(ast.Compare(left=left, ops=[op], comparators=[right]))
                    left = right
                return self._boolop(ast.BoolOp(op=ast.And(), values=parts), p, fi, substituted=True)
            return self._compare(e.left, e.ops[0], e.comparators[0], p, fi)
        if isinstance(e, ast.Call):
            f = e.func
            if isinstance(f, ast.Name) and f.id == "isinstance" and len(e.args) == 2:
                return self._decide(p, f"isinstance:{U(e.args[0])},{U(e.args[1])}")
            if isinstance(f, ast.Name) and f.id in ("any", "all") and len(e.args) == 1 and isinstance(e.args[0], (ast.List, ast.Tuple)):
                vals = list(e.args[0].elts)
                if vals:
                    return self._boolop(ast.BoolOp(op=ast.Or() if f.id == "any" else ast.And(), values=vals), p, fi, substituted=True)
            if isinstance(f, ast.Name) and f.id == "len" and len(e.args) == 1:
                return self._decide(p, "truthy:" + U(e.args[0]))
            return self._decide(p, "call:" + U(e))
        if isinstance(e, (ast.List, ast.Tuple, ast.Set)):
            return [(p, bool(e.elts))]
        if isinstance(e, ast.Dict):
            return [(p, bool(e.keys))]
        c = self._const(e)
        if c is not None and c[0] == "enum":
            return [(p, True)]
        if isinstance(e, (ast.Name, ast.Attribute, ast.Subscript)):
            return self._decide(p, "truthy:" + U(e))
        self.unknown_tests.append(U(e))
        return self._decide(p, "expr:" + U(e))

    def _compare(self, l: ast.expr, op: ast.cmpop, r: ast.expr, p: Path, fi: FuncInfo) -> List[Tuple[Path, bool]]:
        neg = isinstance(op, (ast.IsNot, ast.NotEq, ast.NotIn))
        res: List[Tuple[Path, bool]]
        if isinstance(op, (ast.Is, ast.IsNot)):
            if is_none(l):
                l, r = r, l
            if is_none(r):
                if is_none(l):
                    res = [(p, True)]
                elif self._never_none(l):
                    res = [(p, False)]
                else:
                    res = self._decide(p, "none:" + U(l))
            else:
                cl, cr = self._const(l), self._const(r)
                if cl is not None and cr is not None:
                    res = [(p, cl == cr)]
                else:
                    # `x is False` / `x is True` -> truthiness of x (bool-valued by annotation in this code base)
                    if isinstance(r, ast.Constant) and isinstance(r.value, bool):
                        inner = self._truth_s(l, p, fi)
                        res = [(q, v == r.value) for q, v in inner]
                    else:
                        res = self._decide(p, "is:" + U(l) + " is " + U(r))
        elif isinstance(op, (ast.Eq, ast.NotEq)) and _boolish(l) and _boolish(r):
            # equality of two boolean expressions: evaluate both sides
            res = []
            for p1, lv in self._truth_s(l, p, fi):
                for p2, rv in self._truth_s(r, p1, fi):
                    res.append((p2, lv == rv))
        elif isinstance(op, (ast.Eq, ast.NotEq)):
            cl, cr = self._const(l), self._const(r)
            if cl is not None and cr is not None:
                val = cl == cr
                # str literal vs member of an enum with a str-aware __eq__
                for a, b in ((cl, cr), (cr, cl)):
                    if a[0] == "lit" and isinstance(a[1], str) and b[0] == "enum" and b[1] in self._str_eq:
                        val = self._str_eq[b[1]].get(b[2]) == a[1]
                res = [(p, val)]
            else:
                if cl is not None and cr is None:
                    l, r, cl, cr = r, l, cr, cl
                if is_none(r):
                    res = self._decide(p, "none:" + U(l)) if not self._never_none(l) else [(p, False)]
                elif isinstance(l, ast.Call) and isinstance(l.func, ast.Name) and l.func.id == "len" and isinstance(r, ast.Constant) and r.value == 0:
                    res = [(q, not v) for q, v in self._decide(p, "truthy:" + U(l.args[0]))]
                elif cr is not None:
                    res = self._decide(p, f"eq:{U(l)}=={U(r)}")
                else:
                    a, b = sorted([U(l), U(r)])
                    if a == b:
                        res = [(p, True)]
                    else:
                        res = self._decide(p, f"same:{a}=={b}")
        elif isinstance(op, (ast.In, ast.NotIn)):
            if is_none(l) and isinstance(r, (ast.Tuple, ast.List, ast.Set)):
                vals = [ast.Compare(left=x, ops=[ast.Is()], comparators=[ast.Constant(value=None)]) for x in r.elts]
                res = self._boolop(ast.BoolOp(op=ast.Or(), values=vals), p, fi, substituted=True) if vals else [(p, False)]
            elif isinstance(r, (ast.Tuple, ast.List, ast.Set)):
                # x in (A, B)  -> x == A or x == B
                vals = [ast.Compare(left=l, ops=[ast.Eq()], comparators=[x]) for x in r.elts]
                res = self._boolop(ast.BoolOp(op=ast.Or(), values=vals), p, fi, substituted=True) if vals else [(p, False)]
            else:
                res = self._decide(p, f"in:{U(l)} in {U(r)}")
        else:
            # ordered comparison, canonical orientation a < b / a <= b
            if isinstance(l, ast.Call) and isinstance(l.func, ast.Name) and l.func.id == "len" and isinstance(r, ast.Constant) and r.value == 0 and isinstance(op, ast.Gt):
                res = self._decide(p, "truthy:" + U(l.args[0]))
            elif isinstance(r, ast.Call) and isinstance(r.func, ast.Name) and r.func.id == "len" and isinstance(l, ast.Constant) and l.value == 0 and isinstance(op, ast.Lt) and not isinstance(l.value, bool):
                res = self._decide(p, "truthy:" + U(r.args[0]))  # 0 < len(x)  (the normalised spelling of len(x) > 0)
            else:
                cl, cr = self._const(l), self._const(r)
                if cl is not None and cr is not None and cl[0] == cr[0] == "lit":
                    try:
                        val = {ast.Lt: cl[1] < cr[1], ast.LtE: cl[1] <= cr[1], ast.Gt: cl[1] > cr[1], ast.GtE: cl[1] >= cr[1]}[type(op)]
                        return [(p, val)]
                    except Exception:
                        pass
                if isinstance(op, ast.Gt):
                    key = f"cmp:{U(r)} < {U(l)}"
                elif isinstance(op, ast.GtE):
                    key = f"cmp:{U(r)} <= {U(l)}"
                elif isinstance(op, ast.Lt):
                    key = f"cmp:{U(l)} < {U(r)}"
                else:
                    key = f"cmp:{U(l)} <= {U(r)}"
                res = self._decide(p, key)
        if neg:
            res = [(q, not v) for q, v in res]
        return res


# ----------------------------------------------------------------------------
def _boolish(e: ast.expr) -> bool:
    return isinstance(e, (ast.Compare, ast.BoolOp)) or (isinstance(e, ast.UnaryOp) and isinstance(e.op, ast.Not)) or (
        isinstance(e, ast.BinOp) and isinstance(e.op, ast.Mult) and _boolish(e.left) and _boolish(e.right)
    ) or (isinstance(e, ast.Constant) and isinstance(e.value, bool))


import re as _re

_VER = _re.compile(r"@\d+")


def strip_v(s: str) -> str:
    """Remove the version tags of mutated locals from a canonical text."""
    return _VER.sub("", s)


def _target_names(t: ast.AST) -> List[str]:
    return [n.id for n in ast.walk(t) if isinstance(n, ast.Name)]


def _as_load(t: ast.expr) -> ast.expr:
    t = clone(t)
    for n in ast.walk(t):
        if hasattr(n, "ctx"):
            n.ctx = ast.Load()
    return t


def _exc_name(e: Optional[ast.expr]) -> str:
    if e is None:
        return "reraise"
    if isinstance(e, ast.Call):
        e = e.func
    return U(e)


def _calls_outer_first(e: ast.AST) -> List[ast.Call]:
    out: List[ast.Call] = []

    def rec(n: ast.AST, bound: bool):
        if isinstance(n, ast.Call):
            out.append(n)
        if isinstance(n, ast.Lambda):
            return
        for c in ast.iter_child_nodes(n):
            rec(c, bound)

    rec(e, False)
    return out


def _forget(p: Path, names: Set[str]) -> None:
    if not names:
        return
    import re

    pat = re.compile(r"(?<![\w.])(" + "|".join(re.escape(n) for n in names) + r")(?![\w@])")
    for k in [k for k in p.facts if pat.search(k)]:
        del p.facts[k]
