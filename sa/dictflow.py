"""Statically known dict literals behind ``**expr`` splats and ``d["key"]`` reads.

``dict_literals(expr, fi)`` follows one attribute hop into the class that owns the
attribute (``self.a = {...}``, ``self.a, self.b = self.f(...)``, ``@property``),
local assignments, and the return values of resolved callees (all implementations
of an abstract method).  Result: one candidate per implementation, each an
``ast.Dict`` together with the function it was found in.
"""
from __future__ import annotations

import ast
from typing import Dict, List, Optional, Set, Tuple

from .index import ClassInfo, FuncInfo, Index, Resolver, walk_own

Found = Tuple[ast.Dict, FuncInfo]


def dict_literals(expr: ast.expr, fi: FuncInfo, rs: Resolver, depth: int = 0, index_in_tuple: Optional[int] = None) -> List[Found]:
    ix = rs.index
    if depth > 6:
        return []
    if isinstance(expr, ast.Dict):
        return [(expr, fi)]
    if isinstance(expr, ast.Tuple) and index_in_tuple is not None and index_in_tuple < len(expr.elts):
        return dict_literals(expr.elts[index_in_tuple], fi, rs, depth + 1)
    if isinstance(expr, ast.Name):
        out: List[Found] = []
        for n in walk_own(fi.node):
            val = None
            idx = None
            if isinstance(n, ast.Assign):
                for t in n.targets:
                    if isinstance(t, ast.Name) and t.id == expr.id:
                        val = n.value
                    elif isinstance(t, ast.Tuple):
                        for i, e in enumerate(t.elts):
                            if isinstance(e, ast.Name) and e.id == expr.id:
                                val, idx = n.value, i
            elif isinstance(n, ast.AnnAssign) and isinstance(n.target, ast.Name) and n.target.id == expr.id and n.value is not None:
                val = n.value
            if val is not None:
                out.extend(dict_literals(val, fi, rs, depth + 1, idx))
        return out
    if isinstance(expr, ast.Attribute):
        owners = list(rs.type_of(expr.value, fi).classes)
        if not owners:
            # unknown receiver type: every class that stores a dict literal under that attribute
            owners = [c for c in ix.classes.values() if _stores_attr(c, expr.attr)]
        out = []
        seen: Set[str] = set()
        for c in owners:
            for k in _with_subclasses(c, ix):
                for f in _attr_definitions(k, expr.attr, rs, depth):
                    key = f"{f[1].qualname}:{f[0].lineno}"
                    if key not in seen:
                        seen.add(key)
                        out.append(f)
        return out
    if isinstance(expr, ast.Call):
        # d.copy() / dict(d)
        if isinstance(expr.func, ast.Attribute) and expr.func.attr == "copy" and not expr.args:
            return dict_literals(expr.func.value, fi, rs, depth + 1)
        cands, kind = rs.resolve_call(expr, fi, count=False)
        out = []
        if kind in ("unique", "cha"):
            impls: List[FuncInfo] = []
            for c in cands:
                if c.is_abstract and c.cls is not None:
                    impls += [s.methods[c.name] for s in c.cls.subclasses(ix) if c.name in s.methods and not s.methods[c.name].is_abstract]
                else:
                    impls.append(c)
            for c in impls:
                for n in walk_own(c.node):
                    if isinstance(n, ast.Return) and n.value is not None:
                        out.extend(dict_literals(n.value, c, rs, depth + 1, index_in_tuple))
        return out
    return []


def _with_subclasses(c: ClassInfo, ix: Index) -> List[ClassInfo]:
    return [c] + c.subclasses(ix)


def _stores_attr(c: ClassInfo, attr: str) -> bool:
    for m in c.methods.values():
        for n in walk_own(m.node):
            if isinstance(n, (ast.Assign, ast.AnnAssign)):
                tgts = n.targets if isinstance(n, ast.Assign) else [n.target]
                for t in tgts:
                    for e in (t.elts if isinstance(t, ast.Tuple) else [t]):
                        if isinstance(e, ast.Attribute) and e.attr == attr and isinstance(e.value, ast.Name) and e.value.id == "self":
                            return True
    return False


def _attr_definitions(c: ClassInfo, attr: str, rs: Resolver, depth: int) -> List[Found]:
    out: List[Found] = []
    for k in c.mro():
        found_here = False
        m = k.methods.get(attr)
        if m is not None and m.is_property:
            for n in walk_own(m.node):
                if isinstance(n, ast.Return) and n.value is not None:
                    out.extend(_retarget(n.value, m, c, rs, depth))
            found_here = True
        for m in k.methods.values():
            for n in walk_own(m.node):
                if not isinstance(n, (ast.Assign, ast.AnnAssign)):
                    continue
                tgts = n.targets if isinstance(n, ast.Assign) else [n.target]
                val = n.value
                if val is None:
                    continue
                for t in tgts:
                    elts = t.elts if isinstance(t, ast.Tuple) else [t]
                    for i, e in enumerate(elts):
                        if isinstance(e, ast.Attribute) and e.attr == attr and isinstance(e.value, ast.Name) and e.value.id == "self":
                            idx = i if isinstance(t, ast.Tuple) else None
                            out.extend(_retarget(val, m, c, rs, depth, idx))
                            found_here = True
        if found_here:
            break
    return out


def _retarget(val: ast.expr, m: FuncInfo, concrete: ClassInfo, rs: Resolver, depth: int, idx: Optional[int] = None) -> List[Found]:
    """Evaluate ``val`` found in method ``m`` of a base of ``concrete``; `self.f(...)` resolves in ``concrete``."""
    if isinstance(val, ast.Call) and isinstance(val.func, ast.Attribute) and isinstance(val.func.value, ast.Name) and val.func.value.id == "self":
        tgt = concrete.find_method(val.func.attr)
        if tgt is not None and not tgt.is_abstract:
            out: List[Found] = []
            for n in walk_own(tgt.node):
                if isinstance(n, ast.Return) and n.value is not None:
                    out.extend(dict_literals(n.value, tgt, rs, depth + 1, idx))
            return out
    if isinstance(val, ast.Attribute):
        owners = _concrete_type(val.value, concrete, m, rs)
        if owners:
            out = []
            for o in owners:
                for k in _with_subclasses(o, rs.index):
                    out.extend(_attr_definitions(k, val.attr, rs, depth + 1))
            return out
    return dict_literals(val, m, rs, depth + 1, idx)


def _concrete_type(e: ast.expr, concrete: ClassInfo, m: FuncInfo, rs: Resolver) -> List[ClassInfo]:
    """Type of an attribute chain rooted at ``self`` where ``self`` is an instance of ``concrete``."""
    if isinstance(e, ast.Name) and e.id == "self":
        return [concrete]
    if isinstance(e, ast.Attribute):
        out: List[ClassInfo] = []
        for c in _concrete_type(e.value, concrete, m, rs):
            for k in rs.attr_type(c, e.attr).classes:
                if k not in out:
                    out.append(k)
        return out
    return list(rs.type_of(e, m).classes)


def literal_keys(d: ast.Dict) -> Optional[List[str]]:
    keys: List[str] = []
    for k in d.keys:
        if isinstance(k, ast.Constant) and isinstance(k.value, str):
            keys.append(k.value)
        else:
            return None
    return keys
