"""E4 – literal table extraction (label tables, enum members) without running anything."""
from __future__ import annotations

import ast
from typing import Dict, List, Optional, Tuple

from .index import ClassInfo, FuncInfo, Index, Resolver
from .paths import Enumerator, Options, Path, U
from .source import AnalysisError

Row = Tuple[str, str, str, int]  # (EnumClass, MEMBER, "name", lineno)


def enum_members(ci: ClassInfo) -> List[Tuple[str, object]]:
    """(member name, literal value) – value is a python literal or the unparsed text."""
    out = []
    for name, val in ci.enum_members:
        try:
            v = ast.literal_eval(val)
        except Exception:
            v = ("expr", ast.unparse(val))
        out.append((name, v))
    return out


def _rows_of(e: ast.expr, where: str) -> List[Row]:
    if not isinstance(e, (ast.List, ast.Tuple)):
        raise AnalysisError(f"{where}: table part is not a list literal: {U(e)[:60]}")
    rows: List[Row] = []
    for el in e.elts:
        if not (isinstance(el, ast.Tuple) and len(el.elts) == 2):
            raise AnalysisError(f"{where}: table entry is not a 2-tuple: {U(el)[:60]}")
        a, b = el.elts
        if not (isinstance(a, ast.Attribute) and isinstance(a.value, ast.Name) and isinstance(b, ast.Constant) and isinstance(b.value, str)):
            raise AnalysisError(f"{where}: table entry is not (Enum.MEMBER, \"name\"): {U(el)[:60]}")
        rows.append((a.value.id, a.attr, b.value, getattr(el, "lineno", 0)))
    return rows


def _concat(e: ast.expr, where: str, cur: Optional[List[Row]] = None, base: str = "") -> List[Row]:
    if isinstance(e, ast.BinOp) and isinstance(e.op, ast.Add):
        return _concat(e.left, where, cur, base) + _concat(e.right, where, cur, base)
    if isinstance(e, ast.Name) and base and e.id.split("@")[0] == base and cur is not None:
        return list(cur)  # the table as built so far
    return _rows_of(e, where)


def extract_table(ix: Index, rs: Resolver, fi: FuncInfo, env: Dict[str, ast.expr]) -> List[Row]:
    """The list of (label, name) pairs ``fi`` returns when its parameters have the values in ``env``."""
    en = Enumerator(ix, rs, Options())
    paths = [p for p in en.function(fi, env=env)]
    if len(paths) != 1:
        raise AnalysisError(f"{fi.qualname}: expected exactly one path for {', '.join(f'{k}={U(v)}' for k, v in env.items())}, got {len(paths)}")
    p = paths[0]
    if p.exit != ("return",) or p.retval is None:
        raise AnalysisError(f"{fi.qualname}: table builder does not return on this path ({p.exit})")
    where = fi.qualname
    rv = p.retval
    if isinstance(rv, ast.Name):
        base = rv.id.split("@")[0]
        rows: List[Row] = []
        seen_def = False
        for ef in p.effects:
            if ef.kind == "assign" and ef.recv == base:
                rows = _concat(ef.value, where, rows, base)
                seen_def = True
            elif ef.kind == "aug" and ef.recv == base:
                if ef.name != "Add":
                    raise AnalysisError(f"{where}: unsupported augmented operator on the table: {ef.name}")
                rows = rows + _concat(ef.value, where, rows, base)
            elif ef.kind == "call" and ef.recv == base and ef.name in ("append", "extend", "insert", "remove", "pop", "sort", "reverse", "clear"):
                if ef.name == "extend" and len(ef.args) == 1:
                    rows = rows + _concat(ef.args[0], where)
                elif ef.name == "append" and len(ef.args) == 1:
                    rows = rows + _rows_of(ast.List(elts=[ef.args[0]]), where)
                else:
                    raise AnalysisError(f"{where}: unsupported table mutation .{ef.name}()")
        if not seen_def:
            raise AnalysisError(f"{where}: returned name {base} has no list definition on this path")
        return rows
    return _concat(rv, where)
