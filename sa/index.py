"""E1 – program index and callee resolver (name / import / class / annotation based)."""
from __future__ import annotations

import ast
from dataclasses import dataclass, field
from typing import Dict, List, Optional, Sequence, Tuple

from .source import AnalysisError, Module, SourceSet, PKG, parent_of


# ----------------------------------------------------------------------------
# data
# ----------------------------------------------------------------------------
@dataclass
class FuncInfo:
    qualname: str
    name: str
    node: ast.FunctionDef
    module: Module
    cls: Optional["ClassInfo"] = None
    parent: Optional["FuncInfo"] = None  # for nested functions
    decorators: Tuple[str, ...] = ()

    @property
    def is_property(self) -> bool:
        return "property" in self.decorators

    @property
    def is_static(self) -> bool:
        return "staticmethod" in self.decorators

    @property
    def is_classmethod(self) -> bool:
        return "classmethod" in self.decorators

    @property
    def is_abstract(self) -> bool:
        return "abstractmethod" in self.decorators

    @property
    def is_overload(self) -> bool:
        return "overload" in self.decorators

    def params(self, drop_self: bool = True) -> List[ast.arg]:
        a = self.node.args
        ps = list(a.posonlyargs) + list(a.args)
        if drop_self and self.cls is not None and not self.is_static and ps:
            ps = ps[1:]
        return ps

    def loc(self) -> str:
        return f"{self.module.relpath}:{self.node.lineno}"

    def __hash__(self):
        return hash(self.qualname)

    def __eq__(self, other):
        return isinstance(other, FuncInfo) and other.qualname == self.qualname


@dataclass
class ClassInfo:
    qualname: str
    name: str
    node: ast.ClassDef
    module: Module
    base_exprs: List[ast.expr] = field(default_factory=list)
    bases: List["ClassInfo"] = field(default_factory=list)
    ext_bases: List[str] = field(default_factory=list)
    methods: Dict[str, FuncInfo] = field(default_factory=dict)
    attr_ann: Dict[str, ast.expr] = field(default_factory=dict)  # attribute -> annotation expr
    class_consts: Dict[str, ast.expr] = field(default_factory=dict)
    enum_members: List[Tuple[str, ast.expr]] = field(default_factory=list)

    @property
    def is_enum(self) -> bool:
        return any(c._is_enum_root() for c in self.mro())

    def _is_enum_root(self) -> bool:
        return any(b in ("Enum", "IntEnum", "enum.Enum") for b in self.ext_bases)

    def mro(self) -> List["ClassInfo"]:
        out: List[ClassInfo] = []
        seen = set()

        def rec(c: "ClassInfo"):
            if c.qualname in seen:
                return
            seen.add(c.qualname)
            out.append(c)
            for b in c.bases:
                rec(b)

        rec(self)
        return out

    def find_method(self, name: str) -> Optional[FuncInfo]:
        name = self.mangle(name)
        for c in self.mro():
            if name in c.methods:
                return c.methods[name]
            # private name defined in a base keeps the base's mangling
        return None

    def mangle(self, name: str) -> str:
        return name

    def subclasses(self, index: "Index") -> List["ClassInfo"]:
        return [c for c in index.classes.values() if c is not self and self in c.mro()]

    def __hash__(self):
        return hash(self.qualname)

    def __eq__(self, other):
        return isinstance(other, ClassInfo) and other.qualname == self.qualname


@dataclass
class TypeRef:
    """A very small static type: a set of repo classes, optionally a list of them."""

    classes: Tuple[ClassInfo, ...] = ()
    elem: Optional["TypeRef"] = None  # for List[T] / Tuple[T, ...] / Dict[_, T]
    optional: bool = False

    def __bool__(self) -> bool:
        return bool(self.classes) or self.elem is not None


def _decorator_names(node) -> Tuple[str, ...]:
    out = []
    for d in node.decorator_list:
        if isinstance(d, ast.Name):
            out.append(d.id)
        elif isinstance(d, ast.Attribute):
            out.append(d.attr)
        elif isinstance(d, ast.Call):
            f = d.func
            out.append(f.id if isinstance(f, ast.Name) else getattr(f, "attr", "?"))
    return tuple(out)


# ----------------------------------------------------------------------------
# index
# ----------------------------------------------------------------------------
class Index:
    def __init__(self, src: SourceSet):
        self.src = src
        self.functions: Dict[str, FuncInfo] = {}
        self.classes: Dict[str, ClassInfo] = {}
        self.toplevel: Dict[str, Dict[str, object]] = {}  # module -> name -> FuncInfo|ClassInfo|('alias', expr)
        self.imports: Dict[str, Dict[str, str]] = {}  # module -> local name -> dotted target
        self.methods_by_name: Dict[str, List[FuncInfo]] = {}
        self._build()

    # -- construction ---------------------------------------------------------
    def _build(self) -> None:
        for mod in self.src:
            self.toplevel[mod.name] = {}
            self.imports[mod.name] = {}
            self._scan_module(mod)
        for ci in self.classes.values():
            self._link_bases(ci)
        for ci in self.classes.values():
            self._scan_class_attrs(ci)
        for fi in self.functions.values():
            if fi.cls is not None:
                self.methods_by_name.setdefault(fi.name, []).append(fi)

    def _scan_module(self, mod: Module) -> None:
        top = self.toplevel[mod.name]
        imps = self.imports[mod.name]
        for node in ast.walk(mod.tree):
            if isinstance(node, ast.ImportFrom):
                base = node.module or ""
                if node.level:
                    parts = mod.name.split(".")
                    if not mod.is_pkg:
                        parts = parts[:-1]
                    parts = parts[: len(parts) - (node.level - 1)]
                    base = ".".join(parts + ([node.module] if node.module else []))
                for a in node.names:
                    imps[a.asname or a.name] = f"{base}.{a.name}"
            elif isinstance(node, ast.Import):
                for a in node.names:
                    imps[a.asname or a.name.split(".")[0]] = a.name if a.asname else a.name.split(".")[0]
        for node in mod.tree.body:
            if isinstance(node, (ast.FunctionDef, ast.AsyncFunctionDef)):
                self._add_function(mod, node, None, None, mod.name)
            elif isinstance(node, ast.ClassDef):
                self._add_class(mod, node, mod.name)
            elif isinstance(node, ast.Assign) and len(node.targets) == 1 and isinstance(node.targets[0], ast.Name):
                top[node.targets[0].id] = ("alias", node.value)
            elif isinstance(node, ast.AnnAssign) and isinstance(node.target, ast.Name) and node.value is not None:
                top[node.target.id] = ("alias", node.value)

    def _add_function(self, mod, node, cls, parent, prefix) -> FuncInfo:
        qn = f"{prefix}.{node.name}"
        fi = FuncInfo(qn, node.name, node, mod, cls, parent, _decorator_names(node))
        if fi.is_overload:
            return fi
        # property setters etc. would overwrite; keep the first non-overload definition
        if qn not in self.functions:
            self.functions[qn] = fi
            if cls is None and parent is None:
                self.toplevel[mod.name][node.name] = fi
            elif cls is not None and parent is None:
                cls.methods[node.name] = fi
        for sub in ast.walk(node):
            if sub is node:
                continue
            if isinstance(sub, (ast.FunctionDef, ast.AsyncFunctionDef)) and _enclosing_def(sub) is node:
                self._add_function(mod, sub, cls, fi, qn + ".<locals>")
        return fi

    def _add_class(self, mod, node, prefix) -> None:
        qn = f"{prefix}.{node.name}"
        ci = ClassInfo(qn, node.name, node, mod, list(node.bases))
        self.classes[qn] = ci
        self.toplevel[mod.name][node.name] = ci
        for st in node.body:
            if isinstance(st, (ast.FunctionDef, ast.AsyncFunctionDef)):
                self._add_function(mod, st, ci, None, qn)
            elif isinstance(st, ast.Assign) and len(st.targets) == 1 and isinstance(st.targets[0], ast.Name):
                ci.class_consts[st.targets[0].id] = st.value
            elif isinstance(st, ast.AnnAssign) and isinstance(st.target, ast.Name):
                ci.attr_ann[st.target.id] = st.annotation
                if st.value is not None:
                    ci.class_consts[st.target.id] = st.value

    def _link_bases(self, ci: ClassInfo) -> None:
        for b in ci.base_exprs:
            tgt = self.resolve_expr_symbol(ci.module.name, b)
            if isinstance(tgt, ClassInfo):
                ci.bases.append(tgt)
            else:
                try:
                    ci.ext_bases.append(ast.unparse(b))
                except Exception:  # pragma: no cover
                    ci.ext_bases.append("?")

    def _scan_class_attrs(self, ci: ClassInfo) -> None:
        if ci.is_enum:
            for name, val in ci.class_consts.items():
                if not name.startswith("_"):
                    ci.enum_members.append((name, val))
        for m in ci.methods.values():
            if m.is_property and m.node.returns is not None:
                ci.attr_ann.setdefault(m.name, m.node.returns)
        for m in ci.methods.values():
            ps = m.node.args.args
            if not ps:
                continue
            selfname = ps[0].arg
            for sub in ast.walk(m.node):
                if (
                    isinstance(sub, ast.AnnAssign)
                    and isinstance(sub.target, ast.Attribute)
                    and isinstance(sub.target.value, ast.Name)
                    and sub.target.value.id == selfname
                ):
                    ci.attr_ann.setdefault(sub.target.attr, sub.annotation)
            # un-annotated stores from annotated parameters: self.x = x
            pann = {a.arg: a.annotation for a in ps if a.annotation is not None}
            for sub in ast.walk(m.node):
                if (
                    isinstance(sub, ast.Assign)
                    and len(sub.targets) == 1
                    and isinstance(sub.targets[0], ast.Attribute)
                    and isinstance(sub.targets[0].value, ast.Name)
                    and sub.targets[0].value.id == selfname
                    and isinstance(sub.value, ast.Name)
                    and sub.value.id in pann
                ):
                    ci.attr_ann.setdefault(sub.targets[0].attr, pann[sub.value.id])

    # -- symbol resolution ------------------------------------------------------
    def resolve_dotted(self, dotted: str, _depth: int = 0):
        """'perception_eval.common.object.DynamicObject' -> ClassInfo / FuncInfo / None."""
        if _depth > 8 or not dotted.startswith(PKG):
            return None
        if dotted in self.classes:
            return self.classes[dotted]
        if dotted in self.functions:
            return self.functions[dotted]
        if dotted in self.src.modules:
            return ("module", dotted)
        modname, _, sym = dotted.rpartition(".")
        if modname in self.src.modules:
            top = self.toplevel[modname].get(sym)
            if isinstance(top, (FuncInfo, ClassInfo)):
                return top
            if sym in self.imports[modname]:
                return self.resolve_dotted(self.imports[modname][sym], _depth + 1)
            if isinstance(top, tuple):
                return top
        return None

    def resolve_name(self, modname: str, name: str):
        top = self.toplevel.get(modname, {}).get(name)
        if isinstance(top, (FuncInfo, ClassInfo)):
            return top
        tgt = self.imports.get(modname, {}).get(name)
        if tgt is not None:
            r = self.resolve_dotted(tgt)
            if r is not None:
                return r
            return ("external", tgt)
        if isinstance(top, tuple):
            return top
        return None

    def resolve_expr_symbol(self, modname: str, expr: ast.expr):
        """Resolve Name / dotted Attribute to a repo symbol (class, function)."""
        if isinstance(expr, ast.Name):
            r = self.resolve_name(modname, expr.id)
            if isinstance(r, tuple) and r[0] == "alias" and isinstance(r[1], (ast.Name, ast.Attribute)):
                return self.resolve_expr_symbol(modname, r[1])
            return r
        if isinstance(expr, ast.Attribute):
            base = self.resolve_expr_symbol(modname, expr.value)
            if isinstance(base, tuple) and base[0] == "module":
                return self.resolve_dotted(base[1] + "." + expr.attr)
            if isinstance(base, ClassInfo):
                m = base.find_method(expr.attr)
                if m is not None:
                    return m
        return None

    # -- anchors -----------------------------------------------------------------
    def func(self, qualname: str) -> FuncInfo:
        q = qualname if qualname.startswith(PKG + ".") else f"{PKG}.{qualname}"
        if q not in self.functions:
            raise AnalysisError(f"anchor function vanished: {q}")
        return self.functions[q]

    def cls(self, qualname: str) -> ClassInfo:
        q = qualname if qualname.startswith(PKG + ".") else f"{PKG}.{qualname}"
        if q not in self.classes:
            raise AnalysisError(f"anchor class vanished: {q}")
        return self.classes[q]

    def has_func(self, qualname: str) -> bool:
        q = qualname if qualname.startswith(PKG + ".") else f"{PKG}.{qualname}"
        return q in self.functions

    def enclosing_function(self, mod: Module, node: ast.AST) -> Optional[FuncInfo]:
        d = _enclosing_def(node)
        if d is None:
            return None
        for fi in self.functions.values():
            if fi.node is d:
                return fi
        return None

    # -- annotation typing ---------------------------------------------------------
    def type_from_annotation(self, modname: str, ann: Optional[ast.expr], _depth: int = 0) -> TypeRef:
        if ann is None or _depth > 6:
            return TypeRef()
        if isinstance(ann, ast.Constant) and isinstance(ann.value, str):
            try:
                ann = ast.parse(ann.value, mode="eval").body
            except SyntaxError:
                return TypeRef()
        if isinstance(ann, (ast.Name, ast.Attribute)):
            r = self.resolve_expr_symbol(modname, ann)
            if isinstance(r, ClassInfo):
                return TypeRef((r,))
            if isinstance(r, tuple) and r[0] == "alias":
                # type alias, e.g. ObjectType = Union[DynamicObject, DynamicObject2D]
                tgt_mod = modname
                if isinstance(ann, ast.Name):
                    imp = self.imports.get(modname, {}).get(ann.id)
                    if imp and ann.id not in {k for k, v in self.toplevel[modname].items() if isinstance(v, tuple)}:
                        tgt_mod = imp.rpartition(".")[0]
                        # follow re-export chains
                        hops = 0
                        while tgt_mod in self.src.modules and ann.id not in self.toplevel[tgt_mod] and hops < 5:
                            nxt = self.imports[tgt_mod].get(ann.id)
                            if not nxt:
                                break
                            tgt_mod = nxt.rpartition(".")[0]
                            hops += 1
                return self.type_from_annotation(tgt_mod, r[1], _depth + 1)
            return TypeRef()
        if isinstance(ann, ast.Subscript):
            head = ann.value
            hname = head.id if isinstance(head, ast.Name) else getattr(head, "attr", "")
            sl = ann.slice
            args = list(sl.elts) if isinstance(sl, ast.Tuple) else [sl]
            if hname == "Optional":
                t = self.type_from_annotation(modname, args[0], _depth + 1)
                return TypeRef(t.classes, t.elem, True)
            if hname == "Union":
                classes: List[ClassInfo] = []
                opt = False
                for a in args:
                    if isinstance(a, ast.Constant) and a.value is None:
                        opt = True
                        continue
                    t = self.type_from_annotation(modname, a, _depth + 1)
                    for c in t.classes:
                        if c not in classes:
                            classes.append(c)
                return TypeRef(tuple(classes), None, opt)
            if hname in ("List", "list", "Sequence", "Iterable", "Set", "set", "Iterator"):
                return TypeRef((), self.type_from_annotation(modname, args[0], _depth + 1))
            if hname in ("Tuple", "tuple"):
                return TypeRef((), self.type_from_annotation(modname, args[0], _depth + 1))
            if hname in ("Dict", "dict") and len(args) == 2:
                return TypeRef((), self.type_from_annotation(modname, args[1], _depth + 1))
        if isinstance(ann, ast.BinOp) and isinstance(ann.op, ast.BitOr):
            l = self.type_from_annotation(modname, ann.left, _depth + 1)
            r = self.type_from_annotation(modname, ann.right, _depth + 1)
            return TypeRef(tuple(dict.fromkeys(l.classes + r.classes)), l.elem or r.elem, True)
        return TypeRef()


def _enclosing_def(node: ast.AST):
    p = parent_of(node)
    while p is not None and not isinstance(p, (ast.FunctionDef, ast.AsyncFunctionDef)):
        if isinstance(p, ast.ClassDef):
            return None
        p = parent_of(p)
    return p


def enclosing_class(node: ast.AST):
    p = parent_of(node)
    while p is not None and not isinstance(p, ast.ClassDef):
        p = parent_of(p)
    return p


# ----------------------------------------------------------------------------
# local typing + call resolution
# ----------------------------------------------------------------------------
class Resolver:
    """Resolves the callee(s) of a Call inside a given function."""

    def __init__(self, index: Index):
        self.index = index
        self._local_types: Dict[str, Dict[str, TypeRef]] = {}
        self.stats = {"calls": 0, "unique": 0, "cha": 0, "external": 0}

    # -- local types -------------------------------------------------------------
    def local_types(self, fi: FuncInfo) -> Dict[str, TypeRef]:
        if fi.qualname in self._local_types:
            return self._local_types[fi.qualname]
        ix = self.index
        mod = fi.module.name
        env: Dict[str, TypeRef] = {}
        self._local_types[fi.qualname] = env
        if fi.parent is not None:
            env.update(self.local_types(fi.parent))
        a = fi.node.args
        allp = list(a.posonlyargs) + list(a.args) + list(a.kwonlyargs)
        for i, p in enumerate(allp):
            if i == 0 and fi.cls is not None and not fi.is_static and fi.parent is None:
                env[p.arg] = TypeRef((fi.cls,))
                continue
            t = ix.type_from_annotation(mod, p.annotation)
            if t:
                env[p.arg] = t
        # two passes so that later annotations are visible to loops above them is unnecessary;
        # a simple forward pass over statements in source order suffices here
        for node in _walk_own(fi.node):
            if isinstance(node, ast.AnnAssign) and isinstance(node.target, ast.Name):
                t = ix.type_from_annotation(mod, node.annotation)
                if t:
                    env[node.target.id] = t
                elif node.value is not None:
                    t = self.type_of(node.value, fi, env)
                    if t:
                        env[node.target.id] = t
            elif isinstance(node, ast.Assign) and len(node.targets) == 1:
                tg = node.targets[0]
                if isinstance(tg, ast.Name) and tg.id not in env:
                    t = self.type_of(node.value, fi, env)
                    if t:
                        env[tg.id] = t
            elif isinstance(node, (ast.For, ast.comprehension)):
                it = node.iter
                tg = node.target
                self._bind_loop_target(tg, it, fi, env)
        return env

    def _bind_loop_target(self, tg, it, fi, env) -> None:
        # for x in xs / for i, x in enumerate(xs) / for a, b in zip(xs, ys)
        if isinstance(it, ast.Call) and isinstance(it.func, ast.Name) and it.func.id == "enumerate" and it.args:
            if isinstance(tg, ast.Tuple) and len(tg.elts) == 2:
                self._bind_loop_target(tg.elts[1], it.args[0], fi, env)
            return
        if isinstance(it, ast.Call) and isinstance(it.func, ast.Name) and it.func.id == "zip":
            if isinstance(tg, ast.Tuple) and len(tg.elts) == len(it.args):
                for t1, i1 in zip(tg.elts, it.args):
                    self._bind_loop_target(t1, i1, fi, env)
            return
        if isinstance(tg, ast.Name) and tg.id not in env:
            t = self.type_of(it, fi, env)
            if t.elem is not None and t.elem:
                env[tg.id] = t.elem

    def type_of(self, expr: ast.expr, fi: FuncInfo, env: Optional[Dict[str, TypeRef]] = None) -> TypeRef:
        ix = self.index
        if env is None:
            env = self.local_types(fi)
        if isinstance(expr, ast.Name):
            if expr.id in env:
                return env[expr.id]
            r = ix.resolve_name(fi.module.name, expr.id)
            return TypeRef()
        if isinstance(expr, ast.Attribute):
            base = self.type_of(expr.value, fi, env)
            out: List[ClassInfo] = []
            elem = None
            for c in base.classes:
                t = self.attr_type(c, expr.attr)
                for cc in t.classes:
                    if cc not in out:
                        out.append(cc)
                elem = elem or t.elem
            return TypeRef(tuple(out), elem)
        if isinstance(expr, ast.Subscript):
            base = self.type_of(expr.value, fi, env)
            if isinstance(expr.slice, ast.Slice):
                return base
            return base.elem or TypeRef()
        if isinstance(expr, ast.Call):
            cands, _ = self.resolve_call(expr, fi, env, count=False)
            if len(cands) == 1:
                c = cands[0]
                if c.name == "__init__" and c.cls is not None:
                    k = self._ctor_class(expr, fi)
                    return TypeRef((k or c.cls,))
                return ix.type_from_annotation(c.module.name, c.node.returns)
            k = self._ctor_class(expr, fi)
            if k is not None:
                return TypeRef((k,))
            # xs.copy() / list(xs) keep the type
            if isinstance(expr.func, ast.Attribute) and expr.func.attr == "copy" and not expr.args:
                return self.type_of(expr.func.value, fi, env)
            if isinstance(expr.func, ast.Name) and expr.func.id in ("list", "sorted", "reversed") and expr.args:
                return self.type_of(expr.args[0], fi, env)
            return TypeRef()
        if isinstance(expr, ast.IfExp):
            a = self.type_of(expr.body, fi, env)
            b = self.type_of(expr.orelse, fi, env)
            return TypeRef(tuple(dict.fromkeys(a.classes + b.classes)), a.elem or b.elem)
        return TypeRef()

    def attr_type(self, c: ClassInfo, attr: str) -> TypeRef:
        """Type of ``<instance of c>.attr``.

        The annotation found in the MRO; refined when a base ``__init__`` stores a parameter
        (``self.attr = p``) and the concrete class's ``__init__`` hands a more precisely
        annotated parameter to ``super().__init__(p=q)``.
        """
        ix = self.index
        for k in c.mro():
            if attr not in k.attr_ann:
                continue
            t = ix.type_from_annotation(k.module.name, k.attr_ann[attr])
            if k is not c and "__init__" in k.methods:
                pname = None
                for sub in ast.walk(k.methods["__init__"].node):
                    if (
                        isinstance(sub, ast.Assign)
                        and len(sub.targets) == 1
                        and isinstance(sub.targets[0], ast.Attribute)
                        and sub.targets[0].attr == attr
                        and isinstance(sub.value, ast.Name)
                    ):
                        pname = sub.value.id
                init = c.methods.get("__init__")
                if pname and init is not None:
                    pann = {a.arg: a.annotation for a in init.node.args.args if a.annotation is not None}
                    for sub in ast.walk(init.node):
                        if (
                            isinstance(sub, ast.Call)
                            and isinstance(sub.func, ast.Attribute)
                            and sub.func.attr == "__init__"
                            and isinstance(sub.func.value, ast.Call)
                            and isinstance(sub.func.value.func, ast.Name)
                            and sub.func.value.func.id == "super"
                        ):
                            from .binder import bind

                            b = bind(sub, k.methods["__init__"])
                            v = b.bound.get(pname)
                            if isinstance(v, ast.Name) and v.id in pann:
                                t2 = ix.type_from_annotation(c.module.name, pann[v.id])
                                if t2:
                                    return t2
            return t
        return TypeRef()

    def _ctor_class(self, call: ast.Call, fi: FuncInfo) -> Optional[ClassInfo]:
        r = self.index.resolve_expr_symbol(fi.module.name, call.func) if isinstance(call.func, (ast.Name, ast.Attribute)) else None
        return r if isinstance(r, ClassInfo) else None

    # -- calls ---------------------------------------------------------------------
    def resolve_call(self, call: ast.Call, fi: FuncInfo, env=None, count: bool = True) -> Tuple[List[FuncInfo], str]:
        """Returns (candidates, kind) with kind in unique / cha / external / none.

        For constructor calls the candidate is the class's ``__init__`` (possibly inherited);
        use ``receiver_class`` to learn the concrete class.
        """
        cands, kind = self._resolve_call(call, fi, env)
        if count:
            self.stats["calls"] += 1
            if kind in self.stats:
                self.stats[kind] += 1
        return cands, kind

    def receiver_class(self, call: ast.Call, fi: FuncInfo) -> Optional[ClassInfo]:
        k = self._ctor_class(call, fi)
        if k is not None:
            return k
        f = call.func
        if isinstance(f, ast.Attribute):
            t = self.type_of(f.value, fi)
            if len(t.classes) == 1:
                return t.classes[0]
        return None

    def _resolve_call(self, call, fi, env):
        ix = self.index
        f = call.func
        mod = fi.module.name
        if isinstance(f, ast.Name):
            # nested function of the enclosing function(s)
            p = fi
            while p is not None:
                q = f"{p.qualname}.<locals>.{f.id}"
                if q in ix.functions:
                    return [ix.functions[q]], "unique"
                p = p.parent
            r = ix.resolve_name(mod, f.id)
            if isinstance(r, FuncInfo):
                return [r], "unique"
            if isinstance(r, ClassInfo):
                init = r.find_method("__init__")
                return ([init], "unique") if init is not None else ([], "external")
            return [], "external"
        if isinstance(f, ast.Attribute):
            name = f.attr
            # super().m(...)
            if (
                isinstance(f.value, ast.Call)
                and isinstance(f.value.func, ast.Name)
                and f.value.func.id == "super"
                and fi.cls is not None
            ):
                for c in fi.cls.mro()[1:]:
                    if name in c.methods:
                        return [c.methods[name]], "unique"
                return [], "external"
            # module.func or Class.method
            r = ix.resolve_expr_symbol(mod, f.value) if isinstance(f.value, (ast.Name, ast.Attribute)) else None
            if isinstance(r, tuple) and r[0] == "module":
                t = ix.resolve_dotted(r[1] + "." + name)
                if isinstance(t, FuncInfo):
                    return [t], "unique"
                if isinstance(t, ClassInfo):
                    init = t.find_method("__init__")
                    return ([init], "unique") if init else ([], "external")
                return [], "external"
            if isinstance(r, tuple) and r[0] == "external":
                return [], "external"
            if isinstance(r, ClassInfo):
                m = r.find_method(self._mangle(name, fi))
                if m is not None:
                    return [m], "unique"
                return [], "external"
            # typed receiver
            t = self.type_of(f.value, fi, env)
            if t.classes:
                found: List[FuncInfo] = []
                for c in t.classes:
                    m = c.find_method(self._mangle(name, fi))
                    if m is not None:
                        if m.is_abstract:
                            impls = [
                                s.methods[name]
                                for s in c.subclasses(ix)
                                if name in s.methods and not s.methods[name].is_abstract
                            ]
                            for i in impls:
                                if i not in found:
                                    found.append(i)
                            if not impls and m not in found:
                                found.append(m)
                        elif m not in found:
                            found.append(m)
                if len(found) == 1:
                    return found, "unique"
                if found:
                    return found, "cha"
                return [], "external"
            # class-hierarchy analysis by name
            cha = [m for m in ix.methods_by_name.get(self._mangle(name, fi), []) if not m.is_abstract]
            if cha and not _is_external_receiver(f.value, ix, mod):
                if len(cha) == 1:
                    return cha, "cha"
                return cha, "cha"
            return [], "external"
        return [], "none"

    @staticmethod
    def _mangle(name: str, fi: FuncInfo) -> str:
        return name


_EXTERNAL_ROOTS = {"np", "numpy", "math", "os", "logging", "json", "pickle", "plt", "pd", "yaml", "warnings", "sys"}


def _is_external_receiver(expr: ast.expr, ix: Index, mod: str) -> bool:
    root = expr
    while isinstance(root, (ast.Attribute, ast.Subscript, ast.Call)):
        root = root.value if not isinstance(root, ast.Call) else root.func
    if isinstance(root, ast.Name):
        if root.id in _EXTERNAL_ROOTS:
            return True
        r = ix.resolve_name(mod, root.id)
        if isinstance(r, tuple) and r[0] == "external":
            return True
    if isinstance(expr, (ast.Constant, ast.List, ast.Dict, ast.Tuple, ast.JoinedStr)):
        return True
    return False


def _walk_own(fnode: ast.AST):
    """Walk a function body in source order, not descending into nested defs/classes."""
    stack = list(reversed(list(ast.iter_child_nodes(fnode))))
    while stack:
        n = stack.pop()
        yield n
        if isinstance(n, (ast.FunctionDef, ast.AsyncFunctionDef, ast.ClassDef, ast.Lambda)):
            continue
        stack.extend(reversed(list(ast.iter_child_nodes(n))))


def walk_own(fnode: ast.AST):
    return _walk_own(fnode)


def calls_in(fnode: ast.AST) -> List[ast.Call]:
    return [n for n in _walk_own(fnode) if isinstance(n, ast.Call)]
