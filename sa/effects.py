"""E6 – ownership / mutation summaries.

For every function: which parameters (at which access path) *may be mutated*,
directly (in-place container methods, subscript / attribute stores, ``del``) or
through resolved callees (fixpoint over the call graph).  Flow-sensitive for
straight-line code (strong update of a re-bound local), union at joins.

Alias values: ``(kind, param, path)`` with kind ``same`` (the object at
``param.path`` itself) or ``shallow`` (a fresh container / copy whose *contents*
alias the contents of ``param.path``).  Fresh values carry no alias.
"""
from __future__ import annotations

import ast
from dataclasses import dataclass, field
from typing import Dict, FrozenSet, List, Optional, Set, Tuple

from .binder import bind
from .index import FuncInfo, Index, Resolver, walk_own
from .paths import MUTATORS

Alias = Tuple[str, str, str]  # (kind, param, path)
State = Dict[str, FrozenSet[Alias]]

FRESH_CALLS = {"list", "sorted", "tuple", "set", "dict", "reversed"}
DEEP_FRESH = {"deepcopy", "copy.deepcopy"}
SHALLOW_CALLS = {"copy", "copy.copy"}
PURE_EXTERNAL_ROOTS = {"np", "numpy", "math", "logging", "warnings", "os", "osp", "json", "pickle", "plt", "pd"}
MAX_PATH = 4


@dataclass
class Mutation:
    param: str
    path: str
    how: str
    line: int
    via: str = ""

    def key(self) -> Tuple[str, str]:
        return (self.param, self.path)


@dataclass
class Summary:
    mutates: Dict[Tuple[str, str], Mutation] = field(default_factory=dict)
    returns: Set[Alias] = field(default_factory=set)
    unresolved_mut: List[str] = field(default_factory=list)

    def sig(self):
        return (frozenset(self.mutates), frozenset(self.returns))


def _trim(path: str) -> str:
    # bound the path language
    parts = [p for p in path.replace("[]", ".[]").split(".") if p]
    if len(parts) > MAX_PATH:
        parts = parts[:MAX_PATH]
    out = ""
    for p in parts:
        out += "[]" if p == "[]" else "." + p
    return out


class Effects:
    def __init__(self, index: Index, resolver: Resolver):
        self.ix = index
        self.rs = resolver
        self.summ: Dict[str, Summary] = {}
        self.assumptions: Set[str] = set()

    # -- driver -----------------------------------------------------------------
    def solve(self, roots: Optional[List[FuncInfo]] = None, rounds: int = 8) -> None:
        funcs = list(self.ix.functions.values())
        for f in funcs:
            self.summ[f.qualname] = Summary()
        for _ in range(rounds):
            changed = False
            for f in funcs:
                old = self.summ[f.qualname].sig()
                self._analyse(f)
                if self.summ[f.qualname].sig() != old:
                    changed = True
            if not changed:
                break

    def of(self, fi: FuncInfo) -> Summary:
        return self.summ.get(fi.qualname, Summary())

    # -- per function ------------------------------------------------------------
    def _analyse(self, fi: FuncInfo) -> None:
        s = self.summ[fi.qualname]
        a = fi.node.args
        state: State = {}
        for p in list(a.posonlyargs) + list(a.args) + list(a.kwonlyargs):
            state[p.arg] = frozenset({("same", p.arg, "")})
        if a.vararg:
            state[a.vararg.arg] = frozenset({("shallow", a.vararg.arg, "")})
        if a.kwarg:
            state[a.kwarg.arg] = frozenset({("shallow", a.kwarg.arg, "")})
        self._cur = fi
        self._s = s
        self._block(fi.node.body, state)

    def _merge(self, a: State, b: State) -> State:
        out: State = {}
        for k in set(a) | set(b):
            out[k] = a.get(k, frozenset()) | b.get(k, frozenset())
        return out

    def _block(self, stmts, state: State) -> State:
        for st in stmts:
            state = self._stmt(st, state)
        return state

    def _stmt(self, st, state: State) -> State:
        if isinstance(st, (ast.Assign, ast.AnnAssign)):
            value = st.value
            if value is None:
                return state
            val = self._eval(value, state)
            targets = st.targets if isinstance(st, ast.Assign) else [st.target]
            for t in targets:
                state = self._assign(t, val, value, state, st)
            return state
        if isinstance(st, ast.AugAssign):
            self._eval(st.value, state)
            t = st.target
            if isinstance(t, ast.Name):
                # x += [...] mutates a list in place
                for al in state.get(t.id, frozenset()):
                    if al[0] == "same":
                        self._mut(al[1], al[2], "augmented assignment (in-place for lists)", st)
            else:
                base = t.value
                for al in self._eval(base, state):
                    if al[0] == "same":
                        self._mut(al[1], al[2] if isinstance(t, ast.Subscript) else _trim(al[2] + "." + t.attr), "augmented store", st)
                    elif al[0] == "shallow" and isinstance(t, ast.Attribute):
                        pass
            return state
        if isinstance(st, ast.Expr):
            self._eval(st.value, state)
            return state
        if isinstance(st, ast.If):
            self._eval(st.test, state)
            a = self._block(st.body, dict(state))
            b = self._block(st.orelse, dict(state))
            return self._merge(a, b)
        if isinstance(st, (ast.For, ast.While)):
            if isinstance(st, ast.For):
                it = self._eval(st.iter, state)
                elem = frozenset(self._elem(al) for al in it)
                state = self._assign(st.target, elem, st.iter, state, st, loopvar=True)
            else:
                self._eval(st.test, state)
            s1 = self._block(st.body, dict(state))
            s1 = self._merge(state, s1)
            if isinstance(st, ast.For):
                s1 = self._assign(st.target, frozenset(self._elem(al) for al in self._eval(st.iter, s1)), st.iter, s1, st, loopvar=True)
            s2 = self._block(st.body, dict(s1))
            out = self._merge(s1, s2)
            return self._block(st.orelse, out) if st.orelse else out
        if isinstance(st, ast.Return):
            if st.value is not None:
                for al in self._eval(st.value, state):
                    self._s.returns.add(al)
            return state
        if isinstance(st, ast.With):
            for it in st.items:
                v = self._eval(it.context_expr, state)
                if it.optional_vars is not None:
                    state = self._assign(it.optional_vars, v, it.context_expr, state, st)
            return self._block(st.body, state)
        if isinstance(st, ast.Try):
            a = self._block(st.body, dict(state))
            out = self._merge(state, a)
            for h in st.handlers:
                out = self._merge(out, self._block(h.body, dict(out)))
            out = self._block(st.orelse, out)
            return self._block(st.finalbody, out)
        if isinstance(st, ast.Delete):
            for t in st.targets:
                if isinstance(t, ast.Subscript):
                    for al in self._eval(t.value, state):
                        if al[0] == "same":
                            self._mut(al[1], al[2], "del x[i]", st)
                elif isinstance(t, ast.Attribute):
                    for al in self._eval(t.value, state):
                        if al[0] == "same":
                            self._mut(al[1], _trim(al[2] + "." + t.attr), "del x.attr", st)
            return state
        if isinstance(st, (ast.Assert,)):
            self._eval(st.test, state)
            return state
        if isinstance(st, ast.Raise):
            if st.exc is not None:
                self._eval(st.exc, state)
            return state
        return state

    def _elem(self, al: Alias) -> Alias:
        return ("same", al[1], _trim(al[2] + "[]"))

    def _assign(self, t, val: FrozenSet[Alias], value_expr, state: State, st, loopvar: bool = False) -> State:
        if isinstance(t, ast.Name):
            state = dict(state)
            state[t.id] = frozenset(val)
            for k in [k for k in state if k.startswith(t.id + ".")]:
                del state[k]
            return state
        if isinstance(t, (ast.Tuple, ast.List)):
            # element-wise when the value is a literal tuple, otherwise every target gets the element aliases
            if isinstance(value_expr, (ast.Tuple, ast.List)) and len(value_expr.elts) == len(t.elts):
                for tt, vv in zip(t.elts, value_expr.elts):
                    state = self._assign(tt, self._eval(vv, state), vv, state, st)
                return state
            for tt in t.elts:
                if isinstance(tt, ast.Starred):
                    tt = tt.value
                sub = frozenset(self._elem(al) if not loopvar else al for al in val) | (frozenset(val) if not loopvar else frozenset())
                state = self._assign(tt, sub if not loopvar else frozenset(val), value_expr, state, st)
            return state
        if isinstance(t, ast.Attribute):
            for al in self._eval(t.value, state):
                if al[0] == "same":
                    self._mut(al[1], _trim(al[2] + "." + t.attr), f"attribute store .{t.attr} =", st)
            if isinstance(t.value, ast.Name):
                # strong update of a field of a local object (x.attr = value): later reads see the new value
                state = dict(state)
                state[f"{t.value.id}.{t.attr}"] = frozenset(val)
            return state
        if isinstance(t, ast.Subscript):
            self._eval(t.slice, state) if not isinstance(t.slice, ast.Slice) else None
            for al in self._eval(t.value, state):
                if al[0] == "same":
                    self._mut(al[1], al[2], "subscript store x[i] =", st)
            return state
        if isinstance(t, ast.Starred):
            return self._assign(t.value, val, value_expr, state, st)
        return state

    def _mut(self, param: str, path: str, how: str, node, via: str = "") -> None:
        key = (param, path)
        if key not in self._s.mutates:
            self._s.mutates[key] = Mutation(param, path, how, getattr(node, "lineno", 0), via)

    # -- expressions --------------------------------------------------------------
    def _eval(self, e, state: State) -> FrozenSet[Alias]:
        if e is None:
            return frozenset()
        if isinstance(e, ast.Name):
            return state.get(e.id, frozenset())
        if isinstance(e, ast.Attribute):
            if isinstance(e.value, ast.Name) and f"{e.value.id}.{e.attr}" in state:
                return state[f"{e.value.id}.{e.attr}"]
            base = self._eval(e.value, state)
            return frozenset(("same", al[1], _trim(al[2] + "." + e.attr)) for al in base)
        if isinstance(e, ast.Subscript):
            base = self._eval(e.value, state)
            if not isinstance(e.slice, ast.Slice):
                self._eval(e.slice, state)
                return frozenset(self._elem(al) for al in base)
            return frozenset(("shallow", al[1], al[2]) for al in base)
        if isinstance(e, ast.Call):
            return self._call(e, state)
        if isinstance(e, ast.IfExp):
            self._eval(e.test, state)
            return self._eval(e.body, state) | self._eval(e.orelse, state)
        if isinstance(e, ast.BoolOp):
            out = frozenset()
            for v in e.values:
                out |= self._eval(v, state)
            return out
        if isinstance(e, (ast.List, ast.Tuple, ast.Set)):
            # a fresh container; that its elements may alias parameters is not tracked (listed as an assumption)
            for x in e.elts:
                self._eval(x.value if isinstance(x, ast.Starred) else x, state)
            return frozenset()
        if isinstance(e, ast.Dict):
            for k in e.keys:
                self._eval(k, state)
            for v in e.values:
                self._eval(v, state)
            return frozenset()
        if isinstance(e, (ast.ListComp, ast.SetComp, ast.GeneratorExp, ast.DictComp)):
            st2 = dict(state)
            for g in e.generators:
                it = self._eval(g.iter, st2)
                st2 = self._assign(g.target, frozenset(self._elem(al) for al in it), g.iter, st2, e, loopvar=True)
                for i in g.ifs:
                    self._eval(i, st2)
            if isinstance(e, ast.DictComp):
                self._eval(e.key, st2)
                self._eval(e.value, st2)
                return frozenset()
            el = self._eval(e.elt, st2)
            # a comprehension [x for x in xs] is a shallow copy of xs
            out = set()
            for al in el:
                if al[0] == "same" and al[2].endswith("[]"):
                    out.add(("shallow", al[1], al[2][:-2]))
            return frozenset(out)
        if isinstance(e, (ast.BinOp,)):
            l = self._eval(e.left, state)
            r = self._eval(e.right, state)
            if isinstance(e.op, ast.Add):
                return frozenset(("shallow", al[1], al[2]) for al in (l | r))
            return frozenset()
        if isinstance(e, (ast.UnaryOp,)):
            self._eval(e.operand, state)
            return frozenset()
        if isinstance(e, ast.Compare):
            self._eval(e.left, state)
            for c in e.comparators:
                self._eval(c, state)
            return frozenset()
        if isinstance(e, ast.Starred):
            return self._eval(e.value, state)
        if isinstance(e, ast.JoinedStr):
            for v in e.values:
                if isinstance(v, ast.FormattedValue):
                    self._eval(v.value, state)
            return frozenset()
        if isinstance(e, ast.NamedExpr):
            v = self._eval(e.value, state)
            return v
        return frozenset()

    def _call(self, e: ast.Call, state: State) -> FrozenSet[Alias]:
        f = e.func
        fname = ast.unparse(f)
        argvals = [self._eval(a.value if isinstance(a, ast.Starred) else a, state) for a in e.args]
        kwvals = {k.arg: self._eval(k.value, state) for k in e.keywords}
        # method call on a receiver
        if isinstance(f, ast.Attribute):
            recv = self._eval(f.value, state)
            name = f.attr
            if name in MUTATORS and recv:
                cands, kind = self.rs.resolve_call(e, self._cur, count=False)
                if kind not in ("unique",):
                    for al in recv:
                        if al[0] == "same":
                            self._mut(al[1], al[2], f".{name}()", e)
                    return frozenset()
            if name == "copy" and not e.args:
                return frozenset(("shallow", al[1], al[2]) for al in recv)
            if name in ("get", "pop", "setdefault") and recv:
                return frozenset(self._elem(al) for al in recv)
            if name in ("items", "values", "keys"):
                return frozenset(("shallow", al[1], al[2]) for al in recv)
        else:
            recv = frozenset()
        if fname in DEEP_FRESH:
            return frozenset()
        if fname in SHALLOW_CALLS and argvals:
            return frozenset(("shallow", al[1], al[2]) for al in argvals[0])
        if fname in FRESH_CALLS and argvals:
            return frozenset(("shallow", al[1], al[2]) for al in argvals[0])
        if fname in ("enumerate", "zip", "iter", "filter", "map"):
            out = frozenset()
            for v in argvals:
                out |= frozenset(("shallow", al[1], al[2]) for al in v)
            return out
        cands, kind = self.rs.resolve_call(e, self._cur, count=False)
        if kind in ("unique", "cha") and cands:
            out: Set[Alias] = set()
            for c in cands:
                summ = self.summ.get(c.qualname)
                if summ is None:
                    continue
                b = bind(e, c)
                actual: Dict[str, FrozenSet[Alias]] = {}
                for pn, ae in b.bound.items():
                    actual[pn] = self._eval(ae, state)
                if c.cls is not None and not c.is_static and c.parent is None and isinstance(f, ast.Attribute) and c.name != "__init__":
                    selfname = c.node.args.args[0].arg if c.node.args.args else "self"
                    actual[selfname] = recv
                elif c.name == "__init__":
                    pass
                for (pn, sub), m in list(summ.mutates.items()):
                    for al in actual.get(pn, frozenset()):
                        if al[0] == "same":
                            if kind == "unique":
                                self._mut(al[1], _trim(al[2] + sub), m.how, e, via=c.qualname)
                        elif al[0] == "shallow" and sub not in ("",) and not sub.startswith("."):
                            # contents of a shallow copy are shared: mutation below the top level reaches the original
                            if kind == "unique":
                                self._mut(al[1], _trim(al[2] + sub), m.how, e, via=c.qualname)
                for (rk, rp, rpath) in list(summ.returns):
                    for al in actual.get(rp, frozenset()):
                        if al[0] == "same":
                            out.add((rk, al[1], _trim(al[2] + rpath)))
                        else:
                            out.add(("shallow", al[1], _trim(al[2] + rpath)) if rpath == "" else ("same", al[1], _trim(al[2] + rpath)))
                if c.name == "__init__":
                    return frozenset()  # a new object (its fields may alias, tracked through attr typing only)
            return frozenset(out)
        # unknown callee
        root = f
        while isinstance(root, (ast.Attribute, ast.Call, ast.Subscript)):
            root = root.func if isinstance(root, ast.Call) else root.value
        if isinstance(f, ast.Attribute) and recv and isinstance(root, ast.Name) and root.id not in PURE_EXTERNAL_ROOTS:
            lname = f.attr.lower()
            if any(lname.startswith(p) for p in ("set_", "add_", "remove", "update", "clear", "insert", "append", "extend", "sort", "reverse")):
                for al in recv:
                    if al[0] == "same":
                        self._mut(al[1], al[2], f"unresolved method .{f.attr}() named like a mutator", e)
            else:
                self.assumptions.add(f"unresolved method .{f.attr}() on a parameter-aliased receiver is assumed non-mutating")
        return frozenset()
