"""E2 – call-site binding: which argument reaches which parameter."""
from __future__ import annotations

import ast
from dataclasses import dataclass, field
from typing import Dict, List, Optional

from .index import FuncInfo


@dataclass
class Binding:
    callee: FuncInfo
    bound: Dict[str, ast.expr] = field(default_factory=dict)  # parameter -> argument expr
    defaults: Dict[str, Optional[ast.expr]] = field(default_factory=dict)  # parameters left at default
    missing: List[str] = field(default_factory=list)  # required parameters not bound
    absorbed_kw: Dict[str, ast.expr] = field(default_factory=dict)  # keywords swallowed by **kwargs
    unknown_kw: Dict[str, ast.expr] = field(default_factory=dict)  # keywords with no parameter and no **kwargs
    extra_pos: List[ast.expr] = field(default_factory=list)  # positionals swallowed by *args / too many
    star_args: bool = False  # call has *expr
    star_kwargs: List[ast.expr] = field(default_factory=list)  # call has **expr


def bind(call: ast.Call, callee: FuncInfo, bound_method: Optional[bool] = None) -> Binding:
    """Bind the arguments of ``call`` to ``callee``'s parameters.

    ``bound_method``: whether the first parameter (self/cls) is supplied implicitly.
    Default: yes for methods that are not static (including ``K(...)`` -> ``__init__``
    and ``K.classmethod(...)``).
    """
    a = callee.node.args
    pos = list(a.posonlyargs) + list(a.args)
    if bound_method is None:
        bound_method = callee.cls is not None and not callee.is_static and callee.parent is None
    if bound_method and pos:
        pos = pos[1:]
    n_def = len(a.defaults)
    all_pos = list(a.posonlyargs) + list(a.args)
    defaults_map: Dict[str, ast.expr] = {}
    for p, d in zip(all_pos[len(all_pos) - n_def :], a.defaults):
        defaults_map[p.arg] = d
    for p, d in zip(a.kwonlyargs, a.kw_defaults):
        if d is not None:
            defaults_map[p.arg] = d
    b = Binding(callee)
    names = [p.arg for p in pos]
    kwonly = [p.arg for p in a.kwonlyargs]
    i = 0
    for arg in call.args:
        if isinstance(arg, ast.Starred):
            b.star_args = True
            continue
        if i < len(names):
            b.bound[names[i]] = arg
            i += 1
        else:
            b.extra_pos.append(arg)
    for kw in call.keywords:
        if kw.arg is None:
            b.star_kwargs.append(kw.value)
            continue
        if kw.arg in names or kw.arg in kwonly:
            b.bound[kw.arg] = kw.value
        elif a.kwarg is not None:
            b.absorbed_kw[kw.arg] = kw.value
        else:
            b.unknown_kw[kw.arg] = kw.value
    for n in names + kwonly:
        if n not in b.bound:
            if n in defaults_map:
                b.defaults[n] = defaults_map[n]
            elif not b.star_args and not b.star_kwargs:
                b.missing.append(n)
    return b


def reads_kwargs(callee: FuncInfo) -> bool:
    """True iff the function reads its ``**kwargs`` parameter anywhere."""
    kw = callee.node.args.kwarg
    if kw is None:
        return False
    for n in ast.walk(callee.node):
        if isinstance(n, ast.Name) and n.id == kw.arg and isinstance(n.ctx, ast.Load):
            return True
    return False
