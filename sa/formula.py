"""E7 – rational-function normaliser for formula conformance.

Polynomials with rational coefficients over symbols; a rational function is a
pair (numerator, denominator); equality is decided by cross multiplication, so no
gcd is needed.  Non-arithmetic sub-expressions become symbols (canonical text);
``max/min/abs/sqrt/...`` become *function nodes* that are interned modulo
equality of their (normalised) arguments, commutative ones modulo argument order.
"""
from __future__ import annotations

import ast
from fractions import Fraction
from typing import Callable, Dict, List, Optional, Sequence, Tuple

from .paths import strip_v

Mono = Tuple[Tuple[str, int], ...]
Poly = Dict[Mono, Fraction]


class Unrecognised(Exception):
    """The expression contains a construct the normaliser was not told about."""


def p_const(c) -> Poly:
    c = Fraction(c)
    return {(): c} if c != 0 else {}


def p_sym(s: str) -> Poly:
    return {((s, 1),): Fraction(1)}


def p_add(a: Poly, b: Poly, sign: int = 1) -> Poly:
    out = dict(a)
    for m, c in b.items():
        v = out.get(m, Fraction(0)) + sign * c
        if v == 0:
            out.pop(m, None)
        else:
            out[m] = v
    return out


def _m_mul(a: Mono, b: Mono) -> Mono:
    d = dict(a)
    for s, e in b:
        d[s] = d.get(s, 0) + e
    return tuple(sorted((s, e) for s, e in d.items() if e != 0))


def p_mul(a: Poly, b: Poly) -> Poly:
    out: Poly = {}
    for m1, c1 in a.items():
        for m2, c2 in b.items():
            m = _m_mul(m1, m2)
            v = out.get(m, Fraction(0)) + c1 * c2
            if v == 0:
                out.pop(m, None)
            else:
                out[m] = v
    return out


def p_eq(a: Poly, b: Poly) -> bool:
    return not p_add(a, b, -1)


class Rat:
    __slots__ = ("n", "d")

    def __init__(self, n: Poly, d: Optional[Poly] = None):
        self.n = n
        self.d = d if d is not None else p_const(1)

    def __add__(self, o: "Rat") -> "Rat":
        if p_eq(self.d, o.d):
            return Rat(p_add(self.n, o.n), self.d)
        return Rat(p_add(p_mul(self.n, o.d), p_mul(o.n, self.d)), p_mul(self.d, o.d))

    def __neg__(self) -> "Rat":
        return Rat(p_mul(self.n, p_const(-1)), self.d)

    def __sub__(self, o: "Rat") -> "Rat":
        return self + (-o)

    def __mul__(self, o: "Rat") -> "Rat":
        return Rat(p_mul(self.n, o.n), p_mul(self.d, o.d))

    def __truediv__(self, o: "Rat") -> "Rat":
        if not o.n:
            raise Unrecognised("division by the zero polynomial")
        return Rat(p_mul(self.n, o.d), p_mul(self.d, o.n))

    def equals(self, o: "Rat") -> bool:
        return p_eq(p_mul(self.n, o.d), p_mul(o.n, self.d))

    def is_const(self) -> Optional[Fraction]:
        if all(m == () for m in self.n) and all(m == () for m in self.d) and self.d:
            return self.n.get((), Fraction(0)) / self.d[()]
        return None

    def symbols(self) -> set:
        out = set()
        for poly in (self.n, self.d):
            for m in poly:
                for s, _ in m:
                    out.add(s)
        return out

    def __repr__(self) -> str:  # pragma: no cover
        def ps(p: Poly) -> str:
            if not p:
                return "0"
            parts = []
            for m, c in sorted(p.items()):
                mon = "*".join(s if e == 1 else f"{s}^{e}" for s, e in m)
                parts.append(f"{c}" + ("*" + mon if mon else ""))
            return " + ".join(parts)

        return f"({ps(self.n)})/({ps(self.d)})"


COMMUTATIVE = {"max", "min", "hypot"}
PI_TEXTS = {"math.pi", "np.pi", "numpy.pi", "pi", "PI"}
_FN_ALIASES = {
    "math.sqrt": "sqrt", "np.sqrt": "sqrt", "numpy.sqrt": "sqrt", "sqrt": "sqrt",
    "math.fabs": "abs", "np.abs": "abs", "np.absolute": "abs", "abs": "abs",
    "max": "max", "min": "min", "np.maximum": "max", "np.minimum": "min",
    "math.hypot": "hypot", "np.hypot": "hypot",
    "np.linalg.norm": "norm", "numpy.linalg.norm": "norm",
    "np.mean": "mean", "np.std": "std", "np.sum": "sum", "sum": "sum", "len": "len",
    "np.cumsum": "cumsum", "np.array": "array", "np.asarray": "array",
    "np.power": "pow", "math.pow": "pow", "np.square": "square",
    "np.nanmean": "nanmean", "np.nanstd": "nanstd", "np.nanmax": "nanmax", "np.nanmin": "nanmin",
    "np.max": "amax", "np.min": "amin",
}


class Formula:
    def __init__(self, transparent: Sequence[str] = ("float", "int"), rename: Optional[Dict[str, str]] = None,
                 allow_calls: Optional[Sequence[str]] = None, strict: bool = False):
        self.transparent = set(transparent)
        self.rename = {k.replace(" ", ""): v for k, v in (rename or {}).items()}
        self.allow_calls = set(allow_calls) if allow_calls is not None else None
        self.strict = strict
        self._fn: List[Tuple[str, Tuple, str]] = []  # (fname, args, symbol)

    # -- interning --------------------------------------------------------------
    def _fn_symbol(self, fname: str, args: List[object]) -> str:
        for name, a, sym in self._fn:
            if name != fname or len(a) != len(args):
                continue
            if self._args_eq(list(a), args, fname in COMMUTATIVE):
                return sym
        sym = f"{fname}#{len(self._fn)}"
        self._fn.append((fname, tuple(args), sym))
        return sym

    def _args_eq(self, a: List[object], b: List[object], commutative: bool) -> bool:
        def eq(x, y) -> bool:
            if isinstance(x, Rat) and isinstance(y, Rat):
                return x.equals(y)
            return (not isinstance(x, Rat)) and (not isinstance(y, Rat)) and x == y

        if not commutative:
            return all(eq(x, y) for x, y in zip(a, b))
        rest = list(b)
        for x in a:
            for i, y in enumerate(rest):
                if eq(x, y):
                    del rest[i]
                    break
            else:
                return False
        return True

    def describe(self, sym: str) -> str:
        for name, a, s in self._fn:
            if s == sym:
                return f"{name}({', '.join(map(repr, a))})"
        return sym

    # -- parsing -------------------------------------------------------------------
    def parse_text(self, text: str) -> Rat:
        return self.parse(ast.parse(text, mode="eval").body)

    def sym(self, text: str) -> Rat:
        text = strip_v(text).replace(" ", "")
        if text in PI_TEXTS:
            return Rat(p_sym("pi"))
        return Rat(p_sym(self.rename.get(text, text)))

    def parse(self, e: ast.expr) -> Rat:
        if self.rename and not isinstance(e, ast.Constant):
            whole = strip_v(ast.unparse(e)).replace(" ", "")
            if whole in self.rename:
                return Rat(p_sym(self.rename[whole]))
        if isinstance(e, ast.Constant):
            if isinstance(e.value, bool) or not isinstance(e.value, (int, float)):
                raise Unrecognised(f"non-numeric constant {e.value!r}")
            if isinstance(e.value, float):
                if e.value != e.value or e.value in (float("inf"), float("-inf")):
                    return Rat(p_sym("inf")) if e.value > 0 else -Rat(p_sym("inf"))
                return Rat(p_const(Fraction(repr(e.value))))
            return Rat(p_const(e.value))
        if isinstance(e, (ast.Name, ast.Attribute, ast.Subscript)):
            t = ast.unparse(e)
            if isinstance(e, (ast.Name, ast.Attribute)):
                return self.sym(t)
            # subscript: normalise the index text only
            return self.sym(t)
        if isinstance(e, ast.UnaryOp):
            if isinstance(e.op, ast.USub):
                return -self.parse(e.operand)
            if isinstance(e.op, ast.UAdd):
                return self.parse(e.operand)
            raise Unrecognised(f"unary operator {type(e.op).__name__}")
        if isinstance(e, ast.BinOp):
            if isinstance(e.op, ast.Pow):
                base = self.parse(e.left)
                ex = e.right
                if isinstance(ex, ast.Constant) and isinstance(ex.value, int) and 0 <= ex.value <= 6:
                    out = Rat(p_const(1))
                    for _ in range(ex.value):
                        out = out * base
                    return out
                if isinstance(ex, ast.Constant) and ex.value == 0.5:
                    return Rat(p_sym(self._fn_symbol("sqrt", [base])))
                return Rat(p_sym(self._fn_symbol("pow", [base, self.parse(ex)])))
            l, r = self.parse(e.left), self.parse(e.right)
            if isinstance(e.op, ast.Add):
                return l + r
            if isinstance(e.op, ast.Sub):
                return l - r
            if isinstance(e.op, ast.Mult):
                return l * r
            if isinstance(e.op, ast.Div):
                return l / r
            if isinstance(e.op, ast.FloorDiv):
                return Rat(p_sym(self._fn_symbol("floordiv", [l, r])))
            if isinstance(e.op, ast.Mod):
                return Rat(p_sym(self._fn_symbol("mod", [l, r])))
            if isinstance(e.op, ast.MatMult):
                return Rat(p_sym(self._fn_symbol("matmul", [l, r])))
            raise Unrecognised(f"binary operator {type(e.op).__name__}")
        if isinstance(e, ast.Call):
            fn = strip_v(ast.unparse(e.func))
            if fn == "float" and len(e.args) == 1 and isinstance(e.args[0], ast.Constant) and isinstance(e.args[0].value, str):
                if e.args[0].value.lower() in ("inf", "+inf", "infinity"):
                    return Rat(p_sym("inf"))
                if e.args[0].value.lower() in ("-inf",):
                    return -Rat(p_sym("inf"))
                if e.args[0].value.lower() == "nan":
                    return Rat(p_sym("nan"))
            if fn in self.transparent and len(e.args) >= 1:
                return self.parse(e.args[0])
            name = _FN_ALIASES.get(fn)
            if name is None:
                if self.allow_calls is not None and fn not in self.allow_calls and not any(fn.endswith("." + a) for a in self.allow_calls):
                    raise Unrecognised(f"undeclared call {fn}(...)")
                if self.strict:
                    raise Unrecognised(f"undeclared call {fn}(...)")
                name = fn
            args: List[object] = []
            for a in e.args:
                args.append(self._arg(a))
            for k in e.keywords:
                args.append((k.arg, self._arg(k.value)))
            if name == "square" and len(args) == 1 and isinstance(args[0], Rat):
                return args[0] * args[0]
            if name == "pow" and len(args) == 2 and isinstance(args[1], Rat) and args[1].is_const() == 2 and isinstance(args[0], Rat):
                return args[0] * args[0]
            return Rat(p_sym(self._fn_symbol(name, args)))
        if isinstance(e, ast.IfExp):
            return Rat(p_sym(self._fn_symbol("ite", [strip_v(ast.unparse(e.test)), self.parse(e.body), self.parse(e.orelse)])))
        if isinstance(e, (ast.Tuple, ast.List)):
            return Rat(p_sym(self._fn_symbol("tuple", [self._arg(x) for x in e.elts])))
        raise Unrecognised(f"expression kind {type(e).__name__}: {ast.unparse(e)[:60]}")

    def _arg(self, a: ast.expr):
        try:
            return self.parse(a)
        except Unrecognised:
            return strip_v(ast.unparse(a))

    def same(self, a: ast.expr, b_text: str) -> bool:
        return self.parse(a).equals(self.parse_text(b_text))


def formula_equal(expr: ast.expr, spec: str, rename: Optional[Dict[str, str]] = None, **kw) -> bool:
    f = Formula(rename=rename, **kw)
    return f.parse(expr).equals(f.parse_text(spec))
