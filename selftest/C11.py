ORE = "evaluation/result/object_result.py"
AC = "evaluation/metrics/classification/accuracy.py"
CS = "evaluation/metrics/classification/classification_metrics_score.py"

VARIANTS = [
    dict(name="stage2-drops-frame-id", kind="break", rule="C11-match-guard", edits=[(ORE,
        "                est_object.uuid == gt_object.uuid\n                and est_object.frame_id == gt_object.frame_id\n                and est_object in estimated_objects_\n                and gt_object in ground_truth_objects_\n            ):",
        "                est_object.uuid == gt_object.uuid\n                and est_object in estimated_objects_\n                and gt_object in ground_truth_objects_\n            ):")]),
    dict(name="stage1-drops-membership-guard", kind="break", rule="C11-match-guard", edits=[(ORE,
        "                est_object.semantic_label == gt_object.semantic_label\n                and est_object.frame_id == gt_object.frame_id\n                and est_object in estimated_objects_\n                and gt_object in ground_truth_objects_\n            )",
        "                est_object.semantic_label == gt_object.semantic_label\n                and est_object.frame_id == gt_object.frame_id\n                and est_object in estimated_objects_\n            )")]),
    dict(name="removes-only-the-estimate", kind="break", rule="C11-match-guard", edits=[(ORE,
        "                estimated_objects_.remove(est_object)\n                ground_truth_objects_.remove(gt_object)\n\n    # 2. matching based on same ID", "                estimated_objects_.remove(est_object)\n\n    # 2. matching based on same ID")]),
    dict(name="uuid-first-ignores-uuid", kind="break", rule="C11-match-guard", edits=[(ORE,
        "                est_object.semantic_label == gt_object.semantic_label\n                and est_object.uuid == gt_object.uuid\n                and est_object.frame_id == gt_object.frame_id",
        "                est_object.semantic_label == gt_object.semantic_label\n                and est_object.frame_id == gt_object.frame_id")]),
    dict(name="with-id-drops-frame", kind="break", rule="C11-match-guard", edits=[(ORE,
        "            if est_object.uuid == gt_object.uuid and est_object.frame_id == gt_object.frame_id:", "            if est_object.uuid == gt_object.uuid:")]),
    dict(name="stage2-iterates-all-objects", kind="break", rule="C11-match-guard", edits=[(ORE,
        "    rest_estimated_objects_ = estimated_objects_.copy()\n", "    rest_estimated_objects_ = estimated_objects.copy()\n")]),
    dict(name="pair-swapped", kind="break", rule="C11-match-guard", edits=[(ORE,
        "            if est_object.uuid == gt_object.uuid and est_object.frame_id == gt_object.frame_id:\n                object_results.append(\n                    DynamicObjectWithPerceptionResult(estimated_object=est_object, ground_truth_object=gt_object)",
        "            if est_object.uuid == gt_object.uuid and est_object.frame_id == gt_object.frame_id:\n                object_results.append(\n                    DynamicObjectWithPerceptionResult(estimated_object=gt_object, ground_truth_object=est_object)")]),
    dict(name="f1-without-factor-two", kind="break", rule="C11-formula", edits=[(CS,
        "f1score = 2 * precision * recall / (precision + recall)", "f1score = precision * recall / (precision + recall)")]),
    dict(name="accuracy-denominator-plus-tp", kind="break", rule="C11-formula", edits=[(AC,
        "            num_tp / (self.objects_results_num + self.num_ground_truth - num_tp)\n", "            num_tp / (self.objects_results_num + self.num_ground_truth)\n")]),
    dict(name="recall-over-estimates", kind="break", rule="C11-formula", edits=[(AC,
        "recall = num_tp / self.num_ground_truth if self.num_ground_truth != 0", "recall = num_tp / self.objects_results_num if self.num_ground_truth != 0")]),
    dict(name="fscore-beta-misplaced", kind="break", rule="C11-formula", edits=[(AC,
        "(1 + beta**2) * precision * recall / (beta**2 * precision + recall)\n            if", "(1 + beta**2) * precision * recall / (precision + beta**2 * recall)\n            if")]),
    dict(name="summary-precision-over-estimates-plus-gt", kind="break", rule="C11-formula", edits=[(CS,
        "precision = num_tp / (num_tp + num_fp) if (num_tp + num_fp) != 0", "precision = num_tp / (num_tp + num_gt) if (num_tp + num_fp) != 0")]),
    dict(name="tp-counts-every-result", kind="break", rule="C11-count", edits=[(AC,
        "            if obj_result.is_label_correct:\n                num_tp += 1\n            else:\n                num_fp += 1", "            num_tp += 1\n            if not obj_result.is_label_correct:\n                num_fp += 1")]),
    dict(name="null-uuid-not-rejected", kind="break", rule="C11-match-guard", edits=[(ORE,
        "    for est_object in estimated_objects:\n        for gt_object in ground_truth_objects:\n            if est_object.uuid is None or gt_object.uuid is None:\n                raise RuntimeError(\n                    f\"uuid of estimation and ground truth must be set, but got {est_object.uuid} and {gt_object.uuid}\"\n                )\n            if est_object.uuid == gt_object.uuid and",
        "    for est_object in estimated_objects:\n        for gt_object in ground_truth_objects:\n            if est_object.uuid == gt_object.uuid and")]),
    dict(name="seed-uuid-first-flag-shadowed-by-default", kind="break", rule="C11-match-guard", edits=[
        (ORE, "def match_condition(est_object: DynamicObject2D, gt_object: DynamicObject2D, uuid_matching_first: bool) -> bool:", "def match_condition(est_object: DynamicObject2D, gt_object: DynamicObject2D, uuid_matching_first: bool = False) -> bool:"),
        (ORE, "            if match_condition(est_object, gt_object, uuid_matching_first):\n", "            if match_condition(est_object, gt_object):\n")]),
    # benign
    dict(name="match-condition-inlined", kind="benign", edits=[(ORE,
        "            if match_condition(est_object, gt_object, uuid_matching_first):\n",
        "            if (\n                est_object.semantic_label == gt_object.semantic_label\n                and (not uuid_matching_first or est_object.uuid == gt_object.uuid)\n                and est_object.frame_id == gt_object.frame_id\n                and est_object in estimated_objects_\n                and gt_object in ground_truth_objects_\n            ):\n")]),
    dict(name="accuracy-denominator-local", kind="benign", edits=[(AC,
        "        return (\n            num_tp / (self.objects_results_num + self.num_ground_truth - num_tp)\n            if (self.objects_results_num + self.num_ground_truth - num_tp) != 0\n            else float(\"inf\")\n        )",
        "        denominator = self.num_ground_truth + self.objects_results_num - num_tp\n        return num_tp / denominator if denominator != 0 else float(\"inf\")")]),
    dict(name="remove-order-swapped", kind="benign", edits=[(ORE,
        "                estimated_objects_.remove(est_object)\n                ground_truth_objects_.remove(gt_object)\n\n    # 2. matching based on same ID",
        "                ground_truth_objects_.remove(gt_object)\n                estimated_objects_.remove(est_object)\n\n    # 2. matching based on same ID")]),
]

VARIANTS += [
    dict(name="seed2-gt-index-keyed-by-uuid-only", kind="break", rule="C11-match-guard", edits=[("evaluation/result/object_result.py",
        """    for est_object in estimated_objects:
        for gt_object in ground_truth_objects:
            if est_object.uuid is None or gt_object.uuid is None:
                raise RuntimeError(
                    f"uuid of estimation and ground truth must be set, but got {est_object.uuid} and {gt_object.uuid}"
                )
            if est_object.uuid == gt_object.uuid and est_object.frame_id == gt_object.frame_id:
                object_results.append(
                    DynamicObjectWithPerceptionResult(estimated_object=est_object, ground_truth_object=gt_object)
                )
                estimated_objects_.remove(est_object)
                ground_truth_objects_.remove(gt_object)
""", """    gt_table = {gt_object.uuid: gt_object for gt_object in ground_truth_objects}
    for est_object in estimated_objects:
        if est_object.uuid is None or None in gt_table:
            raise RuntimeError("uuid of estimation and ground truth must be set")
        gt_object = gt_table.get(est_object.uuid)
        if gt_object is not None and est_object.frame_id == gt_object.frame_id:
            object_results.append(
                DynamicObjectWithPerceptionResult(estimated_object=est_object, ground_truth_object=gt_object)
            )
            estimated_objects_.remove(est_object)
            ground_truth_objects_.remove(gt_object)
""")]),
]
