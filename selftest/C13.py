MGR = "manager/perception_evaluation_manager.py"
PFR = "evaluation/result/perception_frame_result.py"
MET = "evaluation/metrics/metrics.py"
OFI = "evaluation/matching/objects_filter.py"

VARIANTS = [
    dict(name="D8-manager-stores-onto-callers-frame", kind="break", rule="C13-ownership", edits=[(MGR,
        "        # NOTE: narrow a shallow copy, the caller's (dataset's) frame must keep all objects\n        frame_ground_truth = copy(frame_ground_truth)\n", "")]),
    dict(name="D8-evaluate_frame-stores-onto-given-frame", kind="break", rule="C13-ownership", edits=[(PFR,
        "        # NOTE: narrow a shallow copy, the frame given by the caller must keep all objects\n        self.frame_ground_truth = copy(self.frame_ground_truth)\n", "")]),
    dict(name="sort-callers-estimates", kind="break", rule="C13-ownership", edits=[(MGR,
        "        estimated_objects = filter_objects(\n            objects=estimated_objects,\n            is_gt=False,", "        estimated_objects.sort(key=lambda o: o.semantic_score)\n        estimated_objects = filter_objects(\n            objects=estimated_objects,\n            is_gt=False,")]),
    dict(name="filter-in-place-on-dataset-list", kind="break", rule="C13-ownership", edits=[(PFR,
        "        self.frame_ground_truth.objects = filter_objects(\n            self.frame_ground_truth.objects,\n            is_gt=True,\n            transforms=self.frame_ground_truth.transforms,\n            **self.pass_fail_result.critical_object_filter_config.filtering_params,\n        )",
        "        self.frame_ground_truth.objects[:] = filter_objects(\n            self.frame_ground_truth.objects,\n            is_gt=True,\n            transforms=self.frame_ground_truth.transforms,\n            **self.pass_fail_result.critical_object_filter_config.filtering_params,\n        )")]),
    dict(name="predecessor-is-first-frame", kind="break", rule="C13-history", edits=[(MGR,
        "result.evaluate_frame(previous_result=self.frame_results[-1])", "result.evaluate_frame(previous_result=self.frame_results[0])")]),
    dict(name="detection-uses-previous-result", kind="break", rule="C13-history", edits=[(PFR,
        "        if self.metrics_score.detection_config is not None:\n            self.metrics_score.evaluate_detection(object_results_dict, num_ground_truth_dict)",
        "        if self.metrics_score.detection_config is not None:\n            if previous_result is not None:\n                num_ground_truth_dict = divide_objects_to_num(previous_result.frame_ground_truth.objects, self.target_labels)\n            self.metrics_score.evaluate_detection(object_results_dict, num_ground_truth_dict)")]),
    dict(name="scene-pools-only-later-frames", kind="break", rule="C13-pooling", edits=[(MGR,
        "        for frame in self.frame_results:\n", "        for frame in self.frame_results[1:]:\n")]),
    dict(name="scene-gt-count-from-results", kind="break", rule="C13-pooling", edits=[(MGR,
        "num_gt_dict = divide_objects_to_num(frame.frame_ground_truth.objects, target_labels)", "num_gt_dict = divide_objects_to_num(frame.object_results, target_labels)")]),
    dict(name="scene-gt-overwritten", kind="break", rule="C13-pooling", edits=[(MGR,
        "                all_num_gt[label] += num_gt_dict[label]", "                all_num_gt[label] = num_gt_dict[label]")]),
    dict(name="metrics-gt-overwritten", kind="break", rule="C13-pooling", edits=[(MET,
        "        self.__num_gt += sum(num_ground_truth.values())\n        classification_score_", "        self.__num_gt = sum(num_ground_truth.values())\n        classification_score_")]),
    dict(name="frame-result-shares-manager-metrics-score", kind="break", rule="C13-", edits=[(MGR,
        "        self.frame_results.append(result)\n        return result", "        self.frame_results.append(result)\n        self.frame_results.sort(key=lambda r: r.unix_time)\n        return result")]),
    dict(name="divide-objects-pops-input", kind="break", rule="C13-ownership", edits=[(OFI,
        "    for obj in objects:\n        label: LabelType = (\n            obj.estimated_object.semantic_label.label\n            if isinstance(obj, DynamicObjectWithPerceptionResult)",
        "    objects.reverse()\n    for obj in objects:\n        label: LabelType = (\n            obj.estimated_object.semantic_label.label\n            if isinstance(obj, DynamicObjectWithPerceptionResult)")]),
    # benign
    dict(name="copy-via-copy-module", kind="benign", edits=[(MGR,
        "from copy import copy\n", "import copy as _copy\nfrom copy import copy\n"), (MGR,
        "        frame_ground_truth = copy(frame_ground_truth)\n", "        frame_ground_truth = _copy.copy(frame_ground_truth)\n")]),
    dict(name="previous-into-local", kind="benign", edits=[(MGR,
        "        if len(self.frame_results) > 0:\n            result.evaluate_frame(previous_result=self.frame_results[-1])", "        if len(self.frame_results) > 0:\n            previous = self.frame_results[-1]\n            result.evaluate_frame(previous_result=previous)")]),
    dict(name="scene-dividers-into-locals", kind="benign", edits=[(MGR,
        "            for label in target_labels:\n                all_frame_results[label].append(obj_result_dict[label])\n                all_num_gt[label] += num_gt_dict[label]",
        "            for label in target_labels:\n                bucket = obj_result_dict[label]\n                all_frame_results[label].append(bucket)\n                all_num_gt[label] = all_num_gt[label] + num_gt_dict[label]")]),
]
