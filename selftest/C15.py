PC = "config/perception_evaluation_config.py"
SCF = "config/sensing_evaluation_config.py"
BC = "config/_evaluation_config_base.py"
TH = "common/threshold.py"
FC = "evaluation/result/perception_frame_config.py"
MS = "evaluation/metrics/metrics_score_config.py"
MB = "evaluation/metrics/config/_metrics_config_base.py"

VARIANTS = [
    dict(name="D9a-both-kinds-accepted", kind="break", rule="C15-range-kinds", edits=[(PC,
        "        if None not in (max_x_position, max_y_position) and None not in (max_distance, min_distance):\n            raise RuntimeError(\"Either max x/y position or max/min distance should be specified\")\n        elif None not in (max_x_position, max_y_position):",
        "        if None not in (max_x_position, max_y_position):")]),
    dict(name="D9b-min-distance-hand-broadcast", kind="break", rule="C15-normalised", edits=[(PC,
        "min_distance_list: List[float] = set_thresholds(min_distance, num_elements, False)", "min_distance_list: List[float] = [min_distance] * len(target_labels)")]),
    dict(name="detection-min-points-check-dropped", kind="break", rule="C15-mandatory", edits=[(PC,
        "        if self.evaluation_task == EvaluationTask.DETECTION and min_point_numbers is None:\n            raise RuntimeError(\"In detection task, min point numbers must be specified\")\n", "")]),
    dict(name="label-prefix-defaulted", kind="break", rule="C15-mandatory", edits=[(PC,
        '"label_prefix": e_cfg["label_prefix"],', '"label_prefix": e_cfg.get("label_prefix", "autoware"),')]),
    dict(name="3d-without-range-accepted", kind="break", rule="C15-range-kinds", edits=[(PC,
        "        elif self.evaluation_task.is_2d():\n            max_x_position_list = None\n            max_y_position_list = None\n            max_distance_list = None\n            min_distance_list = None\n        else:\n            raise RuntimeError(\"Either max x/y position or max/min distance should be specified\")",
        "        else:\n            max_x_position_list = None\n            max_y_position_list = None\n            max_distance_list = None\n            min_distance_list = None")]),
    dict(name="xy-needs-only-x", kind="break", rule="C15-range-kinds", edits=[(PC,
        "        elif None not in (max_x_position, max_y_position):", "        elif max_x_position is not None:")]),
    dict(name="pad-instead-of-raise", kind="break", rule="C15-normaliser", edits=[(TH,
        "    elif len(threshold) != 1 and num_elements != len(threshold):\n        raise ThresholdError(f\"Number of list elements must be {num_elements} or 1, but got {len(threshold)}\")\n\n    return threshold * num_elements if len(threshold) == 1 else threshold",
        "    elif len(threshold) != 1 and num_elements != len(threshold):\n        return (threshold * num_elements)[:num_elements]\n\n    return threshold * num_elements if len(threshold) == 1 else threshold")]),
    dict(name="mixed-types-accepted", kind="break", rule="C15-normaliser", edits=[(TH,
        "    elif any([not isinstance(t, Real) for t in threshold]):\n        raise ThresholdError(f\"Type of all elements must be Real number, but got {threshold}\")\n    elif len(threshold) != 1 and num_elements",
        "    elif len(threshold) != 1 and num_elements")]),
    dict(name="check-thresholds-length-unchecked", kind="break", rule="C15-normaliser", edits=[(TH,
        "    elif len(thresholds) != num_elements:\n        raise ThresholdError(\n            f\"Expected the number of elements is {num_elements}, \" f\"but got {len(thresholds)}\",\n        )\n    return thresholds",
        "    return thresholds")]),
    dict(name="set-thresholds-skips-check", kind="break", rule="C15-normaliser", edits=[(TH,
        "        output: List[Real] = __get_thresholds(thresholds, target_objects_num)\n        return check_thresholds(output, target_objects_num)", "        output: List[Real] = __get_thresholds(thresholds, target_objects_num)\n        return output")]),
    dict(name="sensing-task-added-to-perception", kind="break", rule="C15-task-gate", edits=[(PC,
        '        "fp_validation",\n    ]', '        "fp_validation",\n        "sensing",\n    ]')]),
    dict(name="unsupported-task-string-in-list", kind="break", rule="C15-task-gate", edits=[(PC,
        '        "tracking2d",\n', '        "tracking_2d",\n')]),
    dict(name="task-gate-dropped", kind="break", rule="C15-task-gate", edits=[(BC,
        "        if task not in self.support_tasks:\n            raise ValueError(f\"Unsupported task: {task}\\nSupported tasks: {self.support_tasks}\")\n", "")]),
    dict(name="frame-config-unchecked-list", kind="break", rule="C15-normalised", edits=[(FC,
        "            self.max_distance_list: List[float] = check_thresholds(max_distance_list, num_elements)", "            self.max_distance_list: List[float] = max_distance_list")]),
    dict(name="frame-config-3d-without-range", kind="break", rule="C15-frame-config", edits=[(FC,
        "        elif evaluator_config.evaluation_task.is_2d():\n            self.max_x_position_list = None\n            self.max_y_position_list = None\n            self.max_distance_list = None\n            self.min_distance_list = None\n        else:\n            raise RuntimeError(\"Either max x/y position or max/min distance should be specified\")",
        "        else:\n            self.max_x_position_list = None\n            self.max_y_position_list = None\n            self.max_distance_list = None\n            self.min_distance_list = None")]),
    dict(name="metric-params-check-dropped-for-detection", kind="break", rule="C15-metric-params", edits=[(MS,
        "            self._check_parameters(DetectionMetricsConfig, cfg)\n            self.detection_config = DetectionMetricsConfig(**cfg)", "            self.detection_config = DetectionMetricsConfig(**cfg)")]),
    dict(name="check-parameters-never-raises", kind="break", rule="C15-metric-params", edits=[(MS,
        "        if not input_params <= valid_parameters:\n            raise MetricsParameterError(", "        if not input_params <= valid_parameters and False:\n            raise MetricsParameterError(")]),
    dict(name="metric-thresholds-not-nested", kind="break", rule="C15-normalised", edits=[(MB,
        "self.iou_3d_thresholds = set_thresholds(iou_3d_thresholds, num_targets, True)", "self.iou_3d_thresholds = set_thresholds(iou_3d_thresholds, num_targets, False)")]),
    # benign
    dict(name="elif-to-nested-if", kind="benign", edits=[(PC,
        "        if conf_thresh is not None:\n            confidence_threshold_list: List[float] = set_thresholds(conf_thresh, num_elements, False)\n        else:\n            confidence_threshold_list = None",
        "        confidence_threshold_list = None\n        if conf_thresh is not None:\n            confidence_threshold_list = set_thresholds(conf_thresh, num_elements, False)")]),
    dict(name="both-kinds-check-spelled-differently", kind="benign", edits=[(PC,
        "        if None not in (max_x_position, max_y_position) and None not in (max_distance, min_distance):",
        "        if max_x_position is not None and max_y_position is not None and max_distance is not None and min_distance is not None:")]),
]

# seeded (wave 5): the all-numeric check moved behind an early return of the broadcast case
VARIANTS += [
    dict(name="seed-flat-broadcast-unchecked", kind="break", rule="C15-normaliser", edits=[("common/threshold.py",
        """    if isinstance(threshold[0], Real):
        if any([not isinstance(t, Real) for t in threshold]):
            raise ThresholdError(f"Type of all elements must be same, but got {threshold}")
        return [[t] * num_elements for t in threshold] if len(threshold) != num_elements else [threshold]
""", """    if isinstance(threshold[0], Real):
        if len(threshold) != num_elements:
            return [[t] * num_elements for t in threshold]
        if any([not isinstance(t, Real) for t in threshold]):
            raise ThresholdError(f"Type of all elements must be same, but got {threshold}")
        return [threshold]
""")]),
    dict(name="flat-check-then-split-returns", kind="benign", edits=[("common/threshold.py",
        "        return [[t] * num_elements for t in threshold] if len(threshold) != num_elements else [threshold]\n",
        "        if len(threshold) != num_elements:\n            return [[t] * num_elements for t in threshold]\n        return [threshold]\n")]),
]
