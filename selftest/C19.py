AB = "tool/perception_analyzer_base.py"
A3 = "tool/perception_analyzer3d.py"
UT = "tool/utils.py"
FR = "evaluation/result/perception_frame_result.py"
OF = "evaluation/matching/objects_filter.py"

GT_T = """            transform_key = TransformKey(gt.frame_id, FrameID.BASE_LINK)
            gt_position, gt_rotation = transforms.transform(
                transform_key,
                gt.state.position,
                gt.state.orientation,
            )"""
EST_T = """            transform_key = TransformKey(estimation.frame_id, FrameID.BASE_LINK)
            est_position, est_rotation = transforms.transform(
                transform_key,
                estimation.state.position,
                estimation.state.orientation,
            )"""

VARIANTS = [
    dict(name="fn-list-dropped", kind="break", rule="C19-emission", edits=[(AB,
        "        if len(fn_df) > 0:\n            start += len(fn_df) // 2\n            concat.append(fn_df)\n", "        if len(fn_df) > 0:\n            start += len(fn_df) // 2\n")]),
    dict(name="tn-tabulated-as-fn", kind="break", rule="C19-emission", edits=[(AB,
        "            frame.pass_fail_result.tn_objects,\n            status=MatchingStatus.TN,", "            frame.pass_fail_result.tn_objects,\n            status=MatchingStatus.FN,")]),
    dict(name="fp-block-reads-tp-list", kind="break", rule="C19-emission", edits=[(AB,
        "            frame.pass_fail_result.fp_object_results,\n            status=MatchingStatus.FP,", "            frame.pass_fail_result.tp_object_results,\n            status=MatchingStatus.FP,")]),
    dict(name="row-index-not-halved", kind="break", rule="C19-emission", edits=[(AB, "            start += len(fp_df) // 2\n", "            start += len(fp_df)\n")]),
    dict(name="format2df-skips-first", kind="break", rule="C19-emission", edits=[(AB,
        "for i, obj_result in enumerate(object_results, start=start):", "for i, obj_result in enumerate(object_results[1:], start=start):")]),
    dict(name="gt-x-not-transformed", kind="break", rule="R-FRAME", edits=[(A3, "            gt_x, gt_y, _ = gt_position\n", "            gt_x, gt_y, _ = gt.state.position\n")]),
    dict(name="est-key-uses-gt-frame", kind="break", rule="R-FRAME", edits=[(A3,
        "            transform_key = TransformKey(estimation.frame_id, FrameID.BASE_LINK)", "            transform_key = TransformKey(estimation.frame_id, FrameID.MAP)")]),
    dict(name="est-yaw-from-raw-orientation", kind="break", rule="R-SIGNEDYAW", edits=[(A3,
        "            est_yaw, _, _ = est_rotation.yaw_pitch_roll\n", "            est_yaw, _, _ = estimation.state.orientation.yaw_pitch_roll\n")]),
    dict(name="gt-yaw-is-roll", kind="break", rule="R-SIGNEDYAW", edits=[(A3, "            gt_yaw, _, _ = gt_rotation.yaw_pitch_roll\n", "            _, _, gt_yaw = gt_rotation.yaw_pitch_roll\n")]),
    dict(name="width-length-swapped-in-estimation", kind="break", rule="C19-fields", edits=[(A3, "            est_w, est_l, est_h = estimation.state.size\n", "            est_l, est_w, est_h = estimation.state.size\n")]),
    dict(name="estimation-confidence-from-gt", kind="break", rule="C19-fields", edits=[(A3, "                confidence=estimation.semantic_score,", "                confidence=gt.semantic_score,")]),
    dict(name="bare-fn-object-fills-estimation", kind="break", rule="C19-fields", edits=[(A3,
        "            elif status == MatchingStatus.FN:\n                estimation = None\n                gt: DynamicObject = object_result", "            elif status == MatchingStatus.FN:\n                estimation = object_result\n                gt = None")]),
    dict(name="area-without-transform", kind="break", rule="R-FRAME", edits=[(UT,
        "    x, y, _ = transforms.transform(transform_key, position)\n\n    is_x_inside", "    x, y, _ = position\n\n    is_x_inside")]),
    dict(name="error-est-minus-gt", kind="break", rule="C19-errors", edits=[(AB, "            err: np.ndarray = gt_arr - est_arr\n", "            err: np.ndarray = est_arr - gt_arr\n")]),
    dict(name="yaw-wrap-by-pi", kind="break", rule="R-ANGLEWRAP", edits=[(AB, "                err[err > np.pi] = -2 * np.pi + err[err > np.pi]\n", "                err[err > np.pi] = -np.pi + err[err > np.pi]\n")]),
    dict(name="yaw-wrap-lower-missing", kind="break", rule="R-ANGLEWRAP", edits=[(AB, "                err[err < -np.pi] = 2 * np.pi + err[err < -np.pi]\n", "")]),
    dict(name="errors-over-tp-only-pairs-with-fn", kind="break", rule="C19-errors", edits=[(AB,
        'gt_df, est_df = self.get_pair_results(df[df["status"].isin(["TP", "FP", "TN"])])', 'gt_df, est_df = self.get_pair_results(df[df["status"].isin(["TP", "FN"])])')]),
    dict(name="rms-without-square", kind="break", rule="C19-errors", edits=[(A3, "err_rms = np.sqrt(np.square(err).mean())", "err_rms = np.sqrt(np.abs(err).mean())")]),
    dict(name="max-signed", kind="break", rule="C19-errors", edits=[(A3, "err_max = np.max(np.abs(err))", "err_max = np.max(err)")]),
    dict(name="fp-rate-over-gt", kind="break", rule="C19-errors", edits=[(AB,
        'data["FP"][i] = num_fp / num_det if num_det != 0 else 0.0', 'data["FP"][i] = num_fp / num_ground_truth if num_det != 0 else 0.0')]),
    dict(name="fn-rate-over-det", kind="break", rule="C19-errors", edits=[(AB,
        'data["FN"][i] = self.get_num_fn(df=df, label=label) / num_ground_truth', 'data["FN"][i] = self.get_num_fn(df=df, label=label) / num_det')]),
    dict(name="confusion-index-transposed-base", kind="break", rule="C19-errors", edits=[(AB,
        "matrix: np.ndarray = np.bincount(indices, minlength=num_classes**2)", "matrix: np.ndarray = np.bincount(indices, minlength=num_classes)")]),
    dict(name="status-tally-fn-as-fp", kind="break", rule="C19-emission", edits=[(FR,
        "                fn_status = GroundTruthStatus(fn_object.uuid)\n                fn_status.add_status(MatchingStatus.FN, frame_num)", "                fn_status = GroundTruthStatus(fn_object.uuid)\n                fn_status.add_status(MatchingStatus.FP, frame_num)")]),
    dict(name="status-tally-fp-without-gt", kind="break", rule="C19-", edits=[(FR,
        "            if fp_object_result.ground_truth_object is None:\n                continue\n            if fp_object_result.ground_truth_object.uuid not in status_infos:",
        "            if fp_object_result.ground_truth_object is None:\n                GroundTruthStatus(fp_object_result.estimated_object.uuid).add_status(MatchingStatus.FP, frame_num)\n                continue\n            if fp_object_result.ground_truth_object.uuid not in status_infos:")]),
    # a new double count in the status flow must be reported although the (FP,FN) one is a known finding
    dict(name="tp-gt-also-listed-fn", kind="break", rule="C19-gt-once", edits=[(OF,
        "        elif gt_status == MatchingStatus.FN:\n            fn_objects.append(object_result.ground_truth_object)\n\n        if gt_status is not None:", "        elif gt_status in (MatchingStatus.FN, MatchingStatus.TP):\n            fn_objects.append(object_result.ground_truth_object)\n\n        if gt_status is not None:")]),
    dict(name="num-tn-on-estimation-rows", kind="break", rule="C19-counts", edits=[(AB,
        '        df_ = self.get_ground_truth(df=df, **kwargs)\n        return sum(df_["status"] == "TN")', '        df_ = self.get_estimation(df=df, **kwargs)\n        return sum(df_["status"] == "TN")')]),
    dict(name="num-fp-counts-tp", kind="break", rule="C19-counts", edits=[(AB, 'return sum(df_["status"] == "FP")', 'return sum(df_["status"] == "TP")')]),
    dict(name="status-num-tn-dispatches-fn", kind="break", rule="C19-counts", edits=[(AB,
        "        elif status == MatchingStatus.TN:\n            return self.get_num_tn(df, **kwargs)", "        elif status == MatchingStatus.TN:\n            return self.get_num_fn(df, **kwargs)")]),
    dict(name="ground-truth-keeps-placeholder-rows", kind="break", rule="C19-counts", edits=[(AB,
        '        df = df.xs("ground_truth", level=1)\n        df = df[~df["status"].isnull()]\n', '        df = df.xs("ground_truth", level=1)\n')]),
    dict(name="estimation-getter-reads-gt-side", kind="break", rule="C19-counts", edits=[(AB, '        df = df.xs("estimation", level=1)\n', '        df = df.xs("ground_truth", level=1)\n')]),
    dict(name="placeholder-row-has-status", kind="break", rule="C19-counts", edits=[(A3,
        "                else:\n                    est_ret[key] = None", "                else:\n                    est_ret[key] = str(status) if key == \"status\" else None")]),
    dict(name="seed-scene-truthiness", kind="break", rule="C19-selection", edits=[(A3, "        if scene is not None:\n            kwargs.update({\"scene\": scene})", "        if scene:\n            kwargs.update({\"scene\": scene})")]),
    dict(name="area-truthiness", kind="break", rule="C19-selection", edits=[(A3, "        if area is not None:\n            kwargs.update({\"area\": area})", "        if area:\n            kwargs.update({\"area\": area})")]),
    dict(name="area-selection-stored-as-scene", kind="break", rule="C19-selection", edits=[(A3, 'kwargs.update({"area": area})', 'kwargs.update({"scene": area})')]),
    dict(name="errors-from-whole-table", kind="break", rule="C19-selection", edits=[(A3, "            error_df = self.summarize_error(df=df)\n", "            error_df = self.summarize_error()\n")]),
    dict(name="confusion-before-distance-filter", kind="break", rule="C19-selection", edits=[(A3,
        "        df: pd.DataFrame = self.get(**kwargs)\n        if distance is not None:\n            df = self.filter_by_distance(distance, df)\n",
        "        df: pd.DataFrame = self.get(**kwargs)\n        all_df = df\n        if distance is not None:\n            df = self.filter_by_distance(distance, df)\n"),
        (A3, "confusion_matrix_df = self.get_confusion_matrix(df=df)", "confusion_matrix_df = self.get_confusion_matrix(df=all_df)")]),
    dict(name="filter-keeps-half-pairs", kind="break", rule="C19-selection", edits=[(AB, "            mask *= cur_mask.groupby(level=0).any().repeat(2).values\n", "            mask *= cur_mask.values\n")]),
    dict(name="filter-inverted-equality", kind="break", rule="C19-selection", edits=[(AB, "                cur_mask = df[key] == item\n            mask *=", "                cur_mask = df[key] != item\n            mask *=")]),
    dict(name="seed-stale-alias-reaches-pass-fail", kind="break", rule="C03-critical", edits=[
        (FR, """        self.frame_ground_truth = copy(self.frame_ground_truth)
        self.frame_ground_truth.objects = filter_objects(
            self.frame_ground_truth.objects,""", """        frame_ground_truth = self.frame_ground_truth
        self.frame_ground_truth = copy(frame_ground_truth)
        self.frame_ground_truth.objects = filter_objects(
            frame_ground_truth.objects,"""),
        (FR, "self.pass_fail_result.evaluate(self.object_results, self.frame_ground_truth.objects)", "self.pass_fail_result.evaluate(self.object_results, frame_ground_truth.objects)")]),
    dict(name="seed-yaw-wrap-inplace-wrong-sign", kind="break", rule="R-ANGLEWRAP", edits=[(AB,
        "                err[err > np.pi] = -2 * np.pi + err[err > np.pi]\n                err[err < -np.pi] = 2 * np.pi + err[err < -np.pi]\n",
        "                err[err > np.pi] -= 2 * np.pi\n                err[err < -np.pi] -= 2 * np.pi\n")]),
    # benign
    dict(name="seed4-yaw-wrap-by-fmod-keeps-sign-of-dividend", kind="break", rule="R-ANGLEWRAP", edits=[(AB,
        '                err[err > np.pi] = -2 * np.pi + err[err > np.pi]\n                err[err < -np.pi] = 2 * np.pi + err[err < -np.pi]\n',
        '                err = np.fmod(err + np.pi, 2 * np.pi) - np.pi\n')]),
    dict(name="yaw-wrap-by-python-modulo", kind="benign", edits=[(AB,
        '                err[err > np.pi] = -2 * np.pi + err[err > np.pi]\n                err[err < -np.pi] = 2 * np.pi + err[err < -np.pi]\n',
        '                err = (err + np.pi) % (2 * np.pi) - np.pi\n')]),
    dict(name="scene-none-test-negated", kind="benign", edits=[(A3, "        if scene is not None:\n            kwargs.update({\"scene\": scene})", "        if not (scene is None):\n            kwargs.update({\"scene\": scene})")]),
    dict(name="yaw-wrap-inplace", kind="benign", edits=[(AB,
        "                err[err > np.pi] = -2 * np.pi + err[err > np.pi]\n                err[err < -np.pi] = 2 * np.pi + err[err < -np.pi]\n",
        "                err[err > np.pi] -= 2 * np.pi\n                err[err < -np.pi] += 2 * np.pi\n")]),
    dict(name="num-tp-sum-method", kind="benign", edits=[(AB, 'return sum(df_["status"] == "TP")', 'return int((df_["status"] == "TP").sum())')]),
    dict(name="transform-key-inlined", kind="benign", edits=[(A3, GT_T,
        "            transform_key = TransformKey(gt.frame_id, FrameID.BASE_LINK)\n            gt_position, gt_rotation = transforms.transform(TransformKey(gt.frame_id, FrameID.BASE_LINK), gt.state.position, gt.state.orientation)")]),
    dict(name="est-position-indexing", kind="benign", edits=[(A3, "            est_x, est_y, _ = est_position\n", "            est_x = est_position[0]\n            est_y = est_position[1]\n")]),
    dict(name="yaw-by-index", kind="benign", edits=[(A3, "            gt_yaw, _, _ = gt_rotation.yaw_pitch_roll\n", "            gt_yaw = gt_rotation.yaw_pitch_roll[0]\n")]),
    dict(name="yaw-wrap-augmented", kind="benign", edits=[(AB, "                err[err > np.pi] = -2 * np.pi + err[err > np.pi]\n", "                err[err > np.pi] -= 2.0 * np.pi\n")]),
    dict(name="error-named-diff", kind="benign", edits=[(AB, "            err: np.ndarray = gt_arr - est_arr\n", "            diff = gt_arr - est_arr\n            err: np.ndarray = diff\n")]),
    dict(name="rms-mean-square", kind="benign", edits=[(A3, "err_rms = np.sqrt(np.square(err).mean())", "err_rms = np.sqrt(np.mean(np.square(err)))")]),
    dict(name="fp-rate-inline", kind="benign", edits=[(AB,
        'data["FP"][i] = num_fp / num_det if num_det != 0 else 0.0', 'data["FP"][i] = num_fp / (num_tp + num_fp) if num_det != 0 else 0.0')]),
    dict(name="add-frame-hoists-transforms", kind="benign", edits=[(AB,
        "        tp_df = self.format2df(\n            frame.pass_fail_result.tp_object_results,\n            status=MatchingStatus.TP,\n            start=start,\n            frame_num=int(frame.frame_name),\n            transforms=frame.frame_ground_truth.transforms,\n        )",
        "        tfs = frame.frame_ground_truth.transforms\n        tp_df = self.format2df(\n            frame.pass_fail_result.tp_object_results,\n            status=MatchingStatus.TP,\n            start=start,\n            frame_num=int(frame.frame_name),\n            transforms=tfs,\n        )")]),
]
