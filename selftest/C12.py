PT = "common/point.py"
OB = "common/object.py"
SR = "evaluation/sensing/sensing_result.py"
FR = "evaluation/sensing/sensing_frame_result.py"
FC = "evaluation/sensing/sensing_frame_config.py"
MG = "manager/sensing_evaluation_manager.py"
MA = "util/math.py"
SC = "common/schema.py"

VARIANTS = [
    dict(name="min-points-strict", kind="break", rule="C12-flags", edits=[(SR,
        "self.is_detected: bool = self.inside_pointcloud_num >= min_points_threshold", "self.is_detected: bool = self.inside_pointcloud_num > min_points_threshold")]),
    dict(name="success-before-warning", kind="break", rule="C12-classify", edits=[(FR,
        "            if sensing_result.is_occluded:\n                self.detection_warning_results.append(sensing_result)\n            elif sensing_result.is_detected:\n                self.detection_success_results.append(sensing_result)",
        "            if sensing_result.is_detected:\n                self.detection_success_results.append(sensing_result)\n            elif sensing_result.is_occluded:\n                self.detection_warning_results.append(sensing_result)")]),
    dict(name="occluded-also-counted-as-fail", kind="break", rule="C12-classify", edits=[(FR,
        "            if sensing_result.is_occluded:\n                self.detection_warning_results.append(sensing_result)\n            elif sensing_result.is_detected:",
        "            if sensing_result.is_occluded:\n                self.detection_warning_results.append(sensing_result)\n            if sensing_result.is_detected:")]),
    dict(name="outside-branch-uses-and", kind="break", rule="C12-partition", edits=[(PT,
        "        idx = np.bitwise_or(xy_idx, z_idx)", "        idx = np.bitwise_and(xy_idx, z_idx)")]),
    dict(name="outside-z-non-strict", kind="break", rule="C12-partition", edits=[(PT,
        "np.bitwise_or((pointcloud[:, 2] < z_min), (z_max < pointcloud[:, 2]))", "np.bitwise_or((pointcloud[:, 2] <= z_min), (z_max < pointcloud[:, 2]))")]),
    dict(name="outside-xy-strict", kind="break", rule="C12-partition", edits=[(PT,
        "xy_idx: np.ndarray = 0 < cnt_arr_ if inside else cnt_arr_ <= 0", "xy_idx: np.ndarray = 0 < cnt_arr_ if inside else cnt_arr_ < 0")]),
    dict(name="crop-from-original-cloud", kind="break", rule="C12-fold", edits=[(MG,
        "                    pointcloud=outside_points,\n", "                    pointcloud=points,\n")]),
    dict(name="frame-fold-restarts", kind="break", rule="C12-fold", edits=[(FR,
        "                point_non_detection = crop_pointcloud(\n                    point_non_detection,", "                point_non_detection_ = crop_pointcloud(\n                    point_non_detection,")]),
    dict(name="scale-slope-per-ten", kind="break", rule="C12-scale", edits=[(FC,
        "self.scale_slope_: float = 0.01 * (box_scale_100m - box_scale_0m)", "self.scale_slope_: float = 0.1 * (box_scale_100m - box_scale_0m)")]),
    dict(name="bbox-scale-intercept-100m", kind="break", rule="C12-scale", edits=[(MA,
        "    return slope * distance + box_scale_0m", "    return slope * distance + box_scale_100m")]),
    dict(name="z-range-full-height", kind="break", rule="C12-box", edits=[(OB,
        "        upper[:, 2] = self.state.position[2] + (self.state.size[2] / 2)", "        upper[:, 2] = self.state.position[2] + self.state.size[2]")]),
    dict(name="scale-ignored-in-crop", kind="break", rule="C12-box", edits=[(OB,
        "        corners: np.ndarray = self.get_corners(scale=bbox_scale)", "        corners: np.ndarray = self.get_corners()")]),
    dict(name="scale-after-translation", kind="break", rule="C12-box", edits=[(OB,
        "        footprint = footprint * scale\n", ""), (OB, "            rotate_point[:2] = rotate_point[:2] + self.state.position[:2]", "            rotate_point[:2] = (rotate_point[:2] + self.state.position[:2]) * scale")]),
    dict(name="D4-visibility-returns-key", kind="break", rule="C12-flags", edits=[(SC,
        "        for _, v in cls.__members__.items():\n            if v == name:\n                return v\n        return cls.from_alias(name)",
        "        for k, v in cls.__members__.items():\n            if v == name:\n                return k\n        return cls.from_alias(name)")]),
    dict(name="manager-distance-without-transforms", kind="break", rule="R-TF", edits=[(MG,
        "distance=ground_truth.get_distance(transforms),", "distance=ground_truth.get_distance(),")]),
    dict(name="empty-remainder-reported", kind="break", rule="C12-fold", edits=[(FR,
        "            if len(point_non_detection) != 0:\n                self.pointcloud_failed_non_detection.append(point_non_detection)", "            self.pointcloud_failed_non_detection.append(point_non_detection)")]),
    # benign
    dict(name="elif-chain-to-continues", kind="benign", edits=[(FR,
        "            if sensing_result.is_occluded:\n                self.detection_warning_results.append(sensing_result)\n            elif sensing_result.is_detected:\n                self.detection_success_results.append(sensing_result)\n            else:\n                self.detection_fail_results.append(sensing_result)",
        "            if sensing_result.is_occluded:\n                self.detection_warning_results.append(sensing_result)\n                continue\n            if sensing_result.is_detected:\n                self.detection_success_results.append(sensing_result)\n                continue\n            self.detection_fail_results.append(sensing_result)")]),
    dict(name="bitwise-operators", kind="benign", edits=[(PT,
        "        idx: np.ndarray = np.bitwise_and(xy_idx, z_idx)\n", "        idx: np.ndarray = xy_idx & z_idx\n")]),
    dict(name="slope-inline", kind="benign", edits=[(MA,
        "    slope: float = 0.01 * (box_scale_100m - box_scale_0m)\n    return slope * distance + box_scale_0m", "    return box_scale_0m + (box_scale_100m - box_scale_0m) * distance / 100.0")]),
]

PT = "common/point.py"
VARIANTS += [
    dict(name="winding-upward-both-closed", kind="break", rule="C12-winding", edits=[(PT,
        "incremental_flags = (area[i][1] <= pointcloud[:, 1]) * (area[next_idx][1] > pointcloud[:, 1])", "incremental_flags = (area[i][1] <= pointcloud[:, 1]) * (area[next_idx][1] >= pointcloud[:, 1])")]),
    dict(name="winding-downward-not-counted", kind="break", rule="C12-winding", edits=[(PT, "        cnt_arr_[decremental_flags] -= 1\n", "")]),
    dict(name="winding-left-test-uses-next-vertex-x", kind="break", rule="C12-winding", edits=[(PT,
        "valid_idx = pointcloud[:, 0] < (area[i][0] + (vt * (area[next_idx][0] - area[i][0])))", "valid_idx = pointcloud[:, 0] < (area[next_idx][0] + (vt * (area[next_idx][0] - area[i][0])))")]),
    dict(name="winding-skips-closing-edge", kind="break", rule="C12-winding", edits=[(PT, "    for i in range(num_vertices):\n        next_idx", "    for i in range(num_vertices - 1):\n        next_idx")]),
    dict(name="seed2-signed-counter-inside-nonzero", kind="break", rule="C12-partition", edits=[
        (PT, "cnt_arr_: np.ndarray = np.zeros(pointcloud.shape[0], dtype=np.uint8)", "cnt_arr_: np.ndarray = np.zeros(pointcloud.shape[0], dtype=np.int8)"),
        (PT, "xy_idx: np.ndarray = 0 < cnt_arr_ if inside else cnt_arr_ <= 0", "xy_idx: np.ndarray = cnt_arr_ != 0 if inside else cnt_arr_ <= 0")]),
    dict(name="winding-operands-turned-around", kind="benign", edits=[(PT,
        "incremental_flags = (area[i][1] <= pointcloud[:, 1]) * (area[next_idx][1] > pointcloud[:, 1])", "incremental_flags = (pointcloud[:, 1] >= area[i][1]) * (pointcloud[:, 1] < area[next_idx][1])")]),
    dict(name="winding-signed-counter-tested-by-sign", kind="break", rule="C12-winding", edits=[(PT, "np.zeros(pointcloud.shape[0], dtype=np.uint8)", "np.zeros(pointcloud.shape[0], dtype=np.int16)")]),
    dict(name="winding-signed-counter-tested-nonzero", kind="benign", edits=[
        (PT, "np.zeros(pointcloud.shape[0], dtype=np.uint8)", "np.zeros(pointcloud.shape[0], dtype=np.int16)"),
        (PT, "xy_idx: np.ndarray = 0 < cnt_arr_ if inside else cnt_arr_ <= 0", "xy_idx: np.ndarray = cnt_arr_ != 0 if inside else cnt_arr_ == 0")]),
]

VARIANTS += [
    dict(name="seed2-empty-cloud-skips-classification", kind="break", rule="C12-classify", edits=[("evaluation/sensing/sensing_frame_result.py",
        "        if len(ground_truth_objects) == 0:\n            logging.warn(\"There is no annotated objects\")\n            return",
        "        if len(ground_truth_objects) == 0 or len(pointcloud_for_detection) == 0:\n            logging.warn(\"There is no annotated objects\")\n            return")]),
]
