OFI = "evaluation/matching/objects_filter.py"
ORE = "evaluation/result/object_result.py"
PFR = "evaluation/result/perception_frame_result.py"
MGR = "manager/perception_evaluation_manager.py"
SMG = "manager/sensing_evaluation_manager.py"
OM = "evaluation/matching/object_matching.py"
OB = "common/object.py"
TP = "evaluation/metrics/detection/tp_metrics.py"

VARIANTS = [
    dict(name="D1-transform-typo", kind="break", rule="R-", edits=[(PFR,
        "            transforms=self.frame_ground_truth.transforms,\n            **self.pass_fail_result.critical_object_filter_config.filtering_params,\n        )\n\n        # NOTE",
        "            transform=self.frame_ground_truth.transforms,\n            **self.pass_fail_result.critical_object_filter_config.filtering_params,\n        )\n\n        # NOTE")]),
    dict(name="D2-radians", kind="break", rule="R-SIGNEDYAW", edits=[(OB,
        "            rots, _, _ = self.state.orientation.yaw_pitch_roll\n", "            rots: float = self.state.orientation.radians\n")]),
    dict(name="manager-est-filter-drops-transforms", kind="break", rule="R-TF", edits=[(MGR,
        "            objects=estimated_objects,\n            is_gt=False,\n            transforms=frame_ground_truth.transforms,\n", "            objects=estimated_objects,\n            is_gt=False,\n")]),
    dict(name="matcher-drops-transforms", kind="break", rule="R-TF", edits=[(MGR,
        "            matchable_thresholds=self.filtering_params[\"max_matchable_radii\"],\n            transforms=frame_ground_truth.transforms,\n", "            matchable_thresholds=self.filtering_params[\"max_matchable_radii\"],\n")]),
    dict(name="result-construction-drops-transforms-stage2", kind="break", rule="R-TF", edits=[(ORE,
        "        result = DynamicObjectWithPerceptionResult(est_obj, gt_obj, matching_label_policy, transforms=transforms)\n        object_results.append(result)\n\n        # Remove corresponding estimated objects and GTs from the score table\n",
        "        result = DynamicObjectWithPerceptionResult(est_obj, gt_obj, matching_label_policy)\n        object_results.append(result)\n\n        # Remove corresponding estimated objects and GTs from the score table\n")]),
    dict(name="plane-matching-drops-transforms-in-result", kind="break", rule="R-TF", edits=[(ORE,
        "                self.ground_truth_object,\n                transforms=transforms,\n            )\n        else:\n            self.iou_3d = None", "                self.ground_truth_object,\n            )\n        else:\n            self.iou_3d = None")]),
    dict(name="score-table-drops-transforms", kind="break", rule="R-TF", edits=[(ORE,
        "estimated_object=est_obj, ground_truth_object=gt_obj, transforms=transforms\n                )", "estimated_object=est_obj, ground_truth_object=gt_obj\n                )")]),
    dict(name="filter-gt-check-drops-transforms", kind="break", rule="R-TF", edits=[(OFI,
        "                target_uuids=target_uuids,\n                transforms=transforms,\n            )\n        elif target_uuids", "                target_uuids=target_uuids,\n            )\n        elif target_uuids")]),
    dict(name="bev-distance-non-ego-uses-raw", kind="break", rule="R-FRAME", edits=[(OB,
        "            position = transforms.transform((self.frame_id, FrameID.BASE_LINK), self.state.position)\n        return math.hypot(position[0], position[1])",
        "            position = self.state.position\n        return math.hypot(position[0], position[1])")]),
    dict(name="bev-distance-key-reversed", kind="break", rule="R-FRAME", edits=[(OB,
        "            position = transforms.transform((self.frame_id, FrameID.BASE_LINK), self.state.position)\n        return math.hypot(position[0], position[1])",
        "            position = transforms.transform((FrameID.BASE_LINK, self.frame_id), self.state.position)\n        return math.hypot(position[0], position[1])")]),
    dict(name="plane-non-ego-branch-deleted", kind="break", rule="R-FRAME", edits=[(OM,
        "            if ground_truth_object.frame_id != FrameID.BASE_LINK:\n                assert transforms is not None, f\"`transforms` must be specified for {ground_truth_object.frame_id}\"\n                gt_corners_base_link = np.array(\n                    [\n                        transforms.transform((ground_truth_object.frame_id, FrameID.BASE_LINK), corner)\n                        for corner in gt_corners\n                    ]\n                )\n                gt_distances = np.linalg.norm(gt_corners_base_link[:, :2], axis=1)\n            else:\n                gt_distances = gt_distances = np.linalg.norm(gt_corners[:, :2], axis=1)",
        "            gt_distances = np.linalg.norm(gt_corners[:, :2], axis=1)")]),
    dict(name="filter-raw-position-in-map-frame", kind="break", rule="", edits=[(OFI,
        "        position_ = transforms.transform((dynamic_object.frame_id, FrameID.BASE_LINK), dynamic_object.state.position)\n", "        position_ = dynamic_object.state.position\n")]),
    dict(name="aph-gt-heading-other-transform", kind="break", rule="C07-aph", edits=[(TP,
        "gt_heading: float = object_result.ground_truth_object.get_heading_bev(transforms)", "gt_heading: float = object_result.ground_truth_object.get_heading_bev(None)")]),
    dict(name="sensing-crop-distance-without-transforms", kind="break", rule="R-TF", edits=[(SMG,
        "distance=ground_truth.get_distance(transforms),", "distance=ground_truth.get_distance(),")]),
    # benign
    dict(name="transforms-positional", kind="benign", edits=[(OFI,
        "        bev_distance_ = dynamic_object.get_distance_bev(transforms)", "        bev_distance_ = dynamic_object.get_distance_bev(transforms=transforms)")]),
    dict(name="key-hoisted", kind="benign", edits=[(OB,
        "            position = transforms.transform((self.frame_id, FrameID.BASE_LINK), self.state.position)\n        return np.linalg.norm(position)",
        "            key = (self.frame_id, FrameID.BASE_LINK)\n            position = transforms.transform(key, self.state.position)\n        return np.linalg.norm(position)")]),
    dict(name="transforms-local-alias", kind="benign", edits=[(MGR,
        "        estimated_objects = filter_objects(\n            objects=estimated_objects,\n            is_gt=False,\n            transforms=frame_ground_truth.transforms,",
        "        transforms = frame_ground_truth.transforms\n        estimated_objects = filter_objects(\n            objects=estimated_objects,\n            is_gt=False,\n            transforms=transforms,")]),
]
