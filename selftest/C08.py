OM = "evaluation/matching/object_matching.py"
ORE = "evaluation/result/object_result.py"
OFI = "evaluation/matching/objects_filter.py"

VARIANTS = [
    dict(name="plane-distance-greater", kind="break", rule="R-CMPDIR", edits=[(OM,
        "            return self.value < threshold_value\n\n    def _calculate_matching_score(\n        self,\n        estimated_object: DynamicObject,",
        "            return self.value > threshold_value\n\n    def _calculate_matching_score(\n        self,\n        estimated_object: DynamicObject,")]),
    dict(name="iou2d-smaller-is-better", kind="break", rule="R-CMPDIR", edits=[(OM,
        "            return self.value > threshold_value\n\n    def _calculate_matching_score(\n        self,\n        estimated_object: ObjectType,\n        ground_truth_object: Optional[ObjectType],\n        transforms: Optional[TransformDict] = None,\n    ) -> float:\n        \"\"\"Calculate 2D IoU score.",
        "            return self.value < threshold_value\n\n    def _calculate_matching_score(\n        self,\n        estimated_object: ObjectType,\n        ground_truth_object: Optional[ObjectType],\n        transforms: Optional[TransformDict] = None,\n    ) -> float:\n        \"\"\"Calculate 2D IoU score.")]),
    dict(name="negative-polarity", kind="break", rule="C08-polarity", edits=[(ORE,
        "            else is_matching and self.is_label_correct\n", "            else not is_matching and self.is_label_correct\n")]),
    dict(name="none-value-is-better", kind="break", rule="R-CMPDIR", edits=[(OM,
        "        if self.value is None:\n            return False\n        else:\n            return self.value < threshold_value\n\n    def _calculate_matching_score(\n        self,\n        estimated_object: ObjectType,",
        "        if self.value is None:\n            return True\n        else:\n            return self.value < threshold_value\n\n    def _calculate_matching_score(\n        self,\n        estimated_object: ObjectType,")]),
    dict(name="band-pass-threshold", kind="break", rule="", edits=[(OM,
        "            return self.value < threshold_value\n\n    def _calculate_matching_score(\n        self,\n        estimated_object: ObjectType,",
        "            return threshold_value / 2 < self.value < threshold_value\n\n    def _calculate_matching_score(\n        self,\n        estimated_object: ObjectType,")]),
    dict(name="tp-needs-status-fp", kind="break", rule="C03-positive", edits=[(OFI,
        "        elif est_status == MatchingStatus.TP and gt_status == MatchingStatus.TP:\n            tp_object_results.append(object_result)",
        "        elif est_status == MatchingStatus.TP and gt_status == MatchingStatus.TP:\n            fp_object_results.append(object_result)")]),
    dict(name="seed4-iou3d-threshold-one-rescaled-to-percent", kind="break", rule="R-CMPDIR", edits=[(OM,
        "        assert 0.0 <= threshold_value <= 1.0, f\"threshold must be [0.0, 1.0], but got {threshold_value}\"\n",
        "        if threshold_value >= 1.0:\n            threshold_value = threshold_value / 100.0\n        assert 0.0 <= threshold_value <= 1.0, f\"threshold must be [0.0, 1.0], but got {threshold_value}\"\n")]),
    dict(name="iou2d-percent-thresholds-above-one-only", kind="benign", edits=[(OM,
        "        assert 0.0 <= threshold_value <= 1.0, f\"threshold must be [0.0, 1.0], but got {threshold_value}.\"\n",
        "        if threshold_value > 1.0:\n            threshold_value = threshold_value / 100.0\n        assert 0.0 <= threshold_value <= 1.0, f\"threshold must be [0.0, 1.0], but got {threshold_value}.\"\n")]),
    dict(name="operands-swapped", kind="benign", edits=[(OM,
        "            return self.value > threshold_value\n\n    def _calculate_matching_score(\n        self,\n        estimated_object: DynamicObject,",
        "            return threshold_value < self.value\n\n    def _calculate_matching_score(\n        self,\n        estimated_object: DynamicObject,")]),
    dict(name="early-return-style", kind="benign", edits=[(OM,
        "        if self.value is None:\n            return False\n        else:\n            return self.value < threshold_value\n\n    def _calculate_matching_score(\n        self,\n        estimated_object: ObjectType,",
        "        if self.value is None:\n            return False\n        return self.value < threshold_value\n\n    def _calculate_matching_score(\n        self,\n        estimated_object: ObjectType,")]),
]

# seeded (round 2)
VARIANTS += [
    dict(name="seed2-ap-threshold-truthiness", kind="break", rule="C04-marking", edits=[("evaluation/metrics/detection/ap.py",
        "            if matching_threshold_ is None:\n                continue\n            is_result_correct = obj_result.is_result_correct(", "            if not matching_threshold_:\n                continue\n            is_result_correct = obj_result.is_result_correct(")]),
]
