OFI = "evaluation/matching/objects_filter.py"
ORE = "evaluation/result/object_result.py"
PFR = "evaluation/result/perception_frame_result.py"
PPF = "evaluation/result/perception_pass_fail_result.py"

VARIANTS = [
    dict(name="D1-transform-typo", kind="break", rule="R-", edits=[(PFR,
        "            transforms=self.frame_ground_truth.transforms,\n            **self.pass_fail_result.critical_object_filter_config.filtering_params,\n        )\n\n        # NOTE",
        "            transform=self.frame_ground_truth.transforms,\n            **self.pass_fail_result.critical_object_filter_config.filtering_params,\n        )\n\n        # NOTE")]),
    dict(name="threshold-by-estimate-label", kind="break", rule="R-THRLABEL", edits=[(OFI,
        "        matching_threshold = get_label_threshold(\n            semantic_label=object_result.ground_truth_object.semantic_label,",
        "        matching_threshold = get_label_threshold(\n            semantic_label=object_result.estimated_object.semantic_label,")]),
    dict(name="fn-append-also-for-tn", kind="break", rule="C03-negative", edits=[(OFI,
        "        if gt_status == MatchingStatus.TN:\n            tn_objects.append(object_result.ground_truth_object)\n        elif gt_status == MatchingStatus.FN:",
        "        if gt_status == MatchingStatus.TN:\n            tn_objects.append(object_result.ground_truth_object)\n            fn_objects.append(object_result.ground_truth_object)\n        elif gt_status == MatchingStatus.FN:")]),
    dict(name="unmatched-fp-gt-goes-to-fn", kind="break", rule="C03-unmatched", edits=[(OFI,
        "        if ground_truth_object.semantic_label.is_fp():\n            tn_objects.append(ground_truth_object)\n        else:\n            fn_objects.append(ground_truth_object)",
        "        fn_objects.append(ground_truth_object)")]),
    dict(name="drop-non_candidates-guard", kind="break", rule="C03-unmatched", edits=[(OFI,
        "        if ground_truth_object in non_candidates:\n            continue\n\n", "")]),
    dict(name="non_candidates-only-for-tp", kind="break", rule="C03-negative", edits=[(OFI,
        "        if gt_status is not None:\n            non_candidates.append", "        if gt_status == MatchingStatus.TP:\n            non_candidates.append")]),
    dict(name="tp-when-est-status-tp-only-dropped-else", kind="break", rule="C03-positive", edits=[(OFI,
        "            else:\n                fp_object_results.append(object_result)\n        elif est_status == MatchingStatus.TP and gt_status == MatchingStatus.TP:",
        "        elif est_status == MatchingStatus.TP and gt_status == MatchingStatus.TP:")]),
    dict(name="status-fn-for-fp-gt", kind="break", rule="C03-status", edits=[(ORE,
        "                (MatchingStatus.FP, MatchingStatus.FP)\n                if self.ground_truth_object.semantic_label.is_fp()",
        "                (MatchingStatus.FP, MatchingStatus.FN)\n                if self.ground_truth_object.semantic_label.is_fp()")]),
    dict(name="correct-ignores-label", kind="break", rule="C03-correct", edits=[(ORE,
        "            else is_matching and self.is_label_correct\n", "            else is_matching\n")]),
    dict(name="correct-or-label", kind="break", rule="C03-correct", edits=[(ORE,
        "            else is_matching and self.is_label_correct\n", "            else is_matching or self.is_label_correct\n")]),
    dict(name="gt-check-skipped-in-filter_object_results", kind="break", rule="C03-filter-both", edits=[(OFI,
        "        if is_target and object_result.ground_truth_object:\n            is_target = is_target and _is_target_object(",
        "        if is_target and object_result.ground_truth_object and False:\n            is_target = is_target and _is_target_object(")]),
    dict(name="gt-check-different-bound", kind="break", rule="C03-filter-both", edits=[(OFI,
        "                ignore_attributes=ignore_attributes,\n                max_x_position_list=max_x_position_list,\n                max_y_position_list=max_y_position_list,\n                max_distance_list=max_distance_list,\n                min_distance_list=min_distance_list,\n                min_point_numbers=min_point_numbers,\n                target_uuids=target_uuids,\n                transforms=transforms,",
        "                ignore_attributes=ignore_attributes,\n                max_x_position_list=max_x_position_list,\n                max_y_position_list=max_x_position_list,\n                max_distance_list=max_distance_list,\n                min_distance_list=min_distance_list,\n                min_point_numbers=min_point_numbers,\n                target_uuids=target_uuids,\n                transforms=transforms,")]),
    dict(name="negative-side-other-thresholds", kind="break", rule="C03-siblings", edits=[(PPF,
        "            self.frame_pass_fail_config.matching_threshold_list,\n        )\n\n    def get_num_success",
        "            self.frame_pass_fail_config.confidence_threshold_list,\n        )\n\n    def get_num_success")]),
    dict(name="tn-fn-swapped", kind="break", rule="C03-siblings", edits=[(PPF,
        "        self.tn_objects, self.fn_objects = get_negative_objects(", "        self.fn_objects, self.tn_objects = get_negative_objects(")]),
    dict(name="gt-filter-without-transforms", kind="break", rule="R-TF", edits=[(PFR,
        "            is_gt=True,\n            transforms=self.frame_ground_truth.transforms,\n", "            is_gt=True,\n")]),
    dict(name="evaluate-on-unfiltered-gt", kind="break", rule="C03-critical", edits=[(PFR,
        "        self.pass_fail_result.evaluate(self.object_results, self.frame_ground_truth.objects)",
        "        self.pass_fail_result.evaluate(self.object_results, previous_result.frame_ground_truth.objects if previous_result else self.frame_ground_truth.objects)")]),
    # benign
    dict(name="nested-if-instead-of-elif", kind="benign", edits=[(OFI,
        "        if gt_status == MatchingStatus.TN:\n            tn_objects.append(object_result.ground_truth_object)\n        elif gt_status == MatchingStatus.FN:\n            fn_objects.append(object_result.ground_truth_object)",
        "        if gt_status == MatchingStatus.TN:\n            tn_objects.append(object_result.ground_truth_object)\n        else:\n            if gt_status == MatchingStatus.FN:\n                fn_objects.append(object_result.ground_truth_object)")]),
    dict(name="status-early-returns", kind="benign", edits=[(ORE,
        "        if self.is_result_correct(matching_mode, matching_threshold):\n            return (\n                (MatchingStatus.FP, MatchingStatus.TN)\n                if self.ground_truth_object.semantic_label.is_fp()\n                else (MatchingStatus.TP, MatchingStatus.TP)\n            )\n        else:\n            return (",
        "        correct = self.is_result_correct(matching_mode, matching_threshold)\n        if correct:\n            if self.ground_truth_object.semantic_label.is_fp():\n                return (MatchingStatus.FP, MatchingStatus.TN)\n            return (MatchingStatus.TP, MatchingStatus.TP)\n        else:\n            return (")]),
    dict(name="threshold-gt-else-est-in-positive", kind="benign", edits=[(OFI,
        "        matching_threshold = get_label_threshold(\n            semantic_label=object_result.ground_truth_object.semantic_label,",
        "        matching_threshold = get_label_threshold(\n            semantic_label=object_result.ground_truth_object.semantic_label if object_result.ground_truth_object is not None else object_result.estimated_object.semantic_label,")]),
    dict(name="rename-loop-variable", kind="benign", edits=[(OFI,
        "    for ground_truth_object in ground_truth_objects:\n        if ground_truth_object in non_candidates:\n            continue\n\n        if ground_truth_object.semantic_label.is_fp():\n            tn_objects.append(ground_truth_object)\n        else:\n            fn_objects.append(ground_truth_object)\n\n    return tn_objects, fn_objects",
        "    for gt in ground_truth_objects:\n        if gt in non_candidates:\n            continue\n\n        if gt.semantic_label.is_fp():\n            tn_objects.append(gt)\n        else:\n            fn_objects.append(gt)\n\n    return tn_objects, fn_objects")]),
    dict(name="transforms-hoisted-into-local", kind="benign", edits=[(PFR,
        "        self.object_results: List[DynamicObjectWithPerceptionResult] = filter_object_results(\n            self.object_results,\n            transforms=self.frame_ground_truth.transforms,",
        "        tfs = self.frame_ground_truth.transforms\n        self.object_results: List[DynamicObjectWithPerceptionResult] = filter_object_results(\n            self.object_results,\n            transforms=tfs,")]),
]

# seeded (C19 wave): a stale alias of the caller's un-narrowed frame reaches pass/fail; and its benign twin
_NARROW = """        self.frame_ground_truth = copy(self.frame_ground_truth)
        self.frame_ground_truth.objects = filter_objects(
            self.frame_ground_truth.objects,"""
_NARROW_ALIAS = """        frame_ground_truth = self.frame_ground_truth
        self.frame_ground_truth = copy(frame_ground_truth)
        self.frame_ground_truth.objects = filter_objects(
            frame_ground_truth.objects,"""
VARIANTS += [
    dict(name="seed-stale-alias-reaches-pass-fail", kind="break", rule="C03-critical", edits=[
        ("evaluation/result/perception_frame_result.py", _NARROW, _NARROW_ALIAS),
        ("evaluation/result/perception_frame_result.py", "self.pass_fail_result.evaluate(self.object_results, self.frame_ground_truth.objects)", "self.pass_fail_result.evaluate(self.object_results, frame_ground_truth.objects)")]),
    dict(name="alias-only-feeds-the-filter", kind="benign", edits=[("evaluation/result/perception_frame_result.py", _NARROW, _NARROW_ALIAS)]),
]

VARIANTS += [
    dict(name="seed2-transforms-truthiness-in-filter", kind="break", rule="C10-predicate", edits=[("evaluation/matching/objects_filter.py",
        "    elif dynamic_object.state.position is not None and transforms is not None:", "    elif dynamic_object.state.position is not None and transforms:")]),
]

VARIANTS += [
    dict(name="seed2-eq-with-tolerance", kind="break", rule="C03-identity", edits=[("common/object.py",
        "            eq = eq and self.state.position == other.state.position  # type: ignore", "            eq = eq and bool(np.allclose(self.state.position, other.state.position))")]),
    dict(name="eq-as-single-conjunction", kind="benign", edits=[("common/object.py",
        "            eq: bool = True\n            eq = eq and self.unix_time == other.unix_time\n            eq = eq and self.semantic_label == other.semantic_label  # type: ignore\n            eq = eq and self.state.position == other.state.position  # type: ignore\n            eq = eq and self.state.orientation == other.state.orientation  # type: ignore\n            return eq",
        "            return (\n                self.unix_time == other.unix_time\n                and self.semantic_label == other.semantic_label\n                and self.state.position == other.state.position\n                and self.state.orientation == other.state.orientation\n            )")]),
]
