DU = "common/dataset_utils.py"
DS = "common/dataset.py"
SC = "common/schema.py"

VARIANTS = [
    dict(name="radar-points-instead-of-lidar", kind="break", rule="C16-object-fields", edits=[(DU,
        'pointcloud_num_: int = sample_annotation_["num_lidar_pts"]', 'pointcloud_num_: int = sample_annotation_["num_radar_pts"]')]),
    dict(name="uuid-is-sample-token", kind="break", rule="C16-object-fields", edits=[(DU,
        "        uuid=instance_token,\n", "        uuid=sample_token,\n")]),
    dict(name="attributes-dropped", kind="break", rule="C16-object-fields", edits=[(DU,
        "semantic_label = label_converter.convert_label(object_box.name, attributes)", "semantic_label = label_converter.convert_label(object_box.name)")]),
    dict(name="base-link-and-map-arms-swapped", kind="break", rule="C16-boxes", edits=[(DU,
        "    if frame_id == FrameID.BASE_LINK:\n        # Get boxes moved to ego vehicle coord system.\n        _, boxes, _ = nusc.get_sample_data(sample_data_token)\n    elif frame_id == FrameID.MAP:",
        "    if frame_id == FrameID.MAP:\n        # Get boxes moved to ego vehicle coord system.\n        _, boxes, _ = nusc.get_sample_data(sample_data_token)\n    elif frame_id == FrameID.BASE_LINK:")]),
    dict(name="skip-objects-without-points", kind="break", rule="C16-one-per-annotation", edits=[(DU,
        "            visibility=visibility,\n        )\n        objects_.append(object_)\n", "            visibility=visibility,\n        )\n        if object_.pointcloud_num > 0:\n            objects_.append(object_)\n")]),
    dict(name="skip-every-other-sample", kind="break", rule="C16-one-frame-per-sample", edits=[(DS,
        "        dataset.append(frame)\n", "        if n % 2 == 0:\n            dataset.append(frame)\n")]),
    dict(name="ego-pose-labelled-map-to-ego", kind="break", rule="C16-ego-pose", edits=[(DU,
        "ego2map = HomogeneousMatrix(ego_position, ego_rotation, src=FrameID.BASE_LINK, dst=FrameID.MAP)", "ego2map = HomogeneousMatrix(ego_position, ego_rotation, src=FrameID.MAP, dst=FrameID.BASE_LINK)")]),
    dict(name="size-from-center", kind="break", rule="C16-object-fields", edits=[(DU,
        "size=tuple(object_box.wlh.astype(np.float64).tolist()),", "size=tuple(object_box.center.astype(np.float64).tolist()),")]),
    dict(name="frame-time-from-frame-name", kind="break", rule="C16-frame-fields", edits=[(DU,
        "        unix_time=unix_time_,\n        frame_name=frame_name,\n        objects=objects_,", "        unix_time=int(frame_name),\n        frame_name=frame_name,\n        objects=objects_,")]),
    dict(name="visibility-of-wrong-token", kind="break", rule="C16-object-fields", edits=[(DU,
        'visibility_token: str = sample_annotation_["visibility_token"]', 'visibility_token: str = sample_annotation_["instance_token"]')]),
    dict(name="tracking-history-in-wrong-frame", kind="break", rule="C16-tracking", edits=[(DU,
        "    if frame_id == FrameID.BASE_LINK:\n        in_agent_frame: bool = True\n    elif frame_id == FrameID.MAP:\n        in_agent_frame: bool = False",
        "    if frame_id == FrameID.BASE_LINK:\n        in_agent_frame: bool = False\n    elif frame_id == FrameID.MAP:\n        in_agent_frame: bool = True")]),
    dict(name="tracking-history-of-other-sample", kind="break", rule="C16-object-fields", edits=[(DU,
        "            instance_token=instance_token,\n            sample_token=sample_token,\n            seconds=seconds,\n        )\n    else:", "            instance_token=instance_token,\n            sample_token=object_box.token,\n            seconds=seconds,\n        )\n    else:")]),
    dict(name="frame-name-constant", kind="break", rule="C16-one-frame-per-sample", edits=[(DS,
        "                frame_id=frame_ids[0],\n                frame_name=str(n),", "                frame_id=frame_ids[0],\n                frame_name=str(0),")]),
    dict(name="D4-visibility-name", kind="break", rule="C16-object-fields", edits=[(SC,
        "        for _, v in cls.__members__.items():\n            if v == name:\n                return v\n        return cls.from_alias(name)",
        "        for k, v in cls.__members__.items():\n            if v == name:\n                return k\n        return cls.from_alias(name)")]),
    dict(name="datasets-sorted-by-time", kind="break", rule="C16-one-frame-per-sample", edits=[(DS,
        "    logging.info(\"Finish loading dataset\\n\" + _get_str_objects_number_info(label_converter))\n    return all_datasets", "    logging.info(\"Finish loading dataset\\n\" + _get_str_objects_number_info(label_converter))\n    return sorted(all_datasets, key=lambda f: f.unix_time)[:len(all_datasets) - 0]")]),
    # benign
    dict(name="annotation-fetched-once", kind="benign", edits=[(DU,
        "    pointcloud_num_: int = sample_annotation_[\"num_lidar_pts\"]\n", "    num_points = sample_annotation_[\"num_lidar_pts\"]\n    pointcloud_num_: int = num_points\n")]),
    dict(name="local-renames", kind="benign", edits=[(DU,
        "        attribute_tokens: List[str] = sample_annotation_[\"attribute_tokens\"]\n        attributes: List[str] = [nusc.get(\"attribute\", token)[\"name\"] for token in attribute_tokens]\n        semantic_label = label_converter.convert_label(object_box.name, attributes)",
        "        attr_tokens: List[str] = sample_annotation_[\"attribute_tokens\"]\n        attrs: List[str] = [nusc.get(\"attribute\", token)[\"name\"] for token in attr_tokens]\n        semantic_label = label_converter.convert_label(object_box.name, attrs)")]),
]

# seeded (wave 5): memoised history lookup whose key omits the sample token; and a correct memo as the benign twin
_CALL = '    past_records_: List[Dict[str, Any]] = helper.get_past_for_agent(\n        instance_token=instance_token,\n        sample_token=sample_token,\n        seconds=seconds,\n        in_agent_frame=in_agent_frame,\n        just_xy=False,\n    )\n'
VARIANTS += [
    dict(name="seed-memo-key-omits-sample", kind="break", rule="C16-tracking", edits=[
        ("common/dataset_utils.py", "def _get_tracking_data(\n", "_PAST_RECORDS_CACHE: Dict[Tuple[int, str, bool, float], List[Dict[str, Any]]] = {}\n\n\ndef _get_tracking_data(\n"),
        ("common/dataset_utils.py", _CALL, '    cache_key = (id(nusc), instance_token, in_agent_frame, seconds)\n    if cache_key not in _PAST_RECORDS_CACHE:\n        _PAST_RECORDS_CACHE[cache_key] = helper.get_past_for_agent(\n            instance_token=instance_token,\n            sample_token=sample_token,\n            seconds=seconds,\n            in_agent_frame=in_agent_frame,\n            just_xy=False,\n        )\n    past_records_: List[Dict[str, Any]] = _PAST_RECORDS_CACHE[cache_key]\n')]),
    dict(name="memo-key-complete", kind="benign", edits=[
        ("common/dataset_utils.py", "def _get_tracking_data(\n", "_PAST_RECORDS_CACHE: Dict[Tuple[int, str, str, bool, float], List[Dict[str, Any]]] = {}\n\n\ndef _get_tracking_data(\n"),
        ("common/dataset_utils.py", _CALL, '    cache_key = (id(nusc), instance_token, sample_token, in_agent_frame, seconds)\n    if cache_key not in _PAST_RECORDS_CACHE:\n        _PAST_RECORDS_CACHE[cache_key] = helper.get_past_for_agent(\n            instance_token=instance_token,\n            sample_token=sample_token,\n            seconds=seconds,\n            in_agent_frame=in_agent_frame,\n            just_xy=False,\n        )\n    past_records_: List[Dict[str, Any]] = _PAST_RECORDS_CACHE[cache_key]\n')]),
    dict(name="history-from-other-records", kind="break", rule="C16-tracking", edits=[
        ("common/dataset_utils.py", "    for record_ in past_records_:", "    for record_ in past_records_[1:]:")]),
]
