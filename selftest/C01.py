ORE = "evaluation/result/object_result.py"

NOGT = '    # There is no GT and not FP validation (= all FP)\n    if not ground_truth_objects and evaluation_task.is_fp_validation() is False:\n        return _get_fp_object_results(estimated_objects)\n\n    # There is no GT in FP validation (= unpaired estimations are ignored)\n    if not ground_truth_objects:\n        return []\n'

S1_DEL = """        masked_scores = np.delete(masked_scores, est_idx, axis=0)
        masked_scores = np.delete(masked_scores, gt_idx, axis=1)

        score_table = np.delete(score_table, est_idx, axis=0)
        score_table = np.delete(score_table, gt_idx, axis=1)
"""

VARIANTS = [
    dict(name="D7-empty-gt-in-fp-validation-falls-through", kind="break", rule="C01-emptiness", edits=[(ORE,
        "    # There is no GT in FP validation (= unpaired estimations are ignored)\n    if not ground_truth_objects:\n        return []\n\n", "")]),
    dict(name="drop-score_table-column-delete", kind="break", rule="C01-index-space", edits=[(ORE,
        S1_DEL, S1_DEL.replace("        score_table = np.delete(score_table, gt_idx, axis=1)\n", ""))]),
    dict(name="gt-delete-on-axis-0", kind="break", rule="C01-index-space", edits=[(ORE,
        S1_DEL, S1_DEL.replace("masked_scores = np.delete(masked_scores, gt_idx, axis=1)", "masked_scores = np.delete(masked_scores, gt_idx, axis=0)"))]),
    dict(name="score_table-not-shrunk-at-all", kind="break", rule="C01-index-space", edits=[(ORE,
        S1_DEL, "        masked_scores = np.delete(masked_scores, est_idx, axis=0)\n        masked_scores = np.delete(masked_scores, gt_idx, axis=1)\n")]),
    dict(name="pop-from-caller-list", kind="break", rule="C01-", edits=[(ORE,
        "        est_obj = estimated_objects_.pop(est_idx)\n        gt_obj = ground_truth_objects_.pop(gt_idx)\n        result = DynamicObjectWithPerceptionResult(est_obj, gt_obj, matching_label_policy, transforms=transforms)\n        object_results.append(result)\n\n        # Remove corresponding estimated objects and GTs from the score table.",
        "        est_obj = estimated_objects.pop(est_idx)\n        gt_obj = ground_truth_objects_.pop(gt_idx)\n        result = DynamicObjectWithPerceptionResult(est_obj, gt_obj, matching_label_policy, transforms=transforms)\n        object_results.append(result)\n\n        # Remove corresponding estimated objects and GTs from the score table.")]),
    dict(name="no-working-copy", kind="break", rule="C01-inputs-untouched", edits=[(ORE,
        "    estimated_objects_: List[ObjectType] = estimated_objects.copy()\n    ground_truth_objects_: List[ObjectType] = ground_truth_objects.copy()\n    # 1. Matching",
        "    estimated_objects_: List[ObjectType] = estimated_objects\n    ground_truth_objects_: List[ObjectType] = ground_truth_objects.copy()\n    # 1. Matching")]),
    dict(name="gt-popped-with-row-index", kind="break", rule="C01-index-space", edits=[(ORE,
        "        gt_obj = ground_truth_objects_.pop(gt_idx)\n        result = DynamicObjectWithPerceptionResult(est_obj, gt_obj, matching_label_policy, transforms=transforms)\n        object_results.append(result)\n\n        # Remove corresponding estimated objects and GTs from the score table\n",
        "        gt_obj = ground_truth_objects_.pop(est_idx)\n        result = DynamicObjectWithPerceptionResult(est_obj, gt_obj, matching_label_policy, transforms=transforms)\n        object_results.append(result)\n\n        # Remove corresponding estimated objects and GTs from the score table\n")]),
    dict(name="drop-same-frame-guard", kind="break", rule="C01-score-table", edits=[(ORE,
        "            if is_same_frame_id:\n                threshold", "            if True:\n                threshold")]),
    dict(name="radius-guard-dropped", kind="break", rule="C01-score-table", edits=[(ORE,
        "                if threshold is None or (threshold is not None and matching_method.is_better_than(threshold)):\n                    is_label_ok",
        "                if True:\n                    is_label_ok")]),
    dict(name="radius-by-estimate-label", kind="break", rule="R-THRLABEL", edits=[(ORE,
        "                    gt_obj.semantic_label, target_labels, matchable_thresholds", "                    est_obj.semantic_label, target_labels, matchable_thresholds")]),
    dict(name="always-add-leftovers", kind="break", rule="C01-emptiness", edits=[(ORE,
        "    if len(estimated_objects_) > 0 and evaluation_task.is_fp_validation() is False:\n        object_results += _get_fp_object_results(estimated_objects_)",
        "    if len(estimated_objects_) > 0:\n        object_results += _get_fp_object_results(estimated_objects_)")]),
    dict(name="leftovers-from-all-estimates", kind="break", rule="C01-emptiness", edits=[(ORE,
        "        object_results += _get_fp_object_results(estimated_objects_)\n\n    return object_results\n\n\ndef _get_object_results_with_id",
        "        object_results += _get_fp_object_results(estimated_objects)\n\n    return object_results\n\n\ndef _get_object_results_with_id")]),
    dict(name="table-transposed", kind="break", rule="C01-score-table", edits=[(ORE,
        "score_table[i, j] = (matching_method.value, is_label_ok)", "score_table[j, i] = (matching_method.value, is_label_ok)")]),
    dict(name="fp-results-skip-some", kind="break", rule="C01-fp-results", edits=[(ORE,
        "        object_result_ = DynamicObjectWithPerceptionResult(estimated_object=est_obj_, ground_truth_object=None)\n        object_results.append(object_result_)",
        "        object_result_ = DynamicObjectWithPerceptionResult(estimated_object=est_obj_, ground_truth_object=None)\n        if est_obj_.semantic_score > 0.0:\n            object_results.append(object_result_)")]),
    dict(name="tlr-removes-from-input", kind="break", rule="C01-inputs-untouched", edits=[(ORE,
        "                estimated_objects_.remove(est_object)\n                ground_truth_objects_.remove(gt_object)\n    return object_results",
        "                estimated_objects.remove(est_object)\n                ground_truth_objects_.remove(gt_object)\n    return object_results")]),
    dict(name="seed4-no-gt-exit-tests-one-fp-validation-task-only", kind="break", rule="C01-emptiness", edits=[(ORE, NOGT,
        "    if not ground_truth_objects:\n        return [] if evaluation_task == EvaluationTask.FP_VALIDATION else _get_fp_object_results(estimated_objects)\n")]),
    dict(name="is-fp-validation-forgets-the-2d-task", kind="break", rule="C01-emptiness", edits=[("common/evaluation_task.py",
        "        return self in (EvaluationTask.FP_VALIDATION, EvaluationTask.FP_VALIDATION2D)", "        return self in (EvaluationTask.FP_VALIDATION,)")]),
    # benign
    dict(name="no-gt-exit-tests-both-fp-validation-tasks-by-membership", kind="benign", edits=[(ORE, NOGT,
        "    if not ground_truth_objects:\n        if evaluation_task in (EvaluationTask.FP_VALIDATION, EvaluationTask.FP_VALIDATION2D):\n            return []\n        return _get_fp_object_results(estimated_objects)\n")]),
    dict(name="chained-deletes", kind="benign", edits=[(ORE, S1_DEL,
        "        masked_scores = np.delete(np.delete(masked_scores, est_idx, axis=0), gt_idx, axis=1)\n        score_table = np.delete(np.delete(score_table, gt_idx, axis=1), est_idx, axis=0)\n")]),
    dict(name="list-copy-via-list", kind="benign", edits=[(ORE,
        "    estimated_objects_: List[ObjectType] = estimated_objects.copy()\n    ground_truth_objects_: List[ObjectType] = ground_truth_objects.copy()\n    # 1. Matching",
        "    estimated_objects_: List[ObjectType] = list(estimated_objects)\n    ground_truth_objects_: List[ObjectType] = list(ground_truth_objects)\n    # 1. Matching")]),
    dict(name="threshold-condition-simplified", kind="benign", edits=[(ORE,
        "if threshold is None or (threshold is not None and matching_method.is_better_than(threshold)):", "if threshold is None or matching_method.is_better_than(threshold):")]),
    dict(name="fpv-flag-into-local", kind="benign", edits=[(ORE,
        "    if len(estimated_objects_) > 0 and evaluation_task.is_fp_validation() is False:\n        object_results += _get_fp_object_results(estimated_objects_)",
        "    keep_leftovers = evaluation_task.is_fp_validation() is False\n    if len(estimated_objects_) > 0 and keep_leftovers:\n        object_results += _get_fp_object_results(estimated_objects_)")]),
]

# seeded (round 2)
VARIANTS += [
    dict(name="seed2-all-nan-early-return-ignores-fp-validation", kind="break", rule="C01-emptiness", edits=[("evaluation/result/object_result.py",
        "    scores = score_table[..., 0]\n    is_valid = score_table[..., 1]\n",
        "    scores = score_table[..., 0]\n    if np.isnan(scores).all():\n        return _get_fp_object_results(estimated_objects)\n    is_valid = score_table[..., 1]\n")]),
    dict(name="all-nan-early-return-guarded", kind="benign", edits=[("evaluation/result/object_result.py",
        "    scores = score_table[..., 0]\n    is_valid = score_table[..., 1]\n",
        "    scores = score_table[..., 0]\n    if np.isnan(scores).all() and not evaluation_task.is_fp_validation():\n        return _get_fp_object_results(estimated_objects)\n    is_valid = score_table[..., 1]\n")]),
]
