ORE = "evaluation/result/object_result.py"
OM = "evaluation/matching/object_matching.py"

STAGE2_SEL = """        est_idx, gt_idx = (
            np.unravel_index(np.nanargmax(rest_scores), rest_scores.shape)
            if maximize
            else np.unravel_index(np.nanargmin(rest_scores), rest_scores.shape)
        )"""

VARIANTS = [
    dict(name="stage2-nanargmin-in-both-arms", kind="break", rule="C02-stages", edits=[(ORE, STAGE2_SEL,
        STAGE2_SEL.replace("np.nanargmax(rest_scores)", "np.nanargmin(rest_scores)"))]),
    dict(name="stage1-unmasked", kind="break", rule="C02-stages", edits=[(ORE,
        "masked_scores = np.where(is_valid, scores, np.nan)", "masked_scores = scores")]),
    dict(name="stage1-mask-inverted-columns", kind="break", rule="C02-stages", edits=[(ORE,
        "    scores = score_table[..., 0]\n    is_valid = score_table[..., 1]", "    scores = score_table[..., 1]\n    is_valid = score_table[..., 0]")]),
    dict(name="stage2-uses-table-before-stage1", kind="break", rule="C02-", edits=[(ORE,
        "    rest_scores = score_table[..., 0]\n", "    rest_scores = scores\n")]),
    dict(name="allow-unknown-ignores-unknown", kind="break", rule="C02-label-policy", edits=[(OM,
        "return is_same_label(estimation, ground_truth) or estimation.semantic_label.is_unknown()", "return is_same_label(estimation, ground_truth)")]),
    dict(name="fp-gt-not-always-matchable", kind="break", rule="C02-label-policy", edits=[(OM,
        "if ground_truth.semantic_label.is_fp() or self == MatchingLabelPolicy.ALLOW_ANY:", "if self == MatchingLabelPolicy.ALLOW_ANY:")]),
    dict(name="default-policy-allows-unknown", kind="break", rule="C02-label-policy", edits=[(OM,
        "        else:  # STRICT\n            return is_same_label(estimation, ground_truth)",
        "        else:  # STRICT\n            return is_same_label(estimation, ground_truth) or estimation.semantic_label.is_unknown()")]),
    dict(name="plane-distance-maximised", kind="break", rule="R-CMPDIR", edits=[(ORE,
        "        matching_method_module: PlaneDistanceMatching = PlaneDistanceMatching\n        maximize: bool = False",
        "        matching_method_module: PlaneDistanceMatching = PlaneDistanceMatching\n        maximize: bool = True")]),
    dict(name="center-distance-greater-is-better", kind="break", rule="R-CMPDIR", edits=[(OM,
        "            return self.value < threshold_value\n\n    def _calculate_matching_score(\n        self,\n        estimated_object: ObjectType,\n        ground_truth_object: Optional[ObjectType],\n        transforms: Optional[TransformDict] = None,\n    ) -> Optional[float]:\n        \"\"\"Get center distance.",
        "            return self.value > threshold_value\n\n    def _calculate_matching_score(\n        self,\n        estimated_object: ObjectType,\n        ground_truth_object: Optional[ObjectType],\n        transforms: Optional[TransformDict] = None,\n    ) -> Optional[float]:\n        \"\"\"Get center distance.")]),
    dict(name="compat-column-is-same-label-only", kind="break", rule="C02-score-table", edits=[(ORE,
        "is_label_ok = matching_label_policy.is_matchable(est_obj, gt_obj)", "is_label_ok = est_obj.semantic_label == gt_obj.semantic_label")]),
    dict(name="no-stop-on-all-nan-stage2", kind="break", rule="C02-stages", edits=[(ORE,
        "        if np.isnan(rest_scores).all():\n            break\n", "")]),
    dict(name="iou3d-mode-uses-iou2d", kind="break", rule="R-CMPDIR", edits=[(ORE,
        "matching_method_module: IOU3dMatching = IOU3dMatching", "matching_method_module: IOU3dMatching = IOU2dMatching")]),
    # benign
    dict(name="policy-any-via-in", kind="benign", edits=[(OM,
        "if ground_truth.semantic_label.is_fp() or self == MatchingLabelPolicy.ALLOW_ANY:", "if ground_truth.semantic_label.is_fp() or self in (MatchingLabelPolicy.ALLOW_ANY,):")]),
    dict(name="policy-elifs-reordered", kind="benign", edits=[(OM,
        "        elif self == MatchingLabelPolicy.ALLOW_UNKNOWN:\n            return is_same_label(estimation, ground_truth) or estimation.semantic_label.is_unknown()\n        else:  # STRICT\n            return is_same_label(estimation, ground_truth)",
        "        elif self == MatchingLabelPolicy.DEFAULT:\n            return is_same_label(estimation, ground_truth)\n        else:\n            return estimation.semantic_label.is_unknown() or is_same_label(estimation, ground_truth)")]),
    dict(name="threshold-operands-swapped", kind="benign", edits=[(OM,
        "            return self.value < threshold_value\n\n    def _calculate_matching_score(\n        self,\n        estimated_object: DynamicObject,",
        "            return threshold_value > self.value\n\n    def _calculate_matching_score(\n        self,\n        estimated_object: DynamicObject,")]),
    dict(name="rename-est_idx", kind="benign", edits=[(ORE,
        STAGE2_SEL + "\n\n        est_obj = estimated_objects_.pop(est_idx)\n        gt_obj = ground_truth_objects_.pop(gt_idx)\n        result = DynamicObjectWithPerceptionResult(est_obj, gt_obj, matching_label_policy, transforms=transforms)\n        object_results.append(result)\n\n        # Remove corresponding estimated objects and GTs from the score table\n        rest_scores = np.delete(rest_scores, est_idx, axis=0)\n        rest_scores = np.delete(rest_scores, gt_idx, axis=1)",
        STAGE2_SEL.replace("est_idx, gt_idx", "row, col") + "\n\n        est_obj = estimated_objects_.pop(row)\n        gt_obj = ground_truth_objects_.pop(col)\n        result = DynamicObjectWithPerceptionResult(est_obj, gt_obj, matching_label_policy, transforms=transforms)\n        object_results.append(result)\n\n        # Remove corresponding estimated objects and GTs from the score table\n        rest_scores = np.delete(np.delete(rest_scores, row, axis=0), col, axis=1)")]),
    dict(name="all-nan-hoisted", kind="benign", edits=[(ORE,
        "        if np.isnan(rest_scores).all():\n            break\n", "        exhausted = np.isnan(rest_scores).all()\n        if exhausted:\n            break\n")]),
]

# seeded by an independent agent: sign flip in stage 1 only + argmin everywhere
VARIANTS += [
    dict(name="seed-negated-stage1-argmin-everywhere", kind="break", rule="C02-stages", edits=[
        (ORE, "masked_scores = np.where(is_valid, scores, np.nan)", "masked_scores = np.where(is_valid, -scores if maximize else scores, np.nan)"),
        (ORE, """        est_idx, gt_idx = (
            np.unravel_index(np.nanargmax(masked_scores), masked_scores.shape)
            if maximize
            else np.unravel_index(np.nanargmin(masked_scores), masked_scores.shape)
        )""", "        est_idx, gt_idx = np.unravel_index(np.nanargmin(masked_scores), masked_scores.shape)"),
        (ORE, STAGE2_SEL, "        est_idx, gt_idx = np.unravel_index(np.nanargmin(rest_scores), rest_scores.shape)")]),
    dict(name="seed-fp-guard-on-estimate", kind="break", rule="C02-label-policy", edits=[(OM,
        "if ground_truth.semantic_label.is_fp() or self == MatchingLabelPolicy.ALLOW_ANY:", "if estimation.semantic_label.is_fp() or self == MatchingLabelPolicy.ALLOW_ANY:")]),
    dict(name="negate-both-stages-argmin", kind="benign", edits=[
        (ORE, "masked_scores = np.where(is_valid, scores, np.nan)", "masked_scores = np.where(is_valid, -scores if maximize else scores, np.nan)"),
        (ORE, """        est_idx, gt_idx = (
            np.unravel_index(np.nanargmax(masked_scores), masked_scores.shape)
            if maximize
            else np.unravel_index(np.nanargmin(masked_scores), masked_scores.shape)
        )""", "        est_idx, gt_idx = np.unravel_index(np.nanargmin(masked_scores), masked_scores.shape)"),
        (ORE, "    rest_scores = score_table[..., 0]\n", "    rest_scores = -score_table[..., 0] if maximize else score_table[..., 0]\n"),
        (ORE, STAGE2_SEL, "        est_idx, gt_idx = np.unravel_index(np.nanargmin(rest_scores), rest_scores.shape)")]),
]

# seeded (round 2)
_SEL1 = '        est_idx, gt_idx = (\n            np.unravel_index(np.nanargmax(masked_scores), masked_scores.shape)\n            if maximize\n            else np.unravel_index(np.nanargmin(masked_scores), masked_scores.shape)\n        )'
_SEL2 = '        est_idx, gt_idx = (\n            np.unravel_index(np.nanargmax(rest_scores), rest_scores.shape)\n            if maximize\n            else np.unravel_index(np.nanargmin(rest_scores), rest_scores.shape)\n        )'
_HELP = 'def _select_best_pair(scores: np.ndarray, maximize: bool = False) -> Tuple[int, int]:\n    flat_idx = np.nanargmax(scores) if maximize else np.nanargmin(scores)\n    return np.unravel_index(flat_idx, scores.shape)\n\n\ndef _get_matching_module('
VARIANTS += [
    dict(name="seed2-helper-default-minimises-in-stage2", kind="break", rule="C02-stages", edits=[
        (ORE, _SEL1, "        est_idx, gt_idx = _select_best_pair(masked_scores, maximize)"),
        (ORE, _SEL2, "        est_idx, gt_idx = _select_best_pair(rest_scores)"),
        (ORE, "def _get_matching_module(", _HELP)]),
    dict(name="selection-moved-into-helper", kind="benign", edits=[
        (ORE, _SEL1, "        est_idx, gt_idx = _select_best_pair(masked_scores, maximize)"),
        (ORE, _SEL2, "        est_idx, gt_idx = _select_best_pair(rest_scores, maximize)"),
        (ORE, "def _get_matching_module(", _HELP)]),
    dict(name="seed2-float32-score-table", kind="break", rule="C02-score-table", edits=[(ORE,
        "np.full((num_row, num_col, 2), (np.nan, False))", "np.full((num_row, num_col, 2), (np.nan, False), dtype=np.float32)")]),
]
