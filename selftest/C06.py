OM = "evaluation/matching/object_matching.py"
CI = "common/__init__.py"
PT = "common/point.py"

VARIANTS = [
    dict(name="union-without-minus-intersection", kind="break", rule="C06-iou", edits=[(OM,
        "union_area: float = estimated_object_area + ground_truth_object_area - intersection_area", "union_area: float = estimated_object_area + ground_truth_object_area")]),
    dict(name="iou-over-gt-area", kind="break", rule="C06-iou", edits=[(OM,
        "iou_bev: float = intersection_area / union_area", "iou_bev: float = intersection_area / ground_truth_object_area")]),
    dict(name="height-min-max-swapped", kind="break", rule="C06-iou", edits=[(OM,
        "    min_z = max(\n        estimated_object.state.position[2] - estimated_object.state.size[2] / 2,", "    min_z = min(\n        estimated_object.state.position[2] - estimated_object.state.size[2] / 2,")]),
    dict(name="height-not-clamped", kind="break", rule="C06-iou", edits=[(OM,
        "    return max(0, max_z - min_z)", "    return max_z - min_z")]),
    dict(name="height-uses-full-size", kind="break", rule="C06-iou", edits=[(OM,
        "        estimated_object.state.position[2] + estimated_object.state.size[2] / 2,", "        estimated_object.state.position[2] + estimated_object.state.size[2],")]),
    dict(name="est-corners-own-ranking", kind="break", rule="C06-plane", edits=[(OM,
        "            est_corners = est_corners[sort_idx]\n", "            est_corners = est_corners[np.argsort(np.linalg.norm(est_corners[:, :2], axis=1))]\n")]),
    dict(name="plane-distance-without-half", kind="break", rule="C06-plane", edits=[(OM,
        "plane_distance = math.sqrt(0.5 * distance_squared)", "plane_distance = math.sqrt(distance_squared)")]),
    dict(name="est-left-right-swapped", kind="break", rule="C06-plane", edits=[(OM,
        "est_left_point, est_right_point = est_plane_points[left_idx], est_plane_points[right_idx]", "est_left_point, est_right_point = est_plane_points[right_idx], est_plane_points[left_idx]")]),
    dict(name="farthest-side-instead-of-nearest", kind="break", rule="C06-plane", edits=[(OM,
        "            gt_plane_points = gt_corners[:2].tolist()", "            gt_plane_points = gt_corners[2:].tolist()")]),
    dict(name="volume-uses-width", kind="break", rule="C06-iou", edits=[("common/object.py",
        "        return self.get_area_bev() * self.state.size[2]", "        return self.get_area_bev() * self.state.size[0]")]),
    dict(name="center-distance-2d-uses-offset", kind="break", rule="C06-center", edits=[(CI,
        "np.array(object_1.roi.center) - np.array(object_2.roi.center)", "np.array(object_1.roi.offset) - np.array(object_2.roi.offset)")]),
    dict(name="bev-distance-includes-z", kind="break", rule="C06-center", edits=[(PT,
        "    return point_1[:2]\n", "    return point_1[:3]\n")]),
    dict(name="corner-ranking-ignores-frame", kind="break", rule="R-FRAME", edits=[(OM,
        "            if ground_truth_object.frame_id != FrameID.BASE_LINK:\n                assert transforms is not None", "            if ground_truth_object.frame_id != FrameID.BASE_LINK and transforms is not None:\n                assert transforms is not None")]),
    dict(name="intersection-of-est-with-itself", kind="break", rule="C06-iou", edits=[(OM,
        "    area_intersection: float = pr_polygon.intersection(gt_polygon).area", "    area_intersection: float = pr_polygon.intersection(pr_polygon).area")]),
    # benign
    dict(name="iou-without-temporaries", kind="benign", edits=[(OM,
        "        union_area: float = estimated_object_area + ground_truth_object_area - intersection_area\n        iou_bev: float = intersection_area / union_area\n        return iou_bev",
        "        return intersection_area / (ground_truth_object_area - intersection_area + estimated_object_area)")]),
    dict(name="sqrt-as-power", kind="benign", edits=[(OM,
        "plane_distance = math.sqrt(0.5 * distance_squared)", "plane_distance = (distance_squared / 2) ** 0.5")]),
    dict(name="height-temporaries", kind="benign", edits=[(OM,
        "    return max(0, max_z - min_z)", "    overlap = max_z - min_z\n    return max(0, overlap)")]),
]

# seeded (round 2): the transformed corners overwrite the ground truth's own-frame corners
VARIANTS += [
    dict(name="seed2-gt-corners-overwritten-by-ego-frame-copy", kind="break", rule="R-FRAME", edits=[("evaluation/matching/object_matching.py",
        """                gt_corners_base_link = np.array(
                    [
                        transforms.transform((ground_truth_object.frame_id, FrameID.BASE_LINK), corner)
                        for corner in gt_corners
                    ]
                )
                gt_distances = np.linalg.norm(gt_corners_base_link[:, :2], axis=1)
            else:
                gt_distances = gt_distances = np.linalg.norm(gt_corners[:, :2], axis=1)
""", """                gt_corners = np.array(
                    [
                        transforms.transform((ground_truth_object.frame_id, FrameID.BASE_LINK), corner)
                        for corner in gt_corners
                    ]
                )
            gt_distances = np.linalg.norm(gt_corners[:, :2], axis=1)
""")]),
]
