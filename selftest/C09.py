OB = "common/object.py"
TP = "evaluation/metrics/detection/tp_metrics.py"

VARIANTS = [
    dict(name="D2-radians-in-ego-branch", kind="break", rule="R-SIGNEDYAW", edits=[(OB,
        "            rots, _, _ = self.state.orientation.yaw_pitch_roll\n", "            rots: float = self.state.orientation.radians\n")]),
    dict(name="D3-clip-half-turn", kind="break", rule="R-ANGLEWRAP", edits=[(OB,
        "            if err < -np.pi:\n                err += 2 * np.pi\n", "            if err < 0:\n                err += -np.pi * (err // np.pi)\n")]),
    dict(name="clip-by-pi", kind="break", rule="R-ANGLEWRAP", edits=[(OB,
        "            elif err > np.pi:\n                err -= 2 * np.pi\n            return err", "            elif err > np.pi:\n                err -= np.pi\n            return err")]),
    dict(name="heading-wrap-by-pi", kind="break", rule="R-ANGLEWRAP", edits=[(OB,
        "trans_rots = float(np.where(trans_rots < -math.pi, trans_rots + 2 * math.pi, trans_rots))", "trans_rots = float(np.where(trans_rots < -math.pi, trans_rots + math.pi, trans_rots))")]),
    dict(name="fold-on-signed-difference", kind="break", rule="C09-aph-weight", edits=[(TP,
        "        diff_heading: float = abs(pd_heading - gt_heading)\n", "        diff_heading: float = pd_heading - gt_heading\n")]),
    dict(name="weight-over-two-pi", kind="break", rule="C09-aph-weight", edits=[(TP,
        "return min(1.0, max(0.0, 1.0 - diff_heading / pi))", "return min(1.0, max(0.0, 1.0 - diff_heading / (2.0 * pi)))")]),
    dict(name="fold-missing", kind="break", rule="C09-aph-weight", edits=[(TP,
        "        if diff_heading > pi:\n            diff_heading = 2.0 * pi - diff_heading\n", "")]),
    dict(name="gt-heading-without-transforms", kind="break", rule="C09-aph-weight", edits=[(TP,
        "gt_heading: float = object_result.ground_truth_object.get_heading_bev(transforms)", "gt_heading: float = object_result.ground_truth_object.get_heading_bev()")]),
    dict(name="yaw-error-self-minus-other", kind="break", rule="C09-heading-error", edits=[(OB,
        "        err_z: float = _clip(yaw2 - yaw1)", "        err_z: float = _clip(yaw1 - yaw2)")]),
    dict(name="yaw-error-uses-pitch", kind="break", rule="C09-heading-error", edits=[(OB,
        "        yaw2, pitch2, roll2 = other.state.orientation.yaw_pitch_roll", "        pitch2, yaw2, roll2 = other.state.orientation.yaw_pitch_roll")]),
    dict(name="heading-from-untransformed-orientation", kind="break", rule="R-FRAME", edits=[(OB,
        "            rots, _, _ = rotation.yaw_pitch_roll\n", "            rots, _, _ = self.state.orientation.yaw_pitch_roll\n")]),
    dict(name="heading-no-raise-without-transforms", kind="break", rule="R-FRAME", edits=[(OB,
        "            if transforms is None:\n                raise ValueError(\"transforms must be specified.\")\n            _, rotation = transforms.transform(",
        "            if transforms is None:\n                return 0.0\n            _, rotation = transforms.transform(")]),
    # benign
    dict(name="diff-order-swapped-under-abs", kind="benign", edits=[(TP,
        "        diff_heading: float = abs(pd_heading - gt_heading)\n", "        diff_heading: float = abs(gt_heading - pd_heading)\n")]),
    dict(name="wrap-via-conditional-expression", kind="benign", edits=[(OB,
        "trans_rots = float(np.where(trans_rots < -math.pi, trans_rots + 2 * math.pi, trans_rots))", "trans_rots = trans_rots + 2 * math.pi if trans_rots < -math.pi else trans_rots")]),
    dict(name="clip-with-math-pi-constants", kind="benign", edits=[(OB,
        "            if err < -np.pi:\n                err += 2 * np.pi\n            elif err > np.pi:\n                err -= 2 * np.pi\n            return err",
        "            if err < -np.pi:\n                return err + 2.0 * np.pi\n            if err > np.pi:\n                return err - 2.0 * np.pi\n            return err")]),
]

# seeded (round 2)
VARIANTS += [
    dict(name="seed2-heading-memoised", kind="break", rule="R-FRAME", edits=[
        ("common/object.py", "        if self.frame_id == FrameID.BASE_LINK:\n            rots, _, _ = self.state.orientation.yaw_pitch_roll\n",
         "        if getattr(self, \"_heading_bev\", None) is not None:\n            return self._heading_bev\n        if self.frame_id == FrameID.BASE_LINK:\n            rots, _, _ = self.state.orientation.yaw_pitch_roll\n"),
        ("common/object.py", "        trans_rots = float(np.where(trans_rots < -math.pi, trans_rots + 2 * math.pi, trans_rots))\n        return trans_rots",
         "        trans_rots = float(np.where(trans_rots < -math.pi, trans_rots + 2 * math.pi, trans_rots))\n        self._heading_bev = trans_rots\n        return trans_rots")]),
    dict(name="seed2-aph-unclipped-arccos", kind="break", rule="C09-aph-weight", edits=[("evaluation/metrics/detection/tp_metrics.py",
        "        diff_heading: float = abs(pd_heading - gt_heading)\n\n        # Normalize heading error to [0, pi] (+pi and -pi are the same).\n        if diff_heading > pi:\n            diff_heading = 2.0 * pi - diff_heading\n",
        "        diff_heading: float = float(np.arccos(np.cos(pd_heading) * np.cos(gt_heading) + np.sin(pd_heading) * np.sin(gt_heading)))\n")]),
]
